/-
Property C14 — abelian invariants are the invariant factors of the relation lattice.

  "For n generators and any list of relators, the returned list is the ascending list of
   invariant factors different from 1 of the quotient of the free abelian group of rank n by
   the exponent-sum vectors of the relators, with one 0 for each free generator.  The result
   is unchanged by reordering, inverting, rotating or conjugating relators, by renaming or
   inverting generators, and by adding products of existing relators."

Property theorems only.  They speak about the executable model `DSymVerif.Inv.*`
(Model/Invariants.lean, a statement-by-statement copy of src/fpgroups/invariants.rs over `Int`,
tied to the code by the differential check) and the Spec `DSymVerif.SpecC14.*`, for ALL inputs.

What is proved here, for ALL inputs (the model is over unbounded integers — since the `fix:`
commit for finding F-C14-overflow the Rust code computes over `BigInt`, so this is its semantics):
  §1–§4  the arithmetic core (`gcdx`), the exponent-sum homomorphism (`relator_as_vector`) with
         rotation / conjugation invariance of the whole result, the divisibility pass, the output
         format, termination of every loop;
  §5–§6  every elimination step is a unimodular 2×2-block operation; `diagonalize_in_place` ends
         in a diagonal `D = U·A·V`, `det U, det V = ±1` (Mathlib matrices);
  §7     determinantal divisors are invariant under unimodular equivalence, equal the partial
         products of a diagonal divisibility chain, and are what the Spec computes; hence the
         MAIN STATEMENT `abelian_invariants_correct`: model output = Spec list, for every
         presentation over `±1 … ±n`;
  §8     all invariance clauses of the property, unconditionally;
  §9     the group meaning in Mathlib's own terms: `Abelianization (PresentedGroup R)` is `ℤⁿ` modulo
         the row lattice of the relation matrix, and is isomorphic to the product of the cyclic
         groups `ZMod d`, `d` running over the returned list (`ZMod 0 = ℤ`).

Vocabulary:
  `Inv.InRange n g`      letter of a presentation on n generators: g ≠ 0 ∧ |g| ≤ n
  `SpecC14.expSum k w`   exponent sum of generator k+1 in w  (#(k+1) − #(−(k+1)))
  `SpecC14.expVec n w`   `[expSum 0 w, …, expSum (n−1) w]`
  `Inv.nzProd f`         product of |x| over the non-zero entries x of f
  `Inv.zpat f`           zero pattern `f.map (· = 0)`
  `Inv.Rect mat n m`     n rows, each of length m
  `Inv.toMatrix mat n m` the Mathlib `Matrix (Fin n) (Fin m) ℤ` with entries `mat[r][c]`
  `CosetP.relSet n rels` `{wordElt n r | r ∈ rels} ⊆ FreeGroup (Fin n)` (Proofs/CosetAction.lean)
  `Inv.relMat n rels`    the relation matrix as `Matrix (Fin rels.length) (Fin n) ℤ`
  `Inv.rowSpan A`        the subgroup `{c ᵥ* A}` of `Fin n → ℤ` spanned by the rows of `A`
  `Inv.ZL L`             `(j : Fin L.length) → ZMod (L.get j)`, the product of the cyclic groups
-/
import DSymVerif.Proofs.InvariantsMeta
import DSymVerif.Proofs.InvariantsGroupMain
import DSymVerif.Proofs.InvariantsBound
import Mathlib.Data.List.Forall2

namespace DSymVerif.C14
open DSymVerif DSymVerif.Inv DSymVerif.SpecC14

/-! ## 1. `gcdx`: extended Euclid with truncating division, for all integers -/

/-- `gcdx a b = (g, r, s, r', s')` with `r·a + s·b = g`, `r'·a + s'·b = 0`,
    `r·s' − s·r' = ±1` and `|g| = gcd(a, b)`.  Termination is part of the definition of the
    model (well-founded recursion on `|a_next|`, which strictly decreases: it becomes
    `|a| % |a_next|`). -/
theorem gcdx_spec (a b : Int) :
    (gcdx a b).2.1 * a + (gcdx a b).2.2.1 * b = (gcdx a b).1 ∧
    (gcdx a b).2.2.2.1 * a + (gcdx a b).2.2.2.2 * b = 0 ∧
    ((gcdx a b).2.1 * (gcdx a b).2.2.2.2 - (gcdx a b).2.2.1 * (gcdx a b).2.2.2.1 = 1 ∨
     (gcdx a b).2.1 * (gcdx a b).2.2.2.2 - (gcdx a b).2.2.1 * (gcdx a b).2.2.2.1 = -1) ∧
    (gcdx a b).1.natAbs = Int.gcd a b :=
  gcdx_spec' a b

/-- on non-negative arguments the gcd comes out non-negative (no factor −1 can arise) -/
theorem gcdx_nonneg_of_nonneg (a b : Int) (ha : 0 ≤ a) (hb : 0 ≤ b) : 0 ≤ (gcdx a b).1 :=
  Inv.gcdx_nonneg a b ha hb

example : (0 : Int) ≤ 12 ∧ (0 : Int) ≤ 18 := by decide

/-- the pivot after a gcd step: non-zero, not larger, strictly smaller unless `e ∣ f` -/
theorem gcdx_pivot_decreases (e f : Int) (he : e ≠ 0) :
    e * (gcdx e f).2.1 + f * (gcdx e f).2.2.1 ≠ 0 ∧
    (e * (gcdx e f).2.1 + f * (gcdx e f).2.2.1).natAbs ≤ e.natAbs ∧
    (f.tmod e ≠ 0 → (e * (gcdx e f).2.1 + f * (gcdx e f).2.2.1).natAbs < e.natAbs) :=
  gcdx_pivot e f he

example : (4 : Int) ≠ 0 := by decide

/-! ## 2. `relator_as_vector` is the exponent-sum homomorphism, for all words -/

/-- on a word over `±1 … ±n` the model returns the exponent-sum vector -/
theorem vector_is_exponent_sums (n : Nat) (w : List Int) (hw : ∀ g ∈ w, InRange n g) :
    relatorAsVector n w = .ok (expVec n w) :=
  relatorAsVector_ok n w hw

example : ∀ g ∈ ([1, -2, 2, 1] : List Int), InRange 2 g := by decide

/-- any letter 0 or beyond `±n` is an index panic (as in the code: `row[(g - 1) as usize]`) -/
theorem vector_panics_outside_range (n : Nat) (w : List Int) (hw : ∃ g ∈ w, ¬ InRange n g) :
    relatorAsVector n w = .panic :=
  relatorAsVector_panic n w hw

example : ∃ g ∈ ([1, 3] : List Int), ¬ InRange 2 g := by decide

/-- `vector_hom`: exponent sums are additive on products, negate on inverses, scale on powers,
    and do not see free reduction, rotation or conjugation. -/
theorem vector_hom (k : Nat) (a b u : List Int) (i : Int) (j m : Nat) :
    expSum k (a ++ b) = expSum k a + expSum k b ∧
    expSum k (FW.mul a b) = expSum k a + expSum k b ∧
    expSum k (FW.inverse a) = - expSum k a ∧
    expSum k (FW.powNat a m) = m * expSum k a ∧
    expSum k (FW.normalized a) = expSum k a ∧
    expSum k (a.drop j ++ a.take j) = expSum k a ∧
    expSum k (FW.rotated a i) = expSum k a ∧
    expSum k (FW.mul (FW.mul u a) (FW.inverse u)) = expSum k a :=
  ⟨expSum_append k a b, expSum_mul k a b, expSum_inverse k a, expSum_powNat k a m,
   expSum_normalized k a, expSum_rot k a j, expSum_rotated k a i, expSum_conj k u a⟩

/-- at row level: the row of a product is the sum of the rows, the row of an inverse the negated row
    (so inverting a relator negates a row, appending a product of relators appends the sum of
    their rows: the row lattice is unchanged) -/
theorem vector_hom_rows (n : Nat) (a b : List Int) :
    expVec n (FW.mul a b) = List.zipWith (· + ·) (expVec n a) (expVec n b) ∧
    expVec n (FW.inverse a) = (expVec n a).map (fun x => -x) ∧
    (expVec n a).length = n :=
  ⟨expVec_mul n a b, expVec_inverse n a, expVec_length n a⟩

/-- hence the matrix row of a rotated or conjugated relator is literally the same row -/
theorem vector_rotation_conjugation (n : Nat) (w u : List Int) (i : Int)
    (hw : ∀ g ∈ w, InRange n g) (hu : ∀ g ∈ u, InRange n g) :
    relatorAsVector n (FW.rotated w i) = relatorAsVector n w ∧
    relatorAsVector n (FW.mul (FW.mul u w) (FW.inverse u)) = relatorAsVector n w :=
  ⟨relatorAsVector_rotated i hw, relatorAsVector_conj hu hw⟩

example : (∀ g ∈ ([1, 2, 2] : List Int), InRange 2 g) ∧ (∀ g ∈ ([-1] : List Int), InRange 2 g) := by
  decide

/-- … and `abelian_invariants` is unchanged by rotating or conjugating any of the relators
    (this clause of the invariance statement holds for all presentations). -/
theorem invariants_rotation_conjugation (n : Nat) (rels rels' : List (List Int))
    (h : List.Forall₂ (fun w w' => (∀ g ∈ w, InRange n g) ∧
      ((∃ i : Int, w' = FW.rotated w i) ∨
       (∃ u : List Int, (∀ g ∈ u, InRange n g) ∧ w' = FW.mul (FW.mul u w) (FW.inverse u))))
      rels rels') :
    abelianInvariants n rels' = abelianInvariants n rels := by
  apply abelianInvariants_congr
  induction h with
  | nil => rfl
  | cons hab _ ih =>
    simp only [List.map_cons, List.cons.injEq]
    refine ⟨?_, ih⟩
    obtain ⟨hw, hrot | hconj⟩ := hab
    · obtain ⟨i, rfl⟩ := hrot; exact relatorAsVector_rotated i hw
    · obtain ⟨u, hu, rfl⟩ := hconj; exact relatorAsVector_conj hu hw

example : List.Forall₂ (fun w w' => (∀ g ∈ w, InRange 2 g) ∧
      ((∃ i : Int, w' = FW.rotated w i) ∨
       (∃ u : List Int, (∀ g ∈ u, InRange 2 g) ∧ w' = FW.mul (FW.mul u w) (FW.inverse u))))
      [[1, 2]] [FW.rotated [1, 2] 1] :=
  List.Forall₂.cons ⟨by decide, Or.inl ⟨1, rfl⟩⟩ List.Forall₂.nil

/-! ## 3. the divisibility pass and the output format -/

/-- `chain_step`: the gcd/lcm pass over the diagonal keeps the length, the zero pattern (hence the
    number of zeros) and the product of the absolute values of the non-zero entries, keeps
    non-negative entries non-negative, and ends in a divisibility chain. -/
theorem chain_step (f : List Int) :
    (chainPass f.length f).length = f.length ∧
    zpat (chainPass f.length f) = zpat f ∧
    (chainPass f.length f).count 0 = f.count 0 ∧
    nzProd (chainPass f.length f) = nzProd f ∧
    ((∀ x ∈ f, 0 ≤ x) → ∀ x ∈ chainPass f.length f, 0 ≤ x) ∧
    (∀ i j, i < j → j < f.length → (chainPass f.length f).getD i 0 ≠ 0 →
      (chainPass f.length f).getD i 0 ∣ (chainPass f.length f).getD j 0) :=
  ⟨chainPass_length f, chainPass_zpat _ f, chainPass_count_zero _ f, chainPass_nzProd _ f,
   chainPass_nonneg _ f, fun i j hij hj h0 => chainPass_chain f i j hij hj h0⟩

/-- the output is sorted ascending, is a rearrangement of the |factors| `≠ 1` together with
    `nr_gens − n` zeros, and contains no 1 when the factors are non-negative -/
theorem output_format (nrGens n : Nat) (fs : List Int) :
    List.Pairwise (fun a b => a ≤ b) (finish nrGens n fs) ∧
    (finish nrGens n fs).Perm
      ((fs.filter (fun x => x ≠ 1)).map Int.natAbs ++ List.replicate (nrGens - n) 0) ∧
    (finish nrGens n fs).count 0 = fs.count 0 + (nrGens - n) ∧
    ((∀ x ∈ fs, 0 ≤ x) → 1 ∉ finish nrGens n fs) :=
  ⟨finish_sorted nrGens n fs, finish_perm nrGens n fs, finish_count_zero nrGens n fs,
   finish_no_one nrGens n fs⟩

/-- every list returned by `abelian_invariants` is ascending -/
theorem invariants_ascending (n : Nat) (rels : List (List Int)) (out : List Nat)
    (h : abelianInvariants n rels = .ok out) : List.Pairwise (fun a b => a ≤ b) out :=
  abelianInvariants_sorted h

/-- … and contains no 1 (the diagonal left by `diagonalize_in_place` is non-negative, the
    divisibility pass keeps it so, hence the `!= 1` filter before `abs()` misses nothing) -/
theorem invariants_no_one (n : Nat) (rels : List (List Int)) (out : List Nat)
    (h : abelianInvariants n rels = .ok out) : 1 ∉ out :=
  abelianInvariants_no_one h

example : abelianInvariants 3 [] = .ok [0, 0, 0] := abelianInvariants_no_relators 3

/-- no relators: the free abelian group of rank n -/
theorem invariants_no_relators (n : Nat) : abelianInvariants n [] = .ok (List.replicate n 0) :=
  abelianInvariants_no_relators n

/-! ## 4. termination, totality, shape -/

/-- `diagonalize_in_place` terminates on every non-empty rectangular matrix (the model's fuel
    `|pivot| + 1` for the `loop { rows; if cols == 0 { break } }` is never exhausted, because the
    pivot's absolute value strictly decreases in every round that counts a gcd step) and keeps the
    shape — so every index expression of the Rust code is in range. -/
theorem diagonalize_terminates (mat : Mat) (n m : Nat) (hR : Rect mat n m) (hn : 0 < n) :
    ∃ mat', diagonalize mat = some mat' ∧ Rect mat' n m :=
  diagonalize_some mat n m hR hn

example : Rect [[2, 4], [6, 8]] 2 2 ∧ 0 < 2 := by
  refine ⟨⟨rfl, ?_⟩, by decide⟩
  intro row hrow
  simp at hrow
  rcases hrow with rfl | rfl <;> rfl

/-- the diagonal it leaves is non-negative -/
theorem diagonal_nonneg (mat D : Mat) (n m : Nat) (hR : Rect mat n m) (hn : 0 < n)
    (h : diagonalize mat = some D) : ∀ k, k < n → k < m → 0 ≤ get D k k :=
  diagonalize_diag_nonneg mat D n m hR hn h

/-- the model never reports a non-terminating loop, for any input -/
theorem invariants_never_diverges (n : Nat) (rels : List (List Int)) :
    abelianInvariants n rels ≠ .err :=
  abelianInvariants_ne_err n rels

/-- on every presentation over `±1 … ±n` a list is returned (over ℤ; the `isize` code can
    overflow on the way — finding F-C14-overflow) -/
theorem invariants_total (n : Nat) (rels : List (List Int))
    (h : ∀ w ∈ rels, ∀ g ∈ w, InRange n g) : ∃ out, abelianInvariants n rels = .ok out :=
  abelianInvariants_ok h

example : ∀ w ∈ ([[1, 1], [2, 2, 2]] : List (List Int)), ∀ g ∈ w, InRange 2 g := by decide

/-- the instrumented model run by the driver (value + largest intermediate absolute value)
    returns exactly the model's value -/
theorem instrumented_model_agrees (n : Nat) (rels : List (List Int)) :
    (abelianInvariantsB n rels).1 = abelianInvariants n rels :=
  abelianInvariantsB_fst n rels

/-! ## 5. single elimination steps are unimodular (○ `clear_step_unimodular`) -/

/-- a step of `clear_later_rows_in_place` on an `n × m` matrix whose rows `i` and `row` vanish left
    of column `i` replaces these two rows by `p·R_i + q·R_row`, `r·R_i + s·R_row` with
    `p·s − q·r = ±1`, leaves every other row alone and makes `mat[row][i] = 0`. -/
theorem clear_step_unimodular_rows (mat : Mat) (n m i row cnt : Nat) (hR : Rect mat n m)
    (him : i < m) (hir : i < row) (hrn : row < n)
    (hz : ∀ c, c < i → get mat i c = 0 ∧ get mat row c = 0) :
    ∃ p q r s : Int, (p * s - q * r = 1 ∨ p * s - q * r = -1) ∧
      (∀ k c, c < m → k < n →
        get (clearRowStep i (mat, cnt) row).1 k c =
          if k = i then p * get mat i c + q * get mat row c
          else if k = row then r * get mat i c + s * get mat row c
          else get mat k c) ∧
      get (clearRowStep i (mat, cnt) row).1 row i = 0 :=
  clearRowStep_unimodular mat n m i row cnt hR him hir hrn hz

example : Rect [[2, 4], [6, 8]] 2 2 ∧ (∀ c, c < 0 → get [[2, 4], [6, 8]] 0 c = 0 ∧ get [[2, 4], [6, 8]] 1 c = 0) := by
  refine ⟨⟨rfl, ?_⟩, by intro c hc; omega⟩
  intro row hrow
  simp at hrow
  rcases hrow with rfl | rfl <;> rfl

/-- a step of `clear_later_cols_in_place` on an `n × m` matrix whose columns `i` and `col` vanish
    above row `i` replaces these two columns by `p·C_i + q·C_col`, `r·C_i + s·C_col` with
    `p·s − q·r = ±1`, leaves every other column alone and makes `mat[i][col] = 0`. -/
theorem clear_step_unimodular_cols (mat : Mat) (n m i col cnt : Nat) (hR : Rect mat n m)
    (hin : i < n) (hic : i < col) (hcm : col < m)
    (hz : ∀ k, k < i → get mat k i = 0 ∧ get mat k col = 0) :
    ∃ p q r s : Int, (p * s - q * r = 1 ∨ p * s - q * r = -1) ∧
      (∀ k c, c < m → k < n →
        get (clearColStep i (mat, cnt) col).1 k c =
          if c = i then p * get mat k i + q * get mat k col
          else if c = col then r * get mat k i + s * get mat k col
          else get mat k c) ∧
      get (clearColStep i (mat, cnt) col).1 i col = 0 :=
  clearColStep_unimodular mat n m i col cnt hR hin hic hcm hz

/-! ## 6. `diagonalize_in_place` computes a diagonal matrix unimodularly equivalent to its input -/

/-- `find_pivot` returns a zero entry only if every entry of the remaining block is zero -/
theorem find_pivot_complete (mat : Mat) (i n m : Nat) (hn : nrows mat = n) (hm : ncols mat = m)
    (h0 : get mat (findPivot mat i).1 (findPivot mat i).2 = 0) :
    ∀ r c, i ≤ r → r < n → i ≤ c → c < m → get mat r c = 0 :=
  findPivot_zero mat i n m hn hm h0

example : get [[0, 0], [0, 0]] (findPivot [[0, 0], [0, 0]] 0).1 (findPivot [[0, 0], [0, 0]] 0).2 = 0 := by
  decide

/-- `diagonalize_equiv`: on an `n × m` matrix `A` the routine ends in `D` with all off-diagonal
    entries zero and `D = U · A · V` for integer matrices `U`, `V` of determinant ±1. -/
theorem diagonalize_equiv (mat D : Mat) (n m : Nat) (hR : Rect mat n m) (hn : 0 < n)
    (h : diagonalize mat = some D) :
    (∀ r c, r < n → c < m → r ≠ c → get D r c = 0) ∧
    ∃ (U : Matrix (Fin n) (Fin n) ℤ) (V : Matrix (Fin m) (Fin m) ℤ),
      (U.det = 1 ∨ U.det = -1) ∧ (V.det = 1 ∨ V.det = -1) ∧
      U * toMatrix mat n m * V = toMatrix D n m :=
  diagonalize_equiv' mat D n m hR hn h

example : Rect [[-3, 6], [9, 4]] 2 2 ∧ 0 < 2 ∧
    diagonalize [[-3, 6], [9, 4]] = some [[3, 0], [0, 22]] := by
  refine ⟨⟨rfl, by intro row hrow; simp at hrow; rcases hrow with rfl | rfl <;> rfl⟩, by decide,
    by decide +kernel⟩

/-- the zeros of the diagonal are at its end -/
theorem diagonal_zeros_trailing (mat D : Mat) (n m : Nat) (hR : Rect mat n m) (hn : 0 < n)
    (h : diagonalize mat = some D) :
    ∀ i j, i < j → j < min n m → get D i i = 0 → get D j j = 0 :=
  diagonalize_tail mat D n m hR hn h

/-! ## 7. determinantal divisors; the main statement -/

/-- determinantal divisors (`dk A k` = gcd of all `k × k` minors, Mathlib `Matrix.det` of
    `Matrix.submatrix`) do not change under multiplication by integer matrices of determinant ±1
    on either side -/
theorem determinantal_divisors_invariant {n m : Nat} (A : Matrix (Fin n) (Fin m) ℤ)
    (U : Matrix (Fin n) (Fin n) ℤ) (V : Matrix (Fin m) (Fin m) ℤ)
    (hU : U.det = 1 ∨ U.det = -1) (hV : V.det = 1 ∨ V.det = -1) (k : Nat) :
    dk (U * A * V) k = dk A k := by
  have hU' : IsUnit U := (Matrix.isUnit_iff_isUnit_det U).mpr (Int.isUnit_iff.mpr hU)
  have hV' : IsUnit V := (Matrix.isUnit_iff_isUnit_det V).mpr (Int.isUnit_iff.mpr hV)
  rw [dk_mul_unit _ V hV', dk_unit_mul U hU']

example : ((1 : Matrix (Fin 2) (Fin 2) ℤ).det = 1 ∨ (1 : Matrix (Fin 2) (Fin 2) ℤ).det = -1) :=
  Or.inl Matrix.det_one

/-- for a diagonal matrix whose diagonal is a divisibility chain, `d_k` is the absolute value of
    the product of the first `k` diagonal entries -/
theorem determinantal_divisors_of_chain (e : Nat → ℤ) (hch : ∀ i j, i ≤ j → e i ∣ e j)
    (n m k : Nat) (hkn : k ≤ n) (hkm : k ≤ m) :
    dk (diagF e n m) k = (∏ i ∈ Finset.range k, e i).natAbs :=
  dk_diagF e hch n m k hkn hkm

example : ∀ i j : Nat, i ≤ j → (fun _ : Nat => (2 : ℤ)) i ∣ (fun _ : Nat => (2 : ℤ)) j :=
  fun _ _ _ => dvd_refl _

/-- the Spec's `detDivisor` (Laplace expansion on lists, sorted index subsets) is `dk` -/
theorem spec_divisor_is_determinantal_divisor (a : Mat) (r n k : Nat) (hR : Rect a r n) :
    SpecC14.detDivisor a n k = dk (toMatrix a r n) k :=
  detDivisor_eq_dk a r n k hR

/-- **main statement**: for every number of generators and every list of relators over `±1 … ±n`
    the model of `abelian_invariants` returns exactly the list the Spec defines: the invariant
    factors `d_k / d_{k−1} ≠ 1` of the relation matrix (quotients of its determinantal divisors)
    and one `0` per free generator, ascending. -/
theorem abelian_invariants_correct (n : Nat) (rels : List (List Int))
    (hin : ∀ w ∈ rels, ∀ g ∈ w, InRange n g) :
    abelianInvariants n rels = .ok (SpecC14.expected n rels) :=
  abelianInvariants_eq_expected n rels hin

/-- the statement of the property as a closed proposition … -/
def abelian_invariants_statement : Prop :=
  ∀ (n : Nat) (rels : List (List Int)), (∀ w ∈ rels, ∀ g ∈ w, InRange n g) →
    abelianInvariants n rels = .ok (SpecC14.expected n rels)

/-- … holds -/
theorem abelian_invariants_statement_holds : abelian_invariants_statement :=
  fun n rels hin => abelian_invariants_correct n rels hin

/-- former name and form (with the no-overflow hypothesis that was needed while the code computed
    over `isize`; the hypothesis is no longer used) -/
theorem abelian_invariants_eq_spec (n : Nat) (rels : List (List Int))
    (hin : ∀ w ∈ rels, ∀ g ∈ w, InRange n g)
    (_hb : ((abelianInvariantsB n rels).2 : Int) < isizeMax) :
    abelianInvariants n rels = .ok (SpecC14.expected n rels) :=
  abelian_invariants_correct n rels hin

/-- non-vacuity, and the statement at work: `⟨a, b | a², b³⟩` gives `[6]` -/
example : (∀ w ∈ ([[1, 1], [2, 2, 2]] : List (List Int)), ∀ g ∈ w, InRange 2 g) ∧
    ((abelianInvariantsB 2 [[1, 1], [2, 2, 2]]).2 : Int) < isizeMax ∧
    abelianInvariants 2 [[1, 1], [2, 2, 2]] = .ok [6] ∧
    SpecC14.expected 2 [[1, 1], [2, 2, 2]] = [6] := by
  refine ⟨by decide, by decide +kernel, by decide +kernel, by decide +kernel⟩

/-! ## 8. the invariance clauses of the property

The Spec list depends only on `n` and the determinantal divisors; these depend only on the row
lattice of the relation matrix and do not change under signed permutations of its columns.  With
the main statement the model's result inherits every invariance.

  `InLat n rels w`      the exponent-sum vector of `w` is an integer combination of those of `rels`
  `RowsIn n rels rels'` every `w' ∈ rels'` satisfies `InLat n rels w'`
  `RelProd rels w`      `w` is built from members of `rels` by `FW.mul`, `FW.inverse`, `FW.empty`
  `renameWord π flip w` every letter `±(k+1)` of `w` replaced by `±(π k + 1)`, sign switched when `flip k`
-/

/-- the Spec list (the mathematical invariant) is the same for presentations with the same row
    lattice — unconditionally -/
theorem spec_same_row_lattice (n : Nat) (rels rels' : List (List Int))
    (h1 : RowsIn n rels rels') (h2 : RowsIn n rels' rels) :
    SpecC14.expected n rels' = SpecC14.expected n rels :=
  expected_eq_of_same_lattice n rels rels' h1 h2

/-- … and under renaming / inverting generators — unconditionally -/
theorem spec_rename_generators {n : Nat} (π : Equiv.Perm (Fin n)) (flip : Fin n → Bool)
    (rels : List (List Int)) (hin : ∀ w ∈ rels, ∀ g ∈ w, InRange n g) :
    SpecC14.expected n (rels.map (renameWord π flip)) = SpecC14.expected n rels :=
  expected_rename π flip rels hin

/-- general form for the relator clauses: same row lattice, same result -/
theorem invariants_same_row_lattice (n : Nat) (rels rels' : List (List Int))
    (hin : ∀ w ∈ rels, ∀ g ∈ w, InRange n g) (hin' : ∀ w ∈ rels', ∀ g ∈ w, InRange n g)
    (h1 : RowsIn n rels rels') (h2 : RowsIn n rels' rels) :
    abelianInvariants n rels' = abelianInvariants n rels :=
  abelianInvariants_same_lattice n rels rels' hin hin' h1 h2

/-- reordering the relators -/
theorem invariants_reorder (n : Nat) (rels rels' : List (List Int)) (hp : rels'.Perm rels)
    (hin : ∀ w ∈ rels, ∀ g ∈ w, InRange n g) :
    abelianInvariants n rels' = abelianInvariants n rels :=
  abelianInvariants_same_lattice n rels rels' hin
    (fun w hw => hin w (hp.mem_iff.mp hw))
    (rowsIn_reorder n rels rels' hp).1 (rowsIn_reorder n rels rels' hp).2

/-- inverting any of the relators -/
theorem invariants_invert_relators (n : Nat) (rels rels' : List (List Int))
    (h : List.Forall₂ (fun w w' => w' = w ∨ w' = FW.inverse w) rels rels')
    (hin : ∀ w ∈ rels, ∀ g ∈ w, InRange n g) :
    abelianInvariants n rels' = abelianInvariants n rels := by
  have hin' : ∀ w ∈ rels', ∀ g ∈ w, InRange n g := by
    induction h with
    | nil => intro w hw; simp at hw
    | @cons w w' ws ws' hw _ ih =>
      intro u hu
      rcases List.mem_cons.mp hu with rfl | hu
      · rcases hw with rfl | rfl
        · exact hin _ List.mem_cons_self
        · exact inverse_inRange (hin w List.mem_cons_self)
      · exact ih (fun v hv => hin v (List.mem_cons_of_mem _ hv)) u hu
  exact abelianInvariants_same_lattice n rels rels' hin hin'
    (rowsIn_invert n rels rels' h).1 (rowsIn_invert n rels rels' h).2

/-- appending products of existing relators (and of their inverses) -/
theorem invariants_append_products (n : Nat) (rels extra : List (List Int))
    (h : ∀ u ∈ extra, RelProd rels u)
    (hin : ∀ w ∈ rels, ∀ g ∈ w, InRange n g) :
    abelianInvariants n (rels ++ extra) = abelianInvariants n rels := by
  have hprod : ∀ u, RelProd rels u → ∀ g ∈ u, InRange n g := by
    intro u hu
    induction hu with
    | mem w hw => exact hin w hw
    | one => intro g hg; simp [FW.empty, FW.new, FW.normalized] at hg
    | mul a b _ _ iha ihb => exact mul_inRange iha ihb
    | inv a _ iha => exact inverse_inRange iha
  have hin' : ∀ w ∈ rels ++ extra, ∀ g ∈ w, InRange n g := by
    intro w hw
    rcases List.mem_append.mp hw with hw | hw
    · exact hin w hw
    · exact hprod w (h w hw)
  exact abelianInvariants_same_lattice n rels (rels ++ extra) hin hin'
    (rowsIn_append n rels extra h).1 (rowsIn_append n rels extra h).2

/-- renaming and inverting generators -/
theorem invariants_rename_generators {n : Nat} (π : Equiv.Perm (Fin n)) (flip : Fin n → Bool)
    (rels : List (List Int)) (hin : ∀ w ∈ rels, ∀ g ∈ w, InRange n g) :
    abelianInvariants n (rels.map (renameWord π flip)) = abelianInvariants n rels :=
  abelianInvariants_rename π flip rels hin

/-- non-vacuity of the hypotheses of this section on `⟨a, b | a², b³⟩` and its variants -/
example :
    (∀ w ∈ ([[1, 1], [2, 2, 2]] : List (List Int)), ∀ g ∈ w, InRange 2 g) ∧
    ([[2, 2, 2], [1, 1]] : List (List Int)).Perm [[1, 1], [2, 2, 2]] ∧
    List.Forall₂ (fun w w' => w' = w ∨ w' = FW.inverse w)
      ([[1, 1], [2, 2, 2]] : List (List Int)) [[1, 1], FW.inverse [2, 2, 2]] ∧
    (∀ u ∈ [FW.mul [1, 1] [2, 2, 2]], RelProd [[1, 1], [2, 2, 2]] u) := by
  refine ⟨by decide, List.Perm.swap _ _ _,
    List.Forall₂.cons (Or.inl rfl) (List.Forall₂.cons (Or.inr rfl) List.Forall₂.nil), ?_⟩
  intro u hu
  rw [List.mem_singleton] at hu
  subst hu
  exact RelProd.mul _ _ (RelProd.mem _ (by simp)) (RelProd.mem _ (by simp))

/-! ## 9. the group the list describes -/

/-- the abelianisation of `⟨x₁ … xₙ | rels⟩` is `ℤⁿ` modulo the lattice spanned by the
    exponent-sum vectors of the relators (for all words, in range or not) -/
theorem abelianization_is_row_quotient (n : Nat) (rels : List (List Int)) :
    Nonempty (Abelianization (PresentedGroup (CosetP.relSet n rels)) ≃*
      Multiplicative ((Fin n → ℤ) ⧸ rowSpan (relMat n rels))) :=
  ⟨AddEquiv.toMultiplicativeRight (abelianizationEquivQuot n rels)⟩

/-- the first sentence of the property in Mathlib's terms: the list the Spec defines — which is the
    list the model returns (`abelian_invariants_correct`) — is the list of invariant factors of the
    abelianised group: `Abelianization ⟨x₁ … xₙ | rels⟩ ≅ Π_{d ∈ list} ZMod d`, `ZMod 0 = ℤ`. -/
theorem abelianization_is_expected (n : Nat) (rels : List (List Int))
    (hin : ∀ w ∈ rels, ∀ g ∈ w, InRange n g) :
    Nonempty (Abelianization (PresentedGroup (CosetP.relSet n rels)) ≃*
      Multiplicative (ZL (SpecC14.expected n rels))) :=
  abelianization_equiv_expected n rels hin

/-- the same for the list returned by the model of `abelian_invariants` -/
theorem abelianization_is_returned_list (n : Nat) (rels : List (List Int)) (out : List Nat)
    (hin : ∀ w ∈ rels, ∀ g ∈ w, InRange n g) (h : abelianInvariants n rels = .ok out) :
    Nonempty (Abelianization (PresentedGroup (CosetP.relSet n rels)) ≃* Multiplicative (ZL out)) := by
  rw [abelian_invariants_correct n rels hin] at h
  injection h with h
  subst h
  exact abelianization_equiv_expected n rels hin

/-- free abelian case: `k` zeros mean `ℤᵏ` -/
theorem abelianization_free_of_expected (n k : Nat) (rels : List (List Int))
    (hin : ∀ w ∈ rels, ∀ g ∈ w, Inv.InRange n g)
    (h : SpecC14.expected n rels = List.replicate k 0) :
    Nonempty (Abelianization (PresentedGroup (CosetP.relSet n rels)) ≃*
      Multiplicative (Fin k → ℤ)) :=
  abelianization_free n k rels hin h

/-- non-vacuity: the commutator presentation of `ℤ²` -/
example : (∀ w ∈ ([[1, 2, -1, -2]] : List (List Int)), ∀ g ∈ w, InRange 2 g) ∧
    SpecC14.expected 2 [[1, 2, -1, -2]] = List.replicate 2 0 ∧
    abelianInvariants 2 [[1, 2, -1, -2]] = .ok [0, 0] := by
  have h1 : ∀ w ∈ ([[1, 2, -1, -2]] : List (List Int)), ∀ g ∈ w, InRange 2 g := by decide
  have h2 : SpecC14.expected 2 [[1, 2, -1, -2]] = List.replicate 2 0 := by decide +kernel
  exact ⟨h1, h2, by rw [abelian_invariants_correct 2 _ h1, h2]; rfl⟩

end DSymVerif.C14
