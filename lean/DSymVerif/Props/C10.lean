/-
Property C10 — free words are reduced elements of a free group.

  "Every operation on free words (construction, product in all operand forms including
   the in-place product, inverse, power, commutator, rotation) returns a freely reduced
   word, so that equality of values is equality in the free group and the group axioms
   hold.  The ordering is a strict total order compatible with equality.  The relator
   representative of a word is the least element among all rotations of the word and of
   its inverse, hence identical for every rotation and inversion of a cyclically reduced
   word, and the relator permutation set is exactly that set of rotations and inverses."

Property theorems only.  They speak about the executable model `DSymVerif.FW.*`
(Model/FreeWord.lean, tied to free_words.rs by the differential check) and the decidable
Spec `DSymVerif.SpecC10.*` (Spec/C10.lean, evaluated on the implementation's outputs), for
ALL inputs — no bound on word length, letters, exponents or rotation amounts.

Vocabulary (definitions in Proofs/FreeWord*.lean, namespace `DSymVerif.FWP`):
  `enc w  : List (ℕ × Bool)`  drop the zero letters, x ↦ (|x|, 0 < x)
  `den w  : FreeGroup ℕ`      `FreeGroup.mk (enc w)`
  `Expr`, `Expr.evalModel`, `Expr.evalGroup`, `Expr.raw`   expression trees over the API
  `Le a b`                    `FW.cmp a b ≠ .gt`
  `Sorted l`                  `l.Pairwise (FW.cmp · · = .lt)`
  `rotInvList a`              `[rotated a i, inverse (rotated a i) | i < a.length]`
  `ordInt`                    `Ordering → Int` (-1, 0, 1)
-/
import DSymVerif.Proofs.FreeWordCyclic

namespace DSymVerif.C10
open DSymVerif DSymVerif.FWP

/-! ## 1. `normalized` is `FreeGroup.reduce`; the Spec's oracle and Boolean mean the same -/

/-- keystone: the model of `normalized` computes Mathlib's normal form -/
theorem normalized_eq_reduce (w : List Int) :
    enc (FW.normalized w) = FreeGroup.reduce (enc w) :=
  FWP.normalized_eq_reduce w

/-- the Spec's naive rewriting oracle computes Mathlib's normal form as well -/
theorem spec_reduce_eq (w : List Int) :
    enc (SpecC10.reduceSpec w) = FreeGroup.reduce (enc w) :=
  FWP.reduceSpec_eq_reduce w

/-- … and is the same function as the model's `normalized` -/
theorem spec_reduce_eq_normalized (w : List Int) : SpecC10.reduceSpec w = FW.normalized w :=
  FWP.reduceSpec_eq_normalized w

/-- the Spec's Boolean `isReduced` is: no zero letter, and `FreeGroup.IsReduced` -/
theorem isReduced_iff (w : List Int) :
    SpecC10.isReduced w = true ↔ (0 ∉ w ∧ FreeGroup.IsReduced (enc w)) :=
  FWP.isReduced_iff w

theorem normalized_isReduced (w : List Int) : SpecC10.isReduced (FW.normalized w) = true :=
  FWP.normalized_isReduced w

/-- reduced words are fixed by construction: values are their own normal form -/
theorem new_of_isReduced {w : List Int} (h : SpecC10.isReduced w = true) : FW.new w = w :=
  FWP.new_of_isReduced h

example : SpecC10.isReduced [1, -2, 3] = true := by decide

/-- two reduced words with the same encoding are equal (no information is lost by `enc`) -/
theorem enc_injective {a b : List Int} (ha : SpecC10.isReduced a = true)
    (hb : SpecC10.isReduced b = true) (h : enc a = enc b) : a = b :=
  FWP.enc_injective (isReduced_nz ha) (isReduced_nz hb) h

example : SpecC10.isReduced [2, 1] = true ∧ SpecC10.isReduced [-3] = true := by decide

/-! ## 2. every operation returns a reduced word, for all operands (reduced or not) -/

theorem reduced_closed (a b : List Int) (x m i : Int) (n : Nat) :
    SpecC10.isReduced (FW.new a) = true ∧
    SpecC10.isReduced FW.empty = true ∧
    SpecC10.isReduced (FW.mul a b) = true ∧
    SpecC10.isReduced (FW.mulLetter a x) = true ∧
    SpecC10.isReduced (FW.mulAssign a b) = true ∧
    SpecC10.isReduced (FW.inverse a) = true ∧
    SpecC10.isReduced (FW.powNat a n) = true ∧
    SpecC10.isReduced (FW.raisedTo a m) = true ∧
    SpecC10.isReduced (FW.commutator a b) = true ∧
    SpecC10.isReduced (FW.rotated a i) = true :=
  ⟨new_isReduced a, rfl, mul_isReduced a b, mulLetter_isReduced a x, mulAssign_isReduced a b,
   inverse_isReduced a, powNat_isReduced a n, raisedTo_isReduced a m, commutator_isReduced a b,
   rotated_isReduced a i⟩

/-- members of the relator permutation set and the relator representative are reduced -/
theorem relator_reduced {a : List Int} (h : SpecC10.isReduced a = true) :
    SpecC10.isReduced (FW.relatorRepresentative a) = true ∧
    ∀ v ∈ FW.relatorPermutations a, SpecC10.isReduced v = true :=
  ⟨relRep_isReduced h, fun v hv => isReduced_of_mem_relatorSet ((mem_relPerms' a v).1 hv)⟩

example : SpecC10.isReduced [1, 2, -1] = true := by decide

/-! ## 2b. indexing reads the letters of the value (`impl Index<usize> for FreeWord`) -/

/-- `w[k]` is the `k`-th letter of the letter list for `k < len` (the Spec's `letterAt`) … -/
theorem get_index_spec {a : List Int} {k : Nat} (h : k < a.length) :
    FW.index a k = .ok a[k] ∧ SpecC10.letterAt a k = some a[k] :=
  ⟨index_ok h, by rw [← index_toOption, index_ok h]; rfl⟩

example : 1 < [3, -2].length := by decide

/-- … and a panic exactly beyond the end, where the word has no letter -/
theorem get_index_panic {a : List Int} {k : Nat} (h : a.length ≤ k) :
    FW.index a k = .panic ∧ SpecC10.letterAt a k = none :=
  ⟨index_panic h, by rw [← index_toOption, index_panic h]; rfl⟩

example : [3, -2].length ≤ 2 := by decide

/-! ## 3. the operations are the group operations of `FreeGroup ℕ` -/

/-- meaning of the letters: `n ↦ of n`, `-n ↦ (of n)⁻¹`, `0 ↦ 1` -/
theorem den_letter (n : ℕ) (h : 0 < n) :
    den [(n : Int)] = FreeGroup.of n ∧ den [-(n : Int)] = (FreeGroup.of n)⁻¹ ∧ den [0] = 1 :=
  ⟨den_pos n h, den_neg n h, den_zero⟩

example : (0 : ℕ) < 1 := by decide

theorem den_append (a b : List Int) : den (a ++ b) = den a * den b := FWP.den_append a b

theorem den_new (w : List Int) : den (FW.new w) = den w := FWP.den_new w

theorem den_empty : den FW.empty = 1 := rfl

theorem den_mul (a b : List Int) : den (FW.mul a b) = den a * den b := FWP.den_mul a b

theorem den_mulAssign (a b : List Int) : den (FW.mulAssign a b) = den a * den b :=
  FWP.den_mulAssign a b

theorem den_mulLetter (a : List Int) (x : Int) : den (FW.mulLetter a x) = den a * den [x] :=
  FWP.den_mulLetter a x

theorem den_inverse (a : List Int) : den (FW.inverse a) = (den a)⁻¹ := FWP.den_inverse a

theorem den_raisedTo (a : List Int) (m : Int) : den (FW.raisedTo a m) = den a ^ m :=
  FWP.den_raisedTo a m

open scoped commutatorElement in
theorem den_commutator (a b : List Int) : den (FW.commutator a b) = ⁅den a, den b⁆ :=
  FWP.den_commutator' a b

theorem den_commutator_expanded (a b : List Int) :
    den (FW.commutator a b) = den a * den b * (den a)⁻¹ * (den b)⁻¹ :=
  FWP.den_commutator a b

/-! ## 4. equality of values is equality in the free group; the group axioms hold -/

theorem eq_iff_den_eq {a b : List Int} (ha : SpecC10.isReduced a = true)
    (hb : SpecC10.isReduced b = true) : a = b ↔ den a = den b :=
  FWP.eq_iff_den_eq ha hb

example : SpecC10.isReduced [1, 2] = true ∧ SpecC10.isReduced [2, 1] = true := by decide

/-- a value is the `toWord` normal form of the group element it denotes -/
theorem enc_eq_toWord {a : List Int} (ha : SpecC10.isReduced a = true) :
    enc a = (den a).toWord :=
  FWP.enc_eq_toWord ha

/-- the group axioms on values, as equalities of letter lists -/
theorem group_axioms (a b c : List Int) (ha : SpecC10.isReduced a = true) :
    FW.mul (FW.mul a b) c = FW.mul a (FW.mul b c) ∧
    FW.mul a FW.empty = a ∧ FW.mul FW.empty a = a ∧
    FW.mul a (FW.inverse a) = FW.empty ∧ FW.mul (FW.inverse a) a = FW.empty :=
  ⟨mul_assoc' a b c, mul_empty ha, empty_mul ha, mul_inverse a, inverse_mul a⟩

/-- without the value invariant the unit laws fail (the product normalises its operands) -/
example : FW.mul [1, -1] FW.empty ≠ [1, -1] := by decide

/-! ## 5. all histories of mixed operations -/

/-- every expression tree over construction, the products, inverse, integer powers,
    commutator and letter product evaluates in the model to a reduced word denoting the
    value of the same expression in `FreeGroup ℕ` -/
theorem eval_expr (e : Expr) :
    SpecC10.isReduced e.evalModel = true ∧ den e.evalModel = e.evalGroup :=
  ⟨evalModel_isReduced e, den_evalModel e⟩

/-- … which is the clause the driver checks on the implementation: the Spec's normal form of
    the raw (unreduced) word of the expression -/
theorem eval_expr_spec (e : Expr) : e.evalModel = SpecC10.reduceSpec e.raw :=
  evalModel_eq_reduceSpec e

/-! ## 6. the ordering is a strict total order compatible with equality -/

theorem cmp_eq_iff (a b : List Int) : FW.cmp a b = .eq ↔ a = b := FWP.cmp_eq_iff a b

theorem cmp_antisymm (a b : List Int) : FW.cmp a b = .lt ↔ FW.cmp b a = .gt :=
  FWP.cmp_lt_iff_gt a b

theorem cmp_swap (a b : List Int) : FW.cmp b a = (FW.cmp a b).swap := FWP.cmp_swap a b

/-- transitivity holds for all letter lists: the letter order `1 < 2 < … < 0 < -1 < -2 < …`
    is a strict total order on all of `Int`, zero included -/
theorem cmp_trans {a b c : List Int} (h1 : FW.cmp a b = .lt) (h2 : FW.cmp b c = .lt) :
    FW.cmp a c = .lt :=
  FWP.cmp_trans h1 h2

example : FW.cmp [1] [1, 2] = .lt ∧ FW.cmp [1, 2] [-1] = .lt := by decide

theorem cmp_total (a b : List Int) : FW.cmp a b = .lt ∨ a = b ∨ FW.cmp b a = .lt :=
  FWP.cmp_total a b

/-- packaged: `<` of `Ord for FreeWord` is a strict total order -/
theorem cmp_strictTotalOrder :
    IsStrictTotalOrder (List Int) (fun a b => FW.cmp a b = .lt) :=
  { trichotomous := fun a b h1 h2 => by
      rcases FWP.cmp_total a b with h | h | h
      · exact absurd h h1
      · exact h
      · exact absurd h h2
    irrefl := fun a => FWP.cmp_irrefl a
    trans := fun _ _ _ h1 h2 => FWP.cmp_trans h1 h2 }

/-- on zero-free words (in particular on values) the model's order is the Spec's order
    "key x = (x < 0, |x|), lexicographic, proper prefixes first" -/
theorem cmp_eq_wordCmp {a b : List Int} (ha : ∀ x ∈ a, x ≠ 0) (hb : ∀ x ∈ b, x ≠ 0) :
    SpecC10.wordCmp a b = ordInt (FW.cmp a b) :=
  wordCmp_eq_cmp ha hb

example : (∀ x ∈ [1, -2], x ≠ (0 : Int)) := by decide

/-- on words with a zero letter they differ (the Spec puts 0 first, the code between the
    positive and the negative letters); values never contain 0 -/
example : SpecC10.wordCmp [0] [1] = -1 ∧ FW.cmp [0] [1] = .gt := by decide

theorem cmp_eq_wordCmp_of_isReduced {a b : List Int} (ha : SpecC10.isReduced a = true)
    (hb : SpecC10.isReduced b = true) : SpecC10.wordCmp a b = ordInt (FW.cmp a b) :=
  wordCmp_eq_cmp (isReduced_nz ha) (isReduced_nz hb)

example : SpecC10.isReduced [1, -2] = true ∧ SpecC10.isReduced [3] = true := by decide

/-! ## 7. relator representative and relator permutations -/

/-- the list `rotInvList` is "all rotations of the word and of its inverse": on values the
    inverse of the `k`-th rotation is the `(n-k)`-th rotation of the inverse -/
theorem inverse_rotated {a : List Int} (hr : SpecC10.isReduced a = true) {k : Nat}
    (hk : k < a.length) :
    FW.inverse (FW.rotated a (k : Int))
      = FW.rotated (FW.inverse a) (((a.length - k : Nat) : Int)) :=
  FWP.inverse_rotated hr hk

example : SpecC10.isReduced [1, 2, -1] = true ∧ 1 < [1, 2, -1].length := by decide

/-- the Spec's `relatorSet` is that list -/
theorem relatorSet_eq {a : List Int} (hn : a ≠ []) : SpecC10.relatorSet a = rotInvList a :=
  FWP.relatorSet_eq hn

/-- the representative of a value is a member of the list … -/
theorem relRep_mem {a : List Int} (hr : SpecC10.isReduced a = true) (hn : a ≠ []) :
    FW.relatorRepresentative a ∈ rotInvList a :=
  FWP.relRep_mem hr hn

example : SpecC10.isReduced [2, 1] = true ∧ [2, 1] ≠ ([] : List Int) := by decide

/-- … but not in general for an unreduced letter list (the scan starts from the word as
    given, which is not one of its own normalised rotations): the hypothesis is needed.
    Values of the type are always reduced (section 2). -/
example : FW.relatorRepresentative [1, 1, -1, 2] = [1, 1, -1, 2] ∧
    [1, 1, -1, 2] ∉ rotInvList [1, 1, -1, 2] := by decide

/-- … and `cmp`-least among all members (all letter lists; vacuous for the empty word,
    whose representative is the empty word) -/
theorem relRep_least (a : List Int) :
    ∀ v ∈ rotInvList a, FW.cmp (FW.relatorRepresentative a) v ≠ .gt :=
  FWP.relRep_le a

/-- the two Spec clauses of op `relrep`, on the model's output -/
theorem relRep_spec {a : List Int} (hr : SpecC10.isReduced a = true) :
    FW.relatorRepresentative a ∈ SpecC10.relatorSet a ∧
    ∀ v ∈ SpecC10.relatorSet a, SpecC10.wordLe (FW.relatorRepresentative a) v = true :=
  ⟨relRep_mem_relatorSet hr, relRep_least_relatorSet hr⟩

example : SpecC10.isReduced [2, -1, 3] = true := by decide

/-- the permutation set is strictly `cmp`-sorted, duplicate-free, and has exactly the
    members of the list (all non-empty letter lists; `[[]]` for the empty word) -/
theorem relPerms_eq {a : List Int} (hn : a ≠ []) :
    (FW.relatorPermutations a).Pairwise (fun u v => FW.cmp u v = .lt) ∧
    (FW.relatorPermutations a).Nodup ∧
    ∀ v, v ∈ FW.relatorPermutations a ↔ v ∈ rotInvList a :=
  ⟨relPerms_sorted a, sorted_nodup (relPerms_sorted a), mem_relPerms hn⟩

example : [1, 2] ≠ ([] : List Int) := by decide

/-- the Spec clauses of op `relperms`, on the model's output (all letter lists) -/
theorem relPerms_spec (a : List Int) :
    SpecC10.isSortedStrict (FW.relatorPermutations a) = true ∧
    SpecC10.sameSet (FW.relatorPermutations a) (SpecC10.relatorSet a) = true :=
  ⟨relPerms_isSortedStrict a, relPerms_sameSet a⟩

/-! ## 8. the representative is invariant under rotation and inversion of a cyclically
       reduced word -/

theorem relRep_invariant {a : List Int} (hc : SpecC10.isCyclicallyReduced a = true) :
    (∀ i : Int, FW.relatorRepresentative (FW.rotated a i) = FW.relatorRepresentative a) ∧
    FW.relatorRepresentative (FW.inverse a) = FW.relatorRepresentative a ∧
    ∀ v ∈ rotInvList a, FW.relatorRepresentative v = FW.relatorRepresentative a :=
  have h := (isCyclicallyReduced_iff a).1 hc
  ⟨relRep_rotated_of_CR h, relRep_inverse_of_CR h, fun _ hv => relRep_eq_of_mem h hv⟩

example : SpecC10.isCyclicallyReduced [1, 2, -1, 3] = true := by decide

/-- cyclic reducedness is needed: for a reduced but not cyclically reduced word the
    rotations cancel and the representative changes -/
example : SpecC10.isReduced [1, 2, -1] = true ∧
    FW.relatorRepresentative (FW.rotated [1, 2, -1] 1) ≠ FW.relatorRepresentative [1, 2, -1] := by
  decide

end DSymVerif.C10
