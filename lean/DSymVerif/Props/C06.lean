/-
Property C06 — the D-set generator enumerates every isomorphism class exactly once.
Theorems about the model `DSymVerif/Model/DSetGen.lean` (all dimensions, all size bounds).

Proved here (for all `dim`, `maxSize`):
 * `backtrack_preorder` — the emitted sequence is the extract-filter of the depth-first
   preorder of the search tree (height function, fuel adequacy included);
 * `scan_orbit_gap1_free`, `implications_never_panic` — no assert of `PartialDSet::set`
   and no index inside `check_and_apply_implications` can fire on a well-formed partial
   D-set, and the queue loop terminates;
 * `implications_sound` — after a successful run every alternating path of three defined
   entries with far indices is closed by a fourth;
 * `emitted_complete_commuting` — every emitted set is a complete involutive D-set of the
   requested dimension, of size 1..maxSize, connected, with commuting far operations;
 * `store_guard_dead`, `counters_consecutive`.
Sections 5–9 add: the generator never panics, the emitted sets are exactly the orderly
canonical D-sets, irredundancy, existence of a canonical representative in every class,
completeness, and the whole property as one statement
(`enumerates_every_class_exactly_once`).  Nothing about the model is left unproved.
-/
import DSymVerif.Proofs.DSetGenRenum

namespace DSymVerif.C06
open DSymVerif.DS DSymVerif.DSG

/-! ### 1. backtrack_preorder for this instance -/

/-- The height `(maxSize − size)·(dim+1) + #undefined entries + 1` strictly decreases
    along `children`; the fuel `(maxSize+2)^((maxSize+1)(dim+1)+2)` covers the whole tree;
    hence the model of `BackTrackIterator` yields `extract s` for exactly the states
    reachable from the root through `children`, each once, in depth-first preorder. -/
theorem backtrack_preorder (dim maxSize : Nat) :
    BT.Decreasing (problem dim maxSize) (height maxSize) ∧
    (BT.dfs (problem dim maxSize) (height maxSize) (root dim maxSize)).length ≤ fuel dim maxSize ∧
    dsets dim maxSize =
      (BT.dfs (problem dim maxSize) (height maxSize) (root dim maxSize)).filterMap extract ∧
    ∀ n, n ∈ BT.dfs (problem dim maxSize) (height maxSize) (root dim maxSize) ↔
      BT.Reach (problem dim maxSize) (root dim maxSize) n :=
  ⟨children_decreasing dim maxSize, fuel_adequate dim maxSize, dsets_eq_dfs dim maxSize,
   fun n => BT.mem_dfs_iff (problem dim maxSize) (height maxSize)
     (children_decreasing dim maxSize) (root dim maxSize) n⟩

/-- any larger fuel gives the same sequence: the Rust iterator (no bound at all) and the
    fuelled model agree -/
theorem more_fuel_same (dim maxSize f : Nat) (hf : fuel dim maxSize ≤ f) :
    BT.run (problem dim maxSize) f = dsets dim maxSize :=
  BT.run_fuel_irrelevant (problem dim maxSize) (height maxSize) (children_decreasing dim maxSize)
    f (fuel dim maxSize) (Nat.le_trans (fuel_adequate dim maxSize) hf) (fuel_adequate dim maxSize)

example : fuel 1 1 ≤ 1000 := by decide

/-! ### 2. scan_orbit with gap 1 -/

/-! witness used in the examples: `exPath` = 1 -0- 2 -2- 3 -0- 4, everything else undefined
    (dim 2), with `exPath_valid`, `exPath_linked` (Proofs/DSetGenTotal.lean) -/

/-- On a partial D-set whose defined entries are chambers and form partial involutions
    (`ValidPartialSet`), `scan_orbit(ds, i, j, d)` with in-range arguments does not panic;
    when it reports gap = 1 the entry `(k, head)` is undefined and so is `(k, tail)`, both
    are chambers and `k ∈ {i, j}` — so the `dset.set(k, head, tail)` that follows passes
    all its asserts and index checks. -/
theorem scan_orbit_gap1_free {ds : DSetData} (hv : ValidPartialSet ds) {i j d : Nat}
    (hi : i ≤ ds.dim) (hj : j ≤ ds.dim) (h1 : 1 ≤ d) (h2 : d ≤ ds.size) :
    ∃ head tail gap k, scanOrbit ds i j d = .ok (head, tail, gap, k) ∧
      (k = i ∨ k = j) ∧ 1 ≤ head ∧ head ≤ ds.size ∧ 1 ≤ tail ∧ tail ≤ ds.size ∧
      (gap = 1 → ds.opU k head = 0 ∧ ds.opU k tail = 0 ∧
        ∃ ds', setC ds k head tail = .ok ds') :=
  scanOrbit_gap1 hv hi hj h1 h2

example : ValidPartialSet exPath ∧ scanOrbit exPath 0 2 1 = .ok (4, 1, 1, 2) :=
  ⟨exPath_valid, by decide⟩

/-- `check_and_apply_implications(ds, i, d)` on a well-formed partial D-set: no assert,
    no index out of range, the `while` loop ends within `#undefined + 1` pops (the model's
    fuel is never exhausted); on `true` the result is a well-formed extension of `ds`. -/
theorem implications_never_panic {ds : DSetData} (hv : ValidPartialSet ds) {i d : Nat}
    (hi : i ≤ ds.dim) (h1 : 1 ≤ d) (h2 : d ≤ ds.size) :
    ∃ r, checkImpl ds i d = .ok r ∧ ∀ ds', r = some ds' → ValidPartialSet ds' ∧ Ext ds ds' :=
  checkImpl_spec hv hi h1 h2

example : checkImpl exPath 0 1 =
    .ok (some { size := 4, dim := 2, op := #[2, 0, 4, 1, 0, 3, 4, 0, 2, 3, 0, 1] }) := by decide

/-! ### 3. implications_sound -/

/-- If every alternating far-index path of three defined entries of `ds` that does not run
    through the entry `(i, d)` is closed (hypothesis `ClosedExcept ds [(i, d)]`) and
    `check_and_apply_implications(ds, i, d)` returns true, then in the resulting set
    *every* such path x0 -a- x1 -b- x2 -a- x3 (|a − b| > 1) has its fourth entry defined
    and leading back: `op_b x3 = x0` — every commuting 4-cycle through defined entries
    closes, and every forced entry has been made. -/
theorem implications_sound {ds ds' : DSetData} (hv : ValidPartialSet ds) {i d : Nat}
    (hi : i ≤ ds.dim) (h1 : 1 ≤ d) (h2 : d ≤ ds.size) (hc : ClosedExcept ds [(i, d)])
    (h : checkImpl ds i d = .ok (some ds')) :
    ValidPartialSet ds' ∧ Ext ds ds' ∧
    ∀ a b x0, a ≤ ds'.dim → b ≤ ds'.dim → absDiff a b > 1 → 1 ≤ x0 → x0 ≤ ds'.size →
      ds'.opU a x0 ≠ 0 → ds'.opU b (ds'.opU a x0) ≠ 0 →
      ds'.opU a (ds'.opU b (ds'.opU a x0)) ≠ 0 →
      ds'.opU b (ds'.opU a (ds'.opU b (ds'.opU a x0))) = x0 := by
  obtain ⟨r, hr, hspec⟩ := checkImpl_spec hv hi h1 h2
  rw [h] at hr
  injection hr with hr
  obtain ⟨hv', hx⟩ := hspec ds' hr.symm
  refine ⟨hv', hx, ?_⟩
  intro a b x0 ha hb hfar l1 l2 e1 e2 e3
  have hcl := checkImpl_sound hv hi h1 h2 hc h
  apply Classical.byContradiction
  intro hn
  obtain ⟨p, hp, _⟩ := hcl a b x0 ⟨ha, hb, hfar, l1, l2, e1, e2, e3⟩ hn
  cases hp

/-- the hypothesis is what the generator has when it calls the function: all paths closed
    before the new entry was set -/
theorem implications_sound_hyp {ds ds1 : DSetData} {i d e : Nat} (hc : ClosedExcept ds [])
    (hset : setC ds i d e = .ok ds1) : ClosedExcept ds1 [(i, d)] :=
  setC_closedExcept hc hset

/-- non-vacuity: the root set (no entry defined) has no open path -/
example : ClosedExcept (rootState 2 3).dset [] := rootState_closed 2 3

/-! ### 4. the states of the tree and the emitted sets -/

/-- the representation guard at the top of the model's `children` never fires -/
theorem store_guard_dead {dim maxSize : Nat} {s : GenState}
    (hr : BT.Reach (problem dim maxSize) (root dim maxSize) (.st s)) : storeOk s.dset = true := by
  simp only [storeOk, beq_iff_eq]
  exact (reachable_inv hr).valid.size_eq

/-- **Every emitted set** is complete (no undefined entry, every entry a chamber 1..size),
    every operation is an involution, the dimension is the requested one, the size is in
    1..maxSize, every chamber is reached from chamber 1, and operations whose indices
    differ by more than one commute. -/
theorem emitted_complete_commuting {dim maxSize : Nat} {ds : DSetData}
    (h : Outcome.ok ds ∈ dsets dim maxSize) :
    ValidSet ds ∧ FarCommute ds ∧ Connected ds ∧ ds.dim = dim ∧ 1 ≤ ds.size ∧ ds.size ≤ maxSize := by
  obtain ⟨t, hreach, hnone, rfl⟩ := mem_dsets h
  have hinv := reachable_inv hreach
  have hcl := reachable_closed hreach
  have hvs : ValidSet t.dset := by
    refine ⟨hinv.valid.size_eq, ?_, ?_⟩
    · intro i d hi h1 h2
      have := hinv.next_none hnone i d (by rw [← hinv.dim_eq]; exact hi) h1 h2
      exact ⟨Nat.pos_of_ne_zero this, hinv.valid.range i d hi h1 h2⟩
    · intro i d hi h1 h2
      exact hinv.valid.invol i d hi h1 h2
        (hinv.next_none hnone i d (by rw [← hinv.dim_eq]; exact hi) h1 h2)
  refine ⟨hvs, farCommute_of_closed hvs hcl, connected_of_linked hinv.valid hinv.linked,
    hinv.dim_eq, hinv.size_pos, ?_⟩
  rcases hinv.size_le with h | ⟨_, h⟩
  · exact h
  · exact absurd hnone h

example : Outcome.ok ⟨1, 1, #[1, 1]⟩ ∈ dsets 1 1 := by decide

/-- `DSets::next` numbers the sets 1, 2, 3, … in the order the iterator yields them -/
theorem counters_consecutive {dim maxSize : Nat} {l : List (DSetData × Nat)}
    (h : dsetsNumbered dim maxSize = some l) :
    dsets dim maxSize = l.map (fun x => Outcome.ok x.1) ∧
    l.map (·.2) = List.range' 1 l.length :=
  numbered_spec _ 0 l h

example : (dsetsNumbered 1 2).map (·.map (·.2)) = some [1, 2, 3, 4] := by decide

/-! ### 5. no panic -/

/-- `check_canonicity` on a well-formed partial D-set in which every chamber but the first
    has a defined entry to a smaller chamber, of size ≤ max_size: every index is in range
    and `new2old[d]` is a chamber (never 0) whenever `op_unchecked(i, new2old[d])` is
    evaluated — the breadth-first numbering has reached d before row d is compared. -/
theorem check_canonicity_never_panics {ds : DSetData} {maxSize : Nat} (hv : ValidPartialSet ds)
    (hl : Linked ds) (hsz : ds.size ≤ maxSize) {irs : Array Bool} (hirs : irs.size = maxSize + 1) :
    ∃ r, checkCanonicity ds maxSize irs = .ok r :=
  checkCanonicity_total hv hl hsz hirs

example : ValidPartialSet exPath ∧ Linked exPath ∧ exPath.size ≤ 4 ∧
    checkCanonicity exPath 4 #[false, true, true, true, true] =
      .ok (some #[false, true, true, true, true]) :=
  ⟨exPath_valid, exPath_linked, by decide, by decide⟩

/-- **The generator never panics** for `dim ≥ 1` (for `dim = 0` `PartialDSet::new` asserts
    and `DSets::new` panics at construction, in model and implementation alike): no assert
    of `set`, no `Vec` index out of range, no `usize` underflow in `idx`, no exhausted
    fuel, in any state of the search tree, for every size bound. -/
theorem generator_never_panics {dim maxSize : Nat} (hdim : 1 ≤ dim) :
    Outcome.panic ∉ dsets dim maxSize ∧ ∃ l, dsetsNumbered dim maxSize = some l := by
  have hnp := dsets_no_panic (maxSize := maxSize) hdim
  have herr := dsets_no_err dim maxSize
  refine ⟨hnp, ?_⟩
  unfold dsetsNumbered
  generalize dsets dim maxSize = l at hnp herr
  suffices h : ∀ c, ∃ r, numbered l c = some r from h 0
  induction l with
  | nil => intro c; exact ⟨[], rfl⟩
  | cons a l ih =>
    intro c
    have hl : Outcome.panic ∉ l := fun h => hnp (List.mem_cons_of_mem _ h)
    have hl' : Outcome.err ∉ l := fun h => herr (List.mem_cons_of_mem _ h)
    cases a with
    | ok ds =>
      obtain ⟨r, hr⟩ := ih hl hl' (c + 1)
      exact ⟨(ds, c + 1) :: r, by simp [numbered, hr]⟩
    | err => exact absurd List.mem_cons_self (fun h => herr h)
    | panic => exact absurd List.mem_cons_self hnp

example : dsetsNumbered 0 3 = none := by decide

/-! ### 6. the orderly generation: which sets are emitted -/

/-- `check_and_apply_implications` never rejects a partial D-set that is part of a complete
    D-set `T` with commuting far operations, and the set it leaves is still part of `T`:
    every entry it makes is forced. -/
theorem implications_complete {ds T : DSetData} (hv : ValidPartialSet ds) (hT : ValidSet T)
    (hf : FarCommute T) (hp : PartOf ds T) {i d : Nat} (hi : i ≤ ds.dim) (h1 : 1 ≤ d)
    (h2 : d ≤ ds.size) :
    ∃ ds', checkImpl ds i d = .ok (some ds') ∧ PartOf ds' T ∧ ValidPartialSet ds' ∧ Ext ds ds' :=
  checkImpl_complete hv hT hf hp hi h1 h2

/-- a non-zero verdict of `compare_renumbered_from` on a part of `T` is its verdict on `T`:
    what has been decided on a prefix stays decided (this is why pruning on partial sets
    and the `is_remap_start` cache are safe) -/
theorem compare_monotone {ds T : DSetData} (hv : ValidPartialSet ds) (hT : ValidPartialSet T)
    (hp : PartOf ds T) {d0 maxSize : Nat} {v : Int}
    (h : compareRenumberedFrom ds d0 maxSize = .ok v) (hv0 : v ≠ 0) :
    compareRenumberedFrom T d0 maxSize = .ok v :=
  compare_mono hv hT hp h hv0

/-- **Exactly the orderly canonical D-sets are emitted.**  `Orderly T`: the chambers are
    numbered in the order of their first occurrence in the row-major operation table;
    `Canonical T max`: `compare_renumbered_from(T, d0) ≥ 0` for every start chamber
    d0 ≥ 2, i.e. no breadth-first renumbering of `T` is smaller than `T`.  A D-set is
    emitted by `DSets::new(dim, max)` iff it is a complete involutive connected D-set of
    dimension `dim` and size 1..max with commuting far operations that is orderly and
    canonical: the pruning in `check_canonicity` (on partial sets, with the
    `is_remap_start` cache) never cuts such a set and lets no other set through. -/
theorem emitted_iff_orderly_canonical {dim maxSize : Nat} (hdim : 1 ≤ dim) (T : DSetData) :
    Outcome.ok T ∈ dsets dim maxSize ↔
      (ValidSet T ∧ FarCommute T ∧ Connected T ∧ T.dim = dim ∧ 1 ≤ T.size ∧ T.size ≤ maxSize ∧
        Orderly T ∧ Canonical T maxSize) := by
  constructor
  · intro h
    obtain ⟨h1, h2, h3, h4, h5, h6⟩ := emitted_complete_commuting h
    obtain ⟨h7, h8⟩ := emitted_orderly_canonical h
    exact ⟨h1, h2, h3, h4, h5, h6, h7, h8⟩
  · rintro ⟨h1, h2, h3, h4, h5, h6, h7, h8⟩
    exact canonical_emitted hdim h1 h2 h3 h4 h5 h6 h7 h8

example : Outcome.ok ⟨2, 1, #[2, 1, 1, 2]⟩ ∈ dsets 1 2 := by decide

/-! ### 7. irredundancy -/

/-- Under an isomorphism A → B (A orderly), `compare_renumbered_from(B, image of chamber 1)`
    renumbers B into A and returns the first difference A − B in row-major order: the
    generator's comparison is the lexicographic comparison of a D-set with its
    breadth-first renumberings. -/
theorem compare_is_lexicographic {A B : DSetData} {f g : Nat → Nat} {maxSize : Nat}
    (hA : ValidSet A) (hB : ValidSet B) (hO : Orderly A) (hL : Linked A) (hiso : IsoBy A B f g)
    (hsz : A.size ≤ maxSize) (h1 : 1 ≤ A.size) :
    compareRenumberedFrom B (f 1) maxSize = .ok (firstDiff A B (loopPairs B.size B.dim)) :=
  compare_iso hA hB hO hL hiso hsz h1

/-- two isomorphic orderly canonical D-sets are equal -/
theorem canonical_unique {A B : DSetData} {f g : Nat → Nat} {maxSize : Nat}
    (hA : ValidSet A) (hB : ValidSet B) (hOA : Orderly A) (hOB : Orderly B)
    (hLA : Linked A) (hLB : Linked B) (hCA : Canonical A maxSize) (hCB : Canonical B maxSize)
    (hsz : A.size ≤ maxSize) (h1 : 1 ≤ A.size) (hiso : IsoBy A B f g) : A = B :=
  iso_canonical_eq hA hB hOA hOB hLA hLB hCA hCB hsz h1 hiso

/-- **Irredundancy**: no value is emitted twice and no two emitted D-sets are isomorphic
    (`Iso` = a pair of mutually inverse chamber maps carrying every operation to the
    operation with the same index). -/
theorem generation_irredundant (dim maxSize : Nat) :
    (dsets dim maxSize).Pairwise (· ≠ ·) ∧
    (dsets dim maxSize).Pairwise
      (fun a b => ∀ s t, a = Outcome.ok s → b = Outcome.ok t → ¬ Iso s t) :=
  ⟨dsets_nodup dim maxSize, dsets_irredundant dim maxSize⟩

example : IsoBy ⟨2, 1, #[2, 1, 1, 2]⟩ ⟨2, 1, #[2, 1, 1, 2]⟩ id id := IsoBy.refl _

/-! ### 8. completeness -/

/-- Every isomorphism class of connected complete D-sets with commuting far operations
    contains an orderly canonical member (the lexicographically least breadth-first
    renumbering; `renum X c` is constructed explicitly in `Proofs/DSetGenRenum.lean`). -/
theorem canonical_representative {X : DSetData} {maxSize : Nat} (hv : ValidSet X)
    (hf : FarCommute X) (hc : Connected X) (h1 : 1 ≤ X.size) (hsz : X.size ≤ maxSize) :
    ∃ T, Iso X T ∧ ValidSet T ∧ FarCommute T ∧ Connected T ∧ Orderly T ∧ Canonical T maxSize := by
  obtain ⟨T, f, g, hiso, a, b, c, d, e⟩ := exists_canonical hv hf hc h1 hsz
  exact ⟨T, ⟨f, g, hiso⟩, a, b, c, d, e⟩

/-- **Completeness**: every connected complete D-set of dimension `dim ≥ 1` and size
    1..maxSize in which operations with index distance > 1 commute is isomorphic to an
    emitted one. -/
theorem generation_complete {dim maxSize : Nat} (hdim : 1 ≤ dim) {X : DSetData}
    (hv : ValidSet X) (hf : FarCommute X) (hc : Connected X) (hd : X.dim = dim)
    (h1 : 1 ≤ X.size) (hsz : X.size ≤ maxSize) :
    ∃ T, Outcome.ok T ∈ dsets dim maxSize ∧ Iso X T := by
  obtain ⟨T, f, g, hiso, a, b, c, d, e⟩ := exists_canonical hv hf hc h1 hsz
  refine ⟨T, ?_, ⟨f, g, hiso⟩⟩
  exact canonical_emitted hdim a b c (by rw [← hiso.dim_eq]; exact hd)
    (by rw [← hiso.size_eq]; exact h1) (by rw [← hiso.size_eq]; exact hsz) d e

example : ValidSet (⟨2, 1, #[2, 1, 1, 2]⟩ : DSetData) := by
  refine ⟨by decide, ?_, ?_⟩ <;>
  · intro i d hi h1 h2
    have hi' : i ≤ 1 := hi
    have h2' : d ≤ 2 := h2
    have : (i = 0 ∨ i = 1) ∧ (d = 1 ∨ d = 2) := by omega
    rcases this with ⟨rfl | rfl, rfl | rfl⟩ <;> decide

/-! ### 9. the property -/

/-- **C06 for the model, all dimensions ≥ 1 and all size bounds**: the emitted values are
    connected complete D-sets of the requested dimension and size 1..maxSize whose far
    operations commute, they are numbered 1, 2, 3, … in emission order, no two of them are
    isomorphic (in particular none is emitted twice), every connected complete D-set with
    the commutation property and size ≤ maxSize is isomorphic to one of them, and nothing
    panics. -/
theorem enumerates_every_class_exactly_once {dim maxSize : Nat} (hdim : 1 ≤ dim) :
    (∀ T, Outcome.ok T ∈ dsets dim maxSize →
      ValidSet T ∧ FarCommute T ∧ Connected T ∧ T.dim = dim ∧ 1 ≤ T.size ∧ T.size ≤ maxSize) ∧
    (∃ l, dsetsNumbered dim maxSize = some l ∧
      dsets dim maxSize = l.map (fun x => Outcome.ok x.1) ∧
      l.map (·.2) = List.range' 1 l.length) ∧
    (dsets dim maxSize).Pairwise
      (fun a b => a ≠ b ∧ ∀ s t, a = Outcome.ok s → b = Outcome.ok t → ¬ Iso s t) ∧
    (∀ X, ValidSet X → FarCommute X → Connected X → X.dim = dim → 1 ≤ X.size →
      X.size ≤ maxSize → ∃ T, Outcome.ok T ∈ dsets dim maxSize ∧ Iso X T) := by
  refine ⟨fun T h => emitted_complete_commuting h, ?_, ?_, ?_⟩
  · obtain ⟨_, l, hl⟩ := generator_never_panics (maxSize := maxSize) hdim
    obtain ⟨h1, h2⟩ := counters_consecutive hl
    exact ⟨l, hl, h1, h2⟩
  · obtain ⟨h1, h2⟩ := generation_irredundant dim maxSize
    exact h1.and h2
  · intro X hv hf hc hd h1 hsz
    exact generation_complete hdim hv hf hc hd h1 hsz

end DSymVerif.C06
