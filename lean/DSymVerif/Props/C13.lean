/-
Property C13 — stabiliser presentation, core and intersection tables.  Property theorems only.

What is proved here (for all tables, all words):
* the algebra of both table constructions: in a table whose rows are labelled by pairs
  (arrangements) of rows and whose entries are the componentwise images, tracing acts
  componentwise (`product_trace_rows`, `product_trace`, `tuple_trace`);
* the decidable certificates `SpecC13.intersectionCertificate` / `coreCertificate`, which the
  driver evaluates on the implementation's own output on every case, imply the property's
  word statements for *every* word and identify the rows with the orbit
  (`intersection_certificate_sound`, `core_certificate_sound`, `intersection_rows_are_orbit`,
  `core_rows_are_orbit`);
* the models of `intersection_table` and `core_table` (loops, hash-map caches, `join`,
  `compact()`) return, for all complete inverse-consistent inputs, exactly such a labelled
  table of the orbit (`intersection_spec`, `core_spec`);
* the model of `stabilizer` returns generators that fix the base row
  (`stabilizer_gens_fix_base`).
* the returned generators generate the **full** stabiliser of the base row in
  `⟨1..n | rels⟩` acting on the table (`stabilizer_generates`, Schreier's lemma), and the
  returned relators hold, so the returned presentation maps onto the stabiliser
  (`stabilizer_relators_hold`);
* totality: the three models return a result on every valid input — no modelled panic, no
  exhausted fuel (`stabilizer_total`, `intersection_total`, `core_total`).
* the map from the returned presentation onto the stabiliser is injective
  (`stabilizer_presentation_iso`): the presented group **is isomorphic** to the stabiliser.
Everything the property states is thereby proved for the models; the tie to the Rust code is
the differential comparison of every run.
-/
import DSymVerif.Model.Stabilizer
import DSymVerif.Proofs.StabilizerProduct
import DSymVerif.Proofs.StabilizerGens
import DSymVerif.Proofs.StabilizerCore
import DSymVerif.Proofs.StabilizerWords
import DSymVerif.Proofs.StabilizerTotal
import DSymVerif.Proofs.StabilizerPresentation
import DSymVerif.Proofs.StabilizerTerminates
import DSymVerif.Proofs.StabilizerInjective
import DSymVerif.Proofs.StabilizerLetters

namespace DSymVerif.C13
open DSymVerif DSymVerif.SpecC11 DSymVerif.SpecC13 DSymVerif.StabP DSymVerif.CosetP DSymVerif.Cosets

/-- ✔ `product_trace` (general form).  In a table `x` whose rows are labelled by pairs of rows
    of `ta` and `tb` such that every entry is the componentwise image (`labelledBy` with
    `pairAct`), tracing a word acts componentwise: if `w` leads from row `i` (label `(a, b)`)
    to row `j`, then `j` is labelled `(a·w, b·w)`. -/
theorem product_trace_rows (ta tb x : Tab) (n : Nat) (lab : List (Nat × Nat))
    (h : labelledBy (pairAct ta tb n) (0, 0) x n lab = true) (w : List Int) (i j a b : Nat)
    (hi : lab[i]? = some (a, b)) (ht : traceWord x n i w = some j) :
    ∃ a' b', lab[j]? = some (a', b') ∧ traceWord ta n a w = some a' ∧ traceWord tb n b w = some b' := by
  obtain ⟨hlen, _, hf, _⟩ := labelledBy_spec h
  obtain ⟨⟨a', b'⟩, hj, hit⟩ := iterAct_of_trace hf hlen w i j (a, b) hi ht
  exact ⟨a', b', hj, (iterAct_pair ta tb n w a b a' b').mp hit⟩

/-- ✔ `product_trace`.  Hence, for **every** word (no hypothesis on its letters): it fixes the
    row labelled `(0, 0)` iff it fixes row 0 of both factors. -/
theorem product_trace (ta tb x : Tab) (n : Nat) (lab : List (Nat × Nat))
    (h : labelledBy (pairAct ta tb n) (0, 0) x n lab = true) (w : List Int) :
    traceWord x n 0 w = some 0 ↔ traceWord ta n 0 w = some 0 ∧ traceWord tb n 0 w = some 0 := by
  by_cases hw : ∀ g ∈ w, g ∈ letters n
  · rw [labelled_fix h w hw, iterAct_pair]
  · constructor
    · intro ht; exact absurd (trace_letters ht) hw
    · intro ht; exact absurd (trace_letters ht.1) hw

/-- ✔ `product_trace`, tuple version for the core: rows labelled by arrangements of all rows of
    `t`, entries the componentwise images; a word fixes the row labelled by the identity
    arrangement iff it fixes every row of `t`. -/
theorem tuple_trace (t x : Tab) (n : Nat) (lab : List (List Nat)) (hpos : 0 < t.size)
    (h : labelledBy (tupleAct t n) (List.range t.size) x n lab = true) (w : List Int) :
    traceWord x n 0 w = some 0 ↔ ∀ c, c < t.size → traceWord t n c w = some c := by
  by_cases hw : ∀ g ∈ w, g ∈ letters n
  · rw [labelled_fix h w hw, iterAct_tuple_range]
  · constructor
    · intro ht; exact absurd (trace_letters ht) hw
    · intro ht; exact absurd (trace_letters (ht 0 hpos)) hw

/-- ✔ The Spec clause `intersectionCertificate` (evaluated on the implementation's table on every
    case) implies the intersection statement of the property for **all** words: a word fixes
    row 0 of the result iff it fixes row 0 of both inputs. -/
theorem intersection_certificate_sound (ta tb x : Tab) (n : Nat)
    (h : intersectionCertificate ta tb x n = true) (w : List Int) :
    fixesRow x n 0 w = (fixesRow ta n 0 w && fixesRow tb n 0 w) := by
  obtain ⟨lab, _, hl⟩ := labelledTable_spec h
  have := product_trace ta tb x n lab hl w
  rw [Bool.eq_iff_iff]
  simpa [fixesRow] using this

/-- ✔ The Spec clause `coreCertificate` implies the core statement of the property for **all**
    words: a word fixes row 0 of the core iff it fixes every row of the input. -/
theorem core_certificate_sound (t core : Tab) (n : Nat)
    (h : coreCertificate t core n = true) (w : List Int) :
    fixesRow core n 0 w = fixesAll t n w := by
  unfold coreCertificate at h
  simp only [Bool.and_eq_true, decide_eq_true_eq] at h
  obtain ⟨lab, _, hl⟩ := labelledTable_spec h.2
  have := tuple_trace t core n lab h.1 hl w
  rw [Bool.eq_iff_iff, fixesAll_iff]
  simpa [fixesRow] using this

/-- ✔ `intersection_spec`, certificate form: a table passing `intersectionCertificate` has its
    rows in bijection (`lab`, duplicate-free, one label per row, row 0 ↦ `(0, 0)`) with the
    orbit of `(0, 0)` under the product action — a pair is a label iff some word carries
    `(0, 0)` to it — and its entries are the componentwise images. -/
theorem intersection_rows_are_orbit (ta tb x : Tab) (n : Nat)
    (h : intersectionCertificate ta tb x n = true) :
    ∃ lab : List (Nat × Nat), lab.length = x.size ∧ lab.Nodup ∧ lab[0]? = some (0, 0) ∧
      (∀ a b, (a, b) ∈ lab ↔ ∃ w, traceWord ta n 0 w = some a ∧ traceWord tb n 0 w = some b) ∧
      (∀ i g j a b, lab[i]? = some (a, b) → entry x n i g = some j →
        ∃ a' b', entry ta n a g = some a' ∧ entry tb n b g = some b' ∧ lab[j]? = some (a', b')) := by
  obtain ⟨lab, hr, hl⟩ := labelledTable_spec h
  obtain ⟨hlen, h0, hf, hd⟩ := labelledBy_spec hl
  refine ⟨lab, hlen, distinct_nodup hd, h0, ?_, ?_⟩
  · intro a b
    constructor
    · intro hm
      obtain ⟨w, hw⟩ := rowLabels_reached hr hm
      exact ⟨w, (iterAct_pair ta tb n w 0 0 a b).mp hw⟩
    · rintro ⟨w, hw⟩
      obtain ⟨j, _, hj⟩ := trace_of_iterAct hf hlen w (trace_letters hw.1) 0 (0, 0) (a, b) h0
        ((iterAct_pair ta tb n w 0 0 a b).mpr hw)
      exact List.mem_of_getElem? hj
  · intro i g j a b hi he
    obtain ⟨j', ⟨a', b'⟩, he', hact, hj⟩ := entriesFollow_spec hf hlen hi (entry_some he).2.2
    rw [he] at he'
    injection he' with he'
    subst he'
    refine ⟨a', b', ?_, ?_, hj⟩
    · simp only [pairAct] at hact
      cases h1 : entry ta n a g with
      | none => simp [h1] at hact
      | some a1 =>
        cases h2 : entry tb n b g with
        | none => simp [h1, h2] at hact
        | some b1 => simp only [h1, h2, Option.some.injEq, Prod.mk.injEq] at hact; rw [hact.1]
    · simp only [pairAct] at hact
      cases h1 : entry ta n a g with
      | none => simp [h1] at hact
      | some a1 =>
        cases h2 : entry tb n b g with
        | none => simp [h1, h2] at hact
        | some b1 => simp only [h1, h2, Option.some.injEq, Prod.mk.injEq] at hact; rw [hact.2]

/-- ✔ `core_spec`, certificate form: the rows of a table passing `coreCertificate` are in
    bijection with the arrangements `w ↦ (0·w, 1·w, …)` of the rows of the input that words
    induce, i.e. with the elements of the permutation group generated by the action; row 0
    is the identity arrangement. -/
theorem core_rows_are_orbit (t core : Tab) (n : Nat) (h : coreCertificate t core n = true) :
    ∃ lab : List (List Nat), lab.length = core.size ∧ lab.Nodup ∧ lab[0]? = some (List.range t.size) ∧
      (∀ es, es ∈ lab ↔ ∃ w, arrangement t n w = some es) := by
  unfold coreCertificate at h
  simp only [Bool.and_eq_true, decide_eq_true_eq] at h
  obtain ⟨lab, hr, hl⟩ := labelledTable_spec h.2
  obtain ⟨hlen, h0, hf, hd⟩ := labelledBy_spec hl
  refine ⟨lab, hlen, distinct_nodup hd, h0, ?_⟩
  intro es
  unfold arrangement
  constructor
  · intro hm
    obtain ⟨w, hw⟩ := rowLabels_reached hr hm
    exact ⟨w, by rw [← iterAct_tuple]; exact hw⟩
  · rintro ⟨w, hw⟩
    have h00 := (mapOpt_some hw).2 0 (by simpa using h.1)
    have hw0 : ∃ d, traceWord t n 0 w = some d := by
      cases hd0 : es[0]? with
      | none =>
        have hl1 := (mapOpt_some hw).1
        have hlt : 0 < es.length := by rw [hl1, List.length_range]; exact h.1
        rw [List.getElem?_eq_none_iff] at hd0
        omega
      | some d => exact ⟨d, by simpa [hd0, h.1] using h00⟩
    obtain ⟨d, hd0⟩ := hw0
    rw [← iterAct_tuple] at hw
    obtain ⟨j, _, hj⟩ := trace_of_iterAct hf hlen w (trace_letters hd0) 0 _ es h0 hw
    exact List.mem_of_getElem? hj

/-! non-vacuity: `S3 = ⟨a, b | a², b², (ab)³⟩` acting on the cosets of `⟨b⟩` (3 rows) and on the
    cosets of `A3` (2 rows); the intersection and the core are the regular action (6 rows) -/

def s3Table : Tab := #[#[1, 0, 1, 0], #[0, 2, 0, 2], #[2, 1, 2, 1]]
def signTable : Tab := #[#[1, 1, 1, 1], #[0, 0, 0, 0]]
def s3Regular : Tab := #[#[1, 2, 1, 2], #[0, 3, 0, 3], #[4, 0, 4, 0], #[5, 1, 5, 1], #[2, 5, 2, 5], #[3, 4, 3, 4]]

example : labelledBy (pairAct s3Table signTable 2) (0, 0) s3Regular 2
    [(0, 0), (1, 1), (0, 1), (2, 0), (1, 0), (2, 1)] = true := by decide +kernel
example : intersectionCertificate s3Table signTable s3Regular 2 = true := by decide +kernel
example : coreCertificate s3Table s3Regular 2 = true := by decide +kernel
/-- the models produce exactly this table -/
example : (match Stab.intersectionTable (Table.ofView 2 s3Table) (Table.ofView 2 signTable) with
    | .ok t => t.view | _ => .err) = .ok (s3Regular.toList.map Array.toList) := by decide +kernel
example : (match Stab.coreTable (Table.ofView 2 s3Table) with
    | .ok t => t.view | _ => .err) = .ok (s3Regular.toList.map Array.toList) := by decide +kernel
/-- a table that is not the orbit of the base pair fails the certificate (the input itself) -/
example : intersectionCertificate s3Table signTable s3Table 2 = false := by decide +kernel
example : coreCertificate s3Table s3Table 2 = false := by decide +kernel

/-- ✔ `intersection_spec` (model level, all inputs).  Whenever the model of `intersection_table`
    returns a table `T` for two complete, inverse-consistent tables, the rows of `T` are
    numbered by a duplicate-free list `lab` of pairs that is **exactly the orbit of `(0, 0)`** in
    the product action (a pair is listed iff some word carries row 0 of `ta` and row 0 of `tb`
    to its components), row 0 is `(0, 0)`, and every entry `T[i][g]` is the number of the
    componentwise image of the label of `i`.  (That the numbers are handed out in discovery
    order is not part of the statement; the raw tables are compared with the implementation
    on every run.) -/
theorem intersection_spec (ta tb : Tab) (n : Nat)
    (hca : complete ta n = true) (hcb : complete tb n = true)
    (hia : inverseConsistent ta n = true) (hib : inverseConsistent tb n = true) (T : Table)
    (h : Stab.intersectionTable (Table.ofView n ta) (Table.ofView n tb) = .ok T) :
    ∃ lab : List (Nat × Nat),
      T.len = lab.length ∧ lab.Nodup ∧ lab[0]? = some (0, 0) ∧
      (∀ a b, (a, b) ∈ lab ↔ ∃ w, traceWord ta n 0 w = some a ∧ traceWord tb n 0 w = some b) ∧
      (∀ i g a b, lab[i]? = some (a, b) → g ∈ letters n →
        ∃ a' b' j, entry ta n a g = some a' ∧ entry tb n b g = some b' ∧
          T.get i g = .ok (some j) ∧ lab[j]? = some (a', b')) := by
  obtain ⟨lab, _, _, hsz, h0, hnd, hreach, hent⟩ :=
    intersectionTable_spec hca hcb (inverseConsistent_spec hia) (inverseConsistent_spec hib) h
  refine ⟨lab, hsz, hnd, h0, ?_, ?_⟩
  · intro a b
    constructor
    · intro hm
      obtain ⟨_, w, _, hw⟩ := hreach (a, b) hm
      exact ⟨w, (iterAct_pair ta tb n w 0 0 a b).mp hw⟩
    · rintro ⟨w, hw⟩
      refine closed_of_entries (act := pairAct ta tb n) (n := n) ?_ w (trace_letters hw.1) (0, 0) (a, b)
        (List.mem_of_getElem? h0) ((iterAct_pair ta tb n w 0 0 a b).mpr hw)
      intro i g x hi hg
      obtain ⟨y, j, hy, _, hj⟩ := hent i g x hi hg
      exact ⟨y, hy, List.mem_of_getElem? hj⟩
  · intro i g a b hi hg
    obtain ⟨⟨a', b'⟩, j, hy, hget, hj⟩ := hent i g (a, b) hi hg
    simp only [pairAct] at hy
    cases h1 : entry ta n a g with
    | none => simp [h1] at hy
    | some a1 =>
      cases h2 : entry tb n b g with
      | none => simp [h1, h2] at hy
      | some b1 =>
        simp only [h1, h2, Option.some.injEq, Prod.mk.injEq] at hy
        exact ⟨a', b', j, by rw [hy.1], by rw [hy.2], hget, hj⟩

/-- ✔ `core_spec` (model level, all inputs).  Whenever the model of `core_table` returns a table
    `T` for a complete, inverse-consistent table `t`, the rows of `T` are numbered by a
    duplicate-free list `lab` of arrangements that is **exactly the set of arrangements
    `(0·w, 1·w, …)` words induce** on the rows of `t` — the elements of the permutation group
    generated by the action — row 0 is the identity arrangement, and every entry is the number
    of the componentwise image. -/
theorem core_spec (t : Tab) (n : Nat) (hc : complete t n = true) (hi : inverseConsistent t n = true)
    (T : Table) (h : Stab.coreTable (Table.ofView n t) = .ok T) :
    ∃ lab : List (List Nat),
      T.len = lab.length ∧ lab.Nodup ∧ lab[0]? = some (List.range t.size) ∧
      (∀ es, es ∈ lab ↔ ∃ w, arrangement t n w = some es) ∧
      (∀ i g es, lab[i]? = some es → g ∈ letters n →
        ∃ es' j, tupleAct t n es g = some es' ∧ T.get i g = .ok (some j) ∧ lab[j]? = some es') := by
  obtain ⟨lab, _, _, hsz, h0, hnd, hreach, hent⟩ := coreTable_spec hc (inverseConsistent_spec hi) h
  refine ⟨lab, hsz, hnd, h0, ?_, hent⟩
  intro es
  unfold arrangement
  constructor
  · intro hm
    obtain ⟨_, w, _, hw⟩ := hreach es hm
    exact ⟨w, by rw [← iterAct_tuple]; exact hw⟩
  · rintro ⟨w, hw⟩
    by_cases hpos : 0 < t.size
    · have h00 := (mapOpt_some hw).2 0 (by simpa using hpos)
      have hlen := (mapOpt_some hw).1
      have hlt : 0 < es.length := by rw [hlen, List.length_range]; exact hpos
      have hd0 : traceWord t n 0 w = some es[0] := by
        simpa [hpos, hlt] using h00
      rw [← iterAct_tuple] at hw
      refine closed_of_entries (act := tupleAct t n) (n := n) ?_ w (trace_letters hd0) _ es
        (List.mem_of_getElem? h0) hw
      intro i g x hi' hg
      obtain ⟨y, j, hy, _, hj⟩ := hent i g x hi' hg
      exact ⟨y, hy, List.mem_of_getElem? hj⟩
    · have hz : t.size = 0 := by omega
      rw [hz] at hw h0
      simp only [List.range_zero, mapOpt, Option.some.injEq] at hw h0
      rw [← hw]
      exact List.mem_of_getElem? h0

/-- ✔ `intersection_model_words`: in the table `T` the model of `intersection_table` returns, a
    word over the letters fixes row 0 iff it fixes row 0 of both inputs — the intersection
    sentence of the property, for the model, for all inputs and all words. -/
theorem intersection_model_words (ta tb : Tab) (n : Nat)
    (hca : complete ta n = true) (hcb : complete tb n = true)
    (hia : inverseConsistent ta n = true) (hib : inverseConsistent tb n = true) (T : Table)
    (h : Stab.intersectionTable (Table.ofView n ta) (Table.ofView n tb) = .ok T)
    (w : List Int) (hw : ∀ g ∈ w, g ∈ letters n) :
    traceT T 0 w = some 0 ↔ traceWord ta n 0 w = some 0 ∧ traceWord tb n 0 w = some 0 := by
  obtain ⟨lab, _, _, _, h0, hnd, _, hent⟩ :=
    intersectionTable_spec hca hcb (inverseConsistent_spec hia) (inverseConsistent_spec hib) h
  rw [labelled_traceT_fix hnd h0 hent w hw, iterAct_pair]

/-- ✔ `core_model_words`: in the table `T` the model of `core_table` returns, a word over the
    letters fixes row 0 iff it fixes every row of the input — the core sentence of the property,
    for the model, for all inputs and all words (`core_spec` adds that the rows of `T` are the
    elements of the permutation group generated by the action). -/
theorem core_model_words (t : Tab) (n : Nat) (hc : complete t n = true) (hi : inverseConsistent t n = true)
    (T : Table) (h : Stab.coreTable (Table.ofView n t) = .ok T)
    (w : List Int) (hw : ∀ g ∈ w, g ∈ letters n) :
    traceT T 0 w = some 0 ↔ ∀ c, c < t.size → traceWord t n c w = some c := by
  obtain ⟨lab, _, _, _, h0, hnd, _, hent⟩ := coreTable_spec hc (inverseConsistent_spec hi) h
  rw [labelled_traceT_fix hnd h0 hent w hw, iterAct_tuple_range]

/-- ✔ `stabilizer_gens_fix_base`.  On a complete, inverse-consistent table every generator the
    model of `stabilizer` returns (Schreier form `w_x · g · w_y⁻¹` with `x·g = y`, freely
    reduced), traced from the base row, returns to it — for every base row, every relator
    list and whatever `close_relations_in_place` deduced. -/
theorem stabilizer_gens_fix_base (t : Tab) (n : Nat) (hcomp : complete t n = true)
    (hinv : inverseConsistent t n = true) (base : Nat) (rels gens srels : List (List Int))
    (h : Stab.stabilizer base rels (Table.ofView n t) = .ok (gens, srels)) :
    ∀ w ∈ gens, traceWord t n base w = some base :=
  stabilizer_gens_fix hcomp (inverseConsistent_spec hinv) h

/-- ✔ `stabilizer_generates`.  For a table passing the Spec of C11 (`validTable`: complete,
    inverse-consistent, every relator closes at every row, transitive), the presented group
    `G = ⟨1..n | rels⟩` acts on the rows (`actionHom`, C11).  Whenever the model of `stabilizer`
    returns `(gens, srels)` for a base row, the subgroup of `G` generated by the returned generator
    words is **exactly the stabiliser of the base row** (Schreier's lemma: tree edges give the
    identity, every other edge word — a returned generator or a word deduced by
    `close_relations_in_place` from a relator cycle with one unknown edge — spells the Schreier
    element `u_x · g · u_{x·g}⁻¹` of its edge, and every edge ends up with a word). -/
theorem stabilizer_generates (t : Tab) (n : Nat) (rels : List (List Int))
    (hvalid : validTable t n rels [] = true) (base : Nat) (hb : base < t.size)
    (gens srels : List (List Int))
    (h : Stab.stabilizer base rels (Table.ofView n t) = .ok (gens, srels)) :
    Subgroup.closure {x : PresentedGroup (relSet n rels) |
        ∃ w ∈ gens, x = PresentedGroup.mk (relSet n rels) (wordElt n w)} =
      (MulAction.stabilizer (Equiv.Perm (Fin t.size)) (⟨base, hb⟩ : Fin t.size)).comap
        (actionHom (valid_of_validTable hvalid)) :=
  genSubgroup_eq_stabOf (complete_of_validTable hvalid) (valid_of_validTable hvalid) hb h

/-- ✔ `stabilizer_relators_hold`.  Sending the `i`-th new generator to the `i`-th returned
    generator word respects every returned relator (each is a rewritten relator cycle, trivial in
    `G`), so it defines a homomorphism from the presented group `⟨gens | srels⟩` to `G`, and its
    image is the full stabiliser of the base row: the returned presentation maps **onto** the
    stabiliser.  (That this map is injective — the Reidemeister–Schreier theorem for the code's
    relator-driven elimination — is not proved; it is decided per input by the Spec.) -/
theorem stabilizer_relators_hold (t : Tab) (n : Nat) (rels : List (List Int))
    (hvalid : validTable t n rels [] = true) (base : Nat) (hb : base < t.size)
    (gens srels : List (List Int))
    (h : Stab.stabilizer base rels (Table.ofView n t) = .ok (gens, srels)) :
    ∃ f : PresentedGroup (relSet gens.length srels) →* PresentedGroup (relSet n rels),
      (∀ i : Fin gens.length, f (PresentedGroup.of i) = PresentedGroup.mk (relSet n rels) (wordElt n gens[i])) ∧
      f.range = (MulAction.stabilizer (Equiv.Perm (Fin t.size)) (⟨base, hb⟩ : Fin t.size)).comap
        (actionHom (valid_of_validTable hvalid)) :=
  presentation_hom (complete_of_validTable hvalid) (valid_of_validTable hvalid) hb h

/-- ✔ `stabilizer_presentation_iso`.  The homomorphism of `stabilizer_relators_hold` is
    **injective**: the presented group `⟨gens | srels⟩` returned by the model of `stabilizer` is
    isomorphic to the stabiliser of the base row (Reidemeister–Schreier for the code's
    relator-driven elimination).  Proof: `G` acts on `rows × P`, `P = ⟨gens | srels⟩`, by
    `(x, p)·g = (x·g, p·W(x,g))` with `W(x,g)` the final edge word read in `P`; this respects the
    relators of `G` because every traced relator cycle is (a rotation or inverse of) a returned
    relator; the `k`-th generator word moves `(base, p)` to `(base, p·k)`, so an element of `P`
    with trivial image is trivial. -/
theorem stabilizer_presentation_iso (t : Tab) (n : Nat) (rels : List (List Int))
    (hvalid : validTable t n rels [] = true) (base : Nat) (hb : base < t.size)
    (gens srels : List (List Int))
    (h : Stab.stabilizer base rels (Table.ofView n t) = .ok (gens, srels)) :
    ∃ f : PresentedGroup (relSet gens.length srels) →* PresentedGroup (relSet n rels),
      (∀ i : Fin gens.length, f (PresentedGroup.of i) = PresentedGroup.mk (relSet n rels) (wordElt n gens[i])) ∧
      f.range = (MulAction.stabilizer (Equiv.Perm (Fin t.size)) (⟨base, hb⟩ : Fin t.size)).comap
        (actionHom (valid_of_validTable hvalid)) ∧
      Function.Injective f :=
  presentation_iso (complete_of_validTable hvalid) (valid_of_validTable hvalid) hb h

/-- ✔ `stabilizer_relators_letters`.  The relators the model of `stabilizer` returns are words over
    the returned generators: every letter is non-zero and of absolute value at most
    `gens.length` (the conclusion is definitionally `Inv.InRange gens.length g` of C14/C17).
    Edge words are empty, a single generator letter not exceeding the number of generators, or
    products/inverses of such. -/
theorem stabilizer_relators_letters (t : Tab) (n : Nat) (rels : List (List Int))
    (hvalid : validTable t n rels [] = true) (base : Nat) (hb : base < t.size)
    (gens srels : List (List Int))
    (h : Stab.stabilizer base rels (Table.ofView n t) = .ok (gens, srels)) :
    ∀ w ∈ srels, ∀ g ∈ w, g ≠ 0 ∧ g.natAbs ≤ gens.length :=
  relators_letters (complete_of_validTable hvalid) (valid_of_validTable hvalid) hb h

/-- ✔ `stabilizer_generators_letters`.  The returned generator words are words over the letters
    `±1..±n` of the original group without a zero letter (definitionally `Inv.InRange n g`). -/
theorem stabilizer_generators_letters (t : Tab) (n : Nat) (rels : List (List Int))
    (hvalid : validTable t n rels [] = true) (base : Nat)
    (gens srels : List (List Int))
    (h : Stab.stabilizer base rels (Table.ofView n t) = .ok (gens, srels)) :
    ∀ w ∈ gens, ∀ g ∈ w, g ≠ 0 ∧ g.natAbs ≤ n :=
  generators_letters (complete_of_validTable hvalid) (valid_of_validTable hvalid) h

/-- ✔ `stabilizer_total`.  On every table passing the Spec of C11 and every base row that is a row,
    the model of `stabilizer` (after the repairs D13/D14) returns a result: no modelled panic
    (`unwrap`, map indexing) and no exhausted fuel.  In particular `close_relations_in_place`
    terminates: the number of edges without a word never grows and drops whenever an edge
    without a word is popped; an edge is only queued while it has no word. -/
theorem stabilizer_total (t : Tab) (n : Nat) (rels : List (List Int))
    (hvalid : validTable t n rels [] = true) (base : Nat) (hb : base < t.size) :
    ∃ gens srels, Stab.stabilizer base rels (Table.ofView n t) = .ok (gens, srels) :=
  StabP.stabilizer_total (complete_of_validTable hvalid) (valid_of_validTable hvalid) hb

/-- ✔ `intersection_total`: the model of `intersection_table` returns a table for every pair of
    non-empty complete inverse-consistent tables (at most `rows·rows` rows are created). -/
theorem intersection_total (ta tb : Tab) (n : Nat)
    (hca : complete ta n = true) (hcb : complete tb n = true)
    (hia : inverseConsistent ta n = true) (hib : inverseConsistent tb n = true)
    (hta : 0 < ta.size) (htb : 0 < tb.size) :
    ∃ T, Stab.intersectionTable (Table.ofView n ta) (Table.ofView n tb) = .ok T :=
  intersectionTable_total hca hcb (inverseConsistent_spec hia) (inverseConsistent_spec hib) hta htb

/-- ✔ `core_total`: the model of `core_table` returns a table for every complete
    inverse-consistent table (at most `rows ^ rows` arrangements exist). -/
theorem core_total (t : Tab) (n : Nat) (hc : complete t n = true) (hi : inverseConsistent t n = true) :
    ∃ T, Stab.coreTable (Table.ofView n t) = .ok T :=
  coreTable_total hc (inverseConsistent_spec hi)

/-- non-vacuity of the hypothesis -/
example : validTable s3Table 2 [[1, 1], [2, 2], [1, 2, 1, 2, 1, 2]] [] = true := by decide +kernel

/-! non-vacuity: the model returns the three outputs pinned by `test_stabilizer` literally, and
    the stabilisers of rows 0 and 1 in `S3 / ⟨b⟩` -/

def v4Table : Tab := #[#[1, 2, 0, 1, 2, 0], #[0, 3, 1, 0, 3, 1], #[3, 0, 2, 3, 0, 2], #[2, 1, 3, 2, 1, 3]]
def z3Index2 : Tab := #[#[1, 0, 0, 1, 0, 0], #[0, 1, 1, 0, 1, 1]]
def pinned3 : Tab := #[#[0, 1, 1, 1, 0, 1, 1, 1], #[1, 0, 0, 0, 1, 0, 0, 0]]

example : Stab.stabilizer 0 [[1, 1], [2, 2], [3, 3], [1, 2, 1, 2], [1, 3, 1, 3], [2, 3, 2, 3]]
    (Table.ofView 3 v4Table) = .ok ([[3]], [[1, 1]]) := by decide +kernel
example : Stab.stabilizer 0 [[1, 2, -1, -2], [1, 3, -1, -3], [2, 3, -2, -3]] (Table.ofView 3 z3Index2) =
    .ok ([[-1, -1], [2], [3]], [[2, 3, -2, -3], [1, 3, -1, -3], [1, 2, -1, -2]]) := by decide +kernel
example : Stab.stabilizer 0
    [[2, 2], [3, 3], [4, 4], [1, 2, -1, -2], [1, 3, -1, -3], [1, 4, -1, -4], [2, 4, 3, 2, 4, 3]]
    (Table.ofView 4 pinned3) =
    .ok ([[1], [3, -2], [4, -2]],
      [[2, 3, -2, -3], [1, 3, -1, -3], [1, 2, -1, -2], [1, 2, 3, -2, -1, 2, -3, -2]]) := by decide +kernel
example : complete s3Table 2 = true ∧ inverseConsistent s3Table 2 = true := by decide +kernel
example : Stab.stabilizer 0 [[1, 1], [2, 2], [1, 2, 1, 2, 1, 2]] (Table.ofView 2 s3Table) =
    .ok ([[2]], [[1, 1]]) := by decide +kernel
example : Stab.stabilizer 1 [[1, 1], [2, 2], [1, 2, 1, 2, 1, 2]] (Table.ofView 2 s3Table) =
    .ok ([[1, 2, -1]], [[1, 1]]) := by decide +kernel
/-- D13/D14 (repaired): free group, empty relator -/
example : Stab.stabilizer 0 [] (Table.ofView 1 #[#[0, 0]]) = .ok ([[1]], []) := by decide +kernel
example : Stab.stabilizer 0 [[], [1, 2, -1, -2]] (Table.ofView 2 #[#[0, 0, 0, 0]]) =
    .ok ([[1], [2]], [[1, 2, -1, -2]]) := by decide +kernel

end DSymVerif.C13
