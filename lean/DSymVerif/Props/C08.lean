/-
Property C08 — 2D curvature, orbifold symbol and geometry class are mutually consistent.

Theorems about the model `DSymVerif/Model/Delaney2d.lean` (namespace `D2`) and about the Spec
`DSymVerif/Spec/C08.lean` (namespace `SpecC08`), for all symbols / all orders.
Helper lemmas: `Proofs/Delaney2dFrac.lean` (fractions ↔ ℚ), `Proofs/Delaney2dGeom.lean`
(curvature value, predicates), `Proofs/Delaney2dChi.lean` (orbifoldChi, census rule, bad).

`Proofs/Dihedral.lean`, `Proofs/Delaney2dOrbits.lean`, `Proofs/Delaney2dReps.lean`,
`Proofs/Delaney2dSum.lean` (dihedral orbit size, `orbit_reps_2d`, the chamber sum; these use
the C02 theorems about `View.orbit`, `collect_orbits` and the table-based `r`, `v`).

`Proofs/Delaney2dConstr.lean` (iso / dual / cover constructions, using C03 and C05),
`Proofs/Delaney2dCover.lean` (cone census of the oriented cover, `is_spherical`),
`Proofs/DihedralLoops.lean`, `Proofs/Delaney2dGauss.lean` (mirror ends, edge count, K side of
Gauss–Bonnet, the monitor), `Proofs/DihedralWalk.lean`, `Proofs/Delaney2dOpposite.lean`,
`Proofs/Delaney2dDarts.lean`, `Proofs/Delaney2dTrace.lean`, `Proofs/Delaney2dBoundary.lean`,
`Proofs/Delaney2dCorners.lean` (`opposite`, boundary darts, `trace_boundary` is exact),
`Proofs/Delaney2dComponents.lean`, `Proofs/Delaney2dMorphism.lean`, `Proofs/Delaney2dMatch.lean`,
`Proofs/Delaney2dInvariance.lean`, `Proofs/Delaney2dCensusInv.lean`,
`Proofs/Delaney2dSymbolInv.lean`, `Proofs/Delaney2dSpecLink.lean` (invariance of the symbol).

`Proofs/PermSign.lean` (sign of a permutation from its number of cycles),
`Proofs/Delaney2dClosedOrientable.lean`, `Proofs/Delaney2dPositive.lean`, `Proofs/Delaney2dMap.lean`,
`Proofs/Delaney2dMapVertices.lean` (the capped surface of a weakly oriented symbol as an oriented
map: `χ_top + #boundaries` is even, so the parity monitor is a theorem and Gauss–Bonnet holds
without a monitor).

`Proofs/PermRee.lean` (Ree's inequality z(φ)+z(α)+z(φα) ≤ n+2 for two permutations without a
proper invariant equivalence relation), `Proofs/Delaney2dGenus.lean` (χ_top + #boundaries ≤ 2 for
connected weakly oriented symbols, χ_top ≤ 1 for connected symbols that are not oriented, the
genus monitor as a theorem, `is_spherical` in the Spec's symbol form).

`Proofs/Delaney2dLift.lean`, `Proofs/Delaney2dLiftGenus.lean` (the orientation double cover of the
capped surface of an arbitrary symbol as an oriented map: χ_top + #boundaries ≤ 1 for connected
symbols that are not weakly oriented, `orbifold_symbol` answers every connected symbol).

`Proofs/Delaney2dRender.lean`, `Proofs/Delaney2dRenderLink.lean` (the returned *string*, read by
the Spec's parser, names the orbifold of the structured answer; section 13 restates the capstone
and the invariance theorems for the string).

`Proofs/Delaney2dUnion.lean`, `Proofs/Delaney2dUnionTrace.lean`, `Proofs/Delaney2dDisconnected.lean`,
`Proofs/Delaney2dDisconnectedExamples.lean` (symbols that are not connected: everything `curvature`
and `orbifold_symbol` look at is additive over disjoint unions; the exact condition under which
`orbifold_symbol` answers; section 14), `Proofs/Delaney2dCoverOf.lean` (curvature × sheets for
every covering in the sense of C05; section 15).

For connected symbols nothing is left open.  Symbols that are not connected (outside the property's
quantifier) are settled in section 14: `orbifold_symbol` answers exactly when
`cappedChi = euler_characteristic + #boundaries ≤ 2` and panics otherwise; `cappedChi` is additive
over disjoint unions and at most 2 on a connected symbol; Gauss–Bonnet holds whenever it answers;
the `bad` form of the third sentence holds unless the answer is a bare cone list for a symbol that
is not weakly oriented, and fails there (counter-examples).
-/
import DSymVerif.Proofs.Delaney2dGeom
import DSymVerif.Proofs.Delaney2dChi
import DSymVerif.Proofs.Delaney2dSum
import DSymVerif.Proofs.Delaney2dExamples
import DSymVerif.Proofs.Delaney2dClassify
import DSymVerif.Proofs.Delaney2dConstr
import DSymVerif.Proofs.Delaney2dCover
import DSymVerif.Proofs.Delaney2dGauss
import DSymVerif.Proofs.Delaney2dCorners
import DSymVerif.Proofs.Delaney2dSpecLink
import DSymVerif.Proofs.Delaney2dClosedOrientable
import DSymVerif.Proofs.Delaney2dMapVertices
import DSymVerif.Proofs.Delaney2dGenus
import DSymVerif.Proofs.Delaney2dLiftGenus
import DSymVerif.Proofs.Delaney2dRenderLink
import DSymVerif.Proofs.Delaney2dDisconnectedExamples
import DSymVerif.Proofs.Delaney2dCoverOf

namespace DSymVerif.C08
open DSymVerif.DS DSymVerif.D2 DSymVerif.SpecC08

/-! ### 1. the model's rationals are exact and in lowest terms -/

/-- `Frac.norm` (what `Ratio::new` and every `Ratio` operation do with their result) returns
    the normal form of `n/d` — Mathlib's `ℚ` representative: value preserved, positive
    denominator, numerator and denominator coprime. -/
theorem frac_norm_correct (n : Int) (d : Nat) (hd : d ≠ 0) :
    Frac.norm n d = Frac.ofRat ((n : ℚ) / (d : ℚ)) ∧
    (Frac.norm n d).toRat = (n : ℚ) / (d : ℚ) ∧
    (Frac.norm n d).den ≠ 0 ∧ Nat.Coprime (Frac.norm n d).num.natAbs (Frac.norm n d).den := by
  have h := Frac.norm_eq_ofRat n d hd
  refine ⟨h, ?_, ?_, ?_⟩
  · rw [h, Frac.toRat_ofRat]
  · rw [h]; exact (Frac.ofRat_reduced _).1
  · rw [h]; exact (Frac.ofRat_reduced _).2

example : Frac.norm 6 4 = ⟨3, 2⟩ ∧ Frac.norm (-6) 4 = ⟨-3, 2⟩ ∧ Frac.norm 0 7 = ⟨0, 1⟩ := by decide

/-- sums and differences of normal forms are the normal forms of the sums and differences;
    the sign tests read the sign of the value -/
theorem frac_arith_exact (x y : ℚ) :
    Frac.add (Frac.ofRat x) (Frac.ofRat y) = Frac.ofRat (x + y) ∧
    Frac.sub (Frac.ofRat x) (Frac.ofRat y) = Frac.ofRat (x - y) ∧
    (∀ n : Int, Frac.ofInt n = Frac.ofRat n) ∧
    Frac.isZero (Frac.ofRat x) = decide (x = 0) ∧
    Frac.isNeg (Frac.ofRat x) = decide (x < 0) ∧
    Frac.isPos (Frac.ofRat x) = decide (0 < x) ∧
    (Frac.ofRat x = Frac.ofRat y → x = y) :=
  ⟨Frac.add_ofRat x y, Frac.sub_ofRat x y, Frac.ofInt_eq_ofRat, Frac.isZero_ofRat x,
   Frac.isNeg_ofRat x, Frac.isPos_ofRat x, Frac.ofRat_injective⟩

/-! ### 2. the value of the model's curvature -/

/-- `curvature` answers exactly on two-dimensional complete input whose 2-orbits all have a
    non-zero branching number, and the answer is the lowest-terms form of
    Σ_{2-orbits} (2 if loopless else 1)/v − size. -/
theorem curvature_value (s : Sym) (k : Frac) (h : curvature s = .ok k) :
    s.dim = 2 ∧ s.isComplete = true ∧
    ∃ ts, orbitTypes2d s = .ok ts ∧ (∀ t ∈ ts, t.1 ≠ 0) ∧
      k = Frac.ofRat (curvQ ts s.size) ∧ k.toRat = curvQ ts s.size ∧
      k.den ≠ 0 ∧ Nat.Coprime k.num.natAbs k.den := by
  obtain ⟨h1, h2, ts, h3, h4, h5⟩ := curvature_ok h
  refine ⟨h1, h2, ts, h3, h4, h5, ?_, ?_, ?_⟩
  · rw [h5, Frac.toRat_ofRat]
  · rw [h5]; exact (Frac.ofRat_reduced _).1
  · rw [h5]; exact (Frac.ofRat_reduced _).2

example : curvature ex632 = .ok ⟨0, 1⟩ := by decide +kernel
example : curvature ex332 = .ok ⟨1, 6⟩ := by decide +kernel

/-- the assertions: anything but dimension 2 and completeness panics, in `curvature`, the three
    predicates and `orbifold_symbol` alike -/
theorem asserts_panic (s : Sym) (h : s.dim ≠ 2 ∨ s.isComplete = false) :
    curvature s = .panic ∧ isEuclidean s = .panic ∧ isHyperbolic s = .panic ∧
    isSpherical s = .panic ∧ orbifoldSymbol s = .panic ∧ orbifoldSymbolString s = .panic := by
  have hc : curvature s = .panic := by
    unfold curvature
    rcases h with h | h
    · rw [if_pos (by simpa using h)]
    · split
      · rfl
      · rw [if_pos (by simp [h])]
  have ho : orbifoldSymbol s = .panic := by
    unfold orbifoldSymbol
    rcases h with h | h
    · rw [if_pos (by simpa using h)]
    · split
      · rfl
      · rw [if_pos (by simp [h])]
  obtain ⟨h1, h2, h3⟩ := predicates_panic hc
  refine ⟨hc, h1, h2, h3, ho, ?_⟩
  unfold orbifoldSymbolString
  rw [ho]

example : (⟨DSymData.ofSimple { size := 1, dim := 1, op := #[1, 1] }, .partialSym⟩ : Sym).dim ≠ 2 := by
  decide

/-! ### 3. geometry trichotomy -/

/-- **Trichotomy.**  Whenever the model's curvature is defined, `is_euclidean` answers
    "value = 0", `is_hyperbolic` answers "value < 0", and `is_spherical` answers `false`
    unless the value is positive; so exactly one of  euclidean / hyperbolic / positive
    curvature  holds, decided by the sign of the curvature. -/
theorem geometry_trichotomy (s : Sym) (k : Frac) (h : curvature s = .ok k) :
    isEuclidean s = .ok (decide (k.toRat = 0)) ∧
    isHyperbolic s = .ok (decide (k.toRat < 0)) ∧
    (¬ 0 < k.toRat → isSpherical s = .ok false) ∧
    (isSpherical s = .ok true → 0 < k.toRat) ∧
    ((isEuclidean s = .ok true ∧ isHyperbolic s = .ok false ∧ ¬ 0 < k.toRat) ∨
     (isEuclidean s = .ok false ∧ isHyperbolic s = .ok true ∧ ¬ 0 < k.toRat) ∨
     (isEuclidean s = .ok false ∧ isHyperbolic s = .ok false ∧ 0 < k.toRat)) := by
  have he := isEuclidean_eq h
  have hh := isHyperbolic_eq h
  refine ⟨he, hh, isSpherical_of_not_pos h, isSpherical_true_pos h, ?_⟩
  rw [he, hh]
  rcases lt_trichotomy k.toRat 0 with hlt | heq | hgt
  · right; left
    refine ⟨?_, ?_, not_lt.mpr hlt.le⟩
    · simp [hlt.ne]
    · simp [hlt]
  · left
    refine ⟨by simp [heq], by simp [heq], by simp [heq]⟩
  · right; right
    refine ⟨?_, ?_, hgt⟩
    · simp [hgt.ne']
    · simp [not_lt.mpr hgt.le]

example : curvature ex632 = .ok ⟨0, 1⟩ ∧ isEuclidean ex632 = .ok true ∧ isSpherical ex632 = .ok false := by
  decide +kernel
example : isSpherical ex332 = .ok true ∧ isHyperbolic ex332 = .ok false := by decide +kernel

/-- for positive curvature `is_spherical` is the census rule on the branching numbers > 1 of
    the oriented cover (all of them: in the oriented cover every 2-orbit is a cone) -/
theorem isSpherical_is_census_of_cover (s : Sym) (k : Frac) (h : curvature s = .ok k)
    (hk : 0 < k.toRat) (b : Bool) (hs : isSpherical s = .ok b) :
    ∃ dso ts, orientedCover s.data = .ok dso ∧ orbitTypes2d ⟨dso, .partialSym⟩ = .ok ts ∧
      b = censusRule ((ts.map (·.1)).filter (· > 1)) :=
  isSpherical_of_pos h hk hs

example : ∃ k, curvature ex332 = .ok k ∧ 0 < k.toRat ∧ isSpherical ex332 = .ok true :=
  ⟨⟨1, 6⟩, by decide +kernel, by norm_num [Frac.toRat], by decide +kernel⟩

/-- `PartialDSym` and `SimpleDSym` give the same five answers (the overrides of `v` coincide and
    `is_complete` of a `SimpleDSym` is `true`, so the answers agree whenever the `PartialDSym`
    is complete) -/
theorem representations_agree (d : DSymData) (hc : d.isCompletePartial = true) :
    curvature ⟨d, .simpleSym⟩ = curvature ⟨d, .partialSym⟩ ∧
    isEuclidean ⟨d, .simpleSym⟩ = isEuclidean ⟨d, .partialSym⟩ ∧
    isHyperbolic ⟨d, .simpleSym⟩ = isHyperbolic ⟨d, .partialSym⟩ ∧
    isSpherical ⟨d, .simpleSym⟩ = isSpherical ⟨d, .partialSym⟩ ∧
    orbifoldSymbol ⟨d, .simpleSym⟩ = orbifoldSymbol ⟨d, .partialSym⟩ := by
  have hv : Sym.v ⟨d, .simpleSym⟩ = Sym.v ⟨d, .partialSym⟩ := rfl
  have hcomp : Sym.isComplete ⟨d, .simpleSym⟩ = Sym.isComplete ⟨d, .partialSym⟩ := by
    simp [Sym.isComplete, hc]
  have ht : orbitTypes2d ⟨d, .simpleSym⟩ = orbitTypes2d ⟨d, .partialSym⟩ := rfl
  have hcurv : curvature ⟨d, .simpleSym⟩ = curvature ⟨d, .partialSym⟩ := by
    unfold curvature
    rw [hcomp, ht]
    rfl
  have hcomp' : Sym.isComplete ⟨d, .partialSym⟩ = true := by simpa [Sym.isComplete] using hc
  refine ⟨hcurv, ?_, ?_, ?_, ?_⟩
  · unfold isEuclidean; rw [hcurv]
  · unfold isHyperbolic; rw [hcurv]
  · unfold isSpherical; rw [hcurv]
  · exact orbifoldSymbol_rep d hcomp

example : exData.isCompletePartial = true := by decide +kernel

/-! ### 4. the census rule -/

/-- **`spherical_census_rule`.**  The `1 => false, 2 => cones[0] == cones[1], _ => true` of
    `is_spherical` says exactly "not one singular point, and not two of different order"
    (not a tear-drop, not a spindle); it depends on the cone list only as a multiset. -/
theorem spherical_census_rule (L : List Nat) :
    (censusRule L = true ↔ L.length ≠ 1 ∧ (L.length = 2 → ∀ a ∈ L, ∀ b ∈ L, a = b)) ∧
    censusRule L = !oneOrTwoDifferent L ∧
    (∀ L', L.Perm L' → censusRule L = censusRule L') :=
  ⟨censusRule_iff L, censusRule_eq_not L, fun _ h => censusRule_perm h⟩

/-! ### 5. the Spec's `orbifoldChi` -/

/-- the Spec's integer-pair arithmetic computes
    χ = 2 − Σ_cones (1 − 1/v) − Σ_boundaries (1 + Σ_corners (1 − 1/v)/2) − 2·#o − #x
    for every symbol whose orders are ≥ 1 -/
theorem orbifoldChi_exact (o : Orb) (h : o.WF) :
    (orbifoldChi o).den ≠ 0 ∧
    (orbifoldChi o).val =
      2 - (o.cones.map fun (v : Nat) => (1 : ℚ) - 1 / (v : ℚ)).sum
        - (o.bnds.map fun (c : List Nat) => (1 : ℚ) + (c.map fun (v : Nat) => (1 : ℚ) - 1 / (v : ℚ)).sum / 2).sum
        - 2 * (o.handles : ℚ) - (o.caps : ℚ) ∧
    (orbifoldChi o).val = chiQ o := by
  have := orbifoldChi_val o h
  exact ⟨this.2, this.1, this.1⟩

example : (⟨[3], [[2]], 0, 0⟩ : Orb).WF := by
  constructor <;> simp

/-- the decidable Spec clauses mean what they say in ℚ: `curvature = 2χ(symbol)`, and the sign
    tests used for the three geometry predicates -/
theorem spec_clauses_meaning (K : Fr) (hK : K.den ≠ 0) (o : Orb) (h : o.WF) :
    (Fr.eqv K (Fr.scale 2 (orbifoldChi o)) = true ↔ K.val = 2 * chiQ o) ∧
    (K.isZero = true ↔ K.val = 0) ∧ (K.isNeg = true ↔ K.val < 0) ∧ (K.isPos = true ↔ 0 < K.val) := by
  have hc := orbifoldChi_val o h
  have hs := Fr.scale_val 2 (orbifoldChi o)
  refine ⟨?_, Fr.isZero_iff K hK, Fr.isNeg_iff K hK, Fr.isPos_iff K hK⟩
  rw [Fr.eqv_iff K _ hK (by rw [hs.2]; exact hc.2), hs.1, hc.1]
  norm_num

/-- **bad = the census rule fails on the orientable double cover.**  For χ > 0 the Spec's `bad`
    (property text: tear-drop or spindle — "one cone or corner point, or two of different
    order": S²(p), S²(p,q) p≠q, `*p`, `*pq` p≠q) coincides with the negation of the code's
    census rule applied to the cone orders of the double cover (every cone twice, every corner
    once; the symbol's own cones when it is closed and orientable).  In particular no other
    symbol of positive χ (`p*`, `px`, `p*q`, …) is bad. -/
theorem bad_iff_census_fails_on_cover (o : Orb) (h : o.WF) (hpos : 0 < chiQ o) :
    bad o = !censusRule (coverCones o) ∧ o.handles = 0 ∧ o.bnds.length + o.caps ≤ 1 :=
  ⟨bad_eq_not_census o h hpos, chi_pos_shape o h hpos⟩

example : (⟨[3], [[2]], 0, 0⟩ : Orb).WF ∧ 0 < chiQ ⟨[3], [[2]], 0, 0⟩ := by
  refine ⟨by constructor <;> simp, ?_⟩
  norm_num [chiQ, dq]

/-- **Positivity alone does not decide sphericality**: for all p, q ≥ 2 the tear-drop S²(p),
    the spindle S²(p,q) (p ≠ q) and their mirror quotients have positive χ — by arithmetic,
    χ = 1 + 1/p, 1/p + 1/q, (1 + 1/p)/2, (1/p + 1/q)/2 — and are bad. -/
theorem bad_families_chi_pos (p q : Nat) (hp : 2 ≤ p) (hq : 2 ≤ q) :
    (0 < chiQ ⟨[p], [], 0, 0⟩ ∧ bad ⟨[p], [], 0, 0⟩ = true) ∧
    (0 < chiQ ⟨[], [[p]], 0, 0⟩ ∧ bad ⟨[], [[p]], 0, 0⟩ = true) ∧
    (p ≠ q → 0 < chiQ ⟨[p, q], [], 0, 0⟩ ∧ bad ⟨[p, q], [], 0, 0⟩ = true) ∧
    (p ≠ q → 0 < chiQ ⟨[], [[p, q]], 0, 0⟩ ∧ bad ⟨[], [[p, q]], 0, 0⟩ = true) := by
  have hp' := inv_pos_of_one_le p (by omega)
  have hq' := inv_pos_of_one_le q (by omega)
  have pp : decide (p > 1) = true := by simp; omega
  have pq : decide (q > 1) = true := by simp; omega
  refine ⟨⟨?_, ?_⟩, ⟨?_, ?_⟩, fun hne => ⟨?_, ?_⟩, fun hne => ⟨?_, ?_⟩⟩
  · rw [chi_teardrop]; linarith
  · simp [bad, proper, oneOrTwoDifferent, pp]
  · rw [chi_star_p]; linarith
  · simp [bad, proper, oneOrTwoDifferent, pp]
  · rw [chi_spindle]; linarith
  · simp [bad, proper, oneOrTwoDifferent, pp, pq, hne]
  · rw [chi_star_pq]; linarith
  · simp [bad, proper, oneOrTwoDifferent, pp, pq, hne]

example : (2 : Nat) ≤ 2 ∧ (2 : Nat) ≤ 3 ∧ (2 : Nat) ≠ 3 := by decide

/-- every symbol of the good-spherical list has positive χ and is not bad (for all n ≥ 1, by
    arithmetic) -/
theorem good_spherical_chi_pos (o : Orb) (h : GoodSpherical o) : 0 < chiQ o ∧ bad o = false := by
  cases h with
  | sphere => exact ⟨by norm_num [chiQ], by decide⟩
  | disc => exact ⟨by norm_num [chiQ], by decide⟩
  | projective => exact ⟨by norm_num [chiQ], by decide⟩
  | nn n hn =>
    have := inv_pos_of_one_le n hn
    constructor
    · rw [chi_nn]
      have e : (2 : ℚ) / n = 2 * (1 / n) := by ring
      linarith
    · by_cases h1 : n > 1 <;> simp [bad, proper, oneOrTwoDifferent, h1]
  | star_nn n hn =>
    have := inv_pos_of_one_le n hn
    constructor
    · rw [chi_star_nn]; exact this
    · by_cases h1 : n > 1 <;> simp [bad, proper, oneOrTwoDifferent, h1]
  | n_star n hn =>
    have := inv_pos_of_one_le n hn
    constructor
    · rw [chi_n_star]; exact this
    · by_cases h1 : n > 1 <;> simp [bad, proper, oneOrTwoDifferent, h1]
  | n_x n hn =>
    have := inv_pos_of_one_le n hn
    exact ⟨by rw [chi_n_x]; exact this, by simp [bad]⟩
  | d22n n hn =>
    have := inv_pos_of_one_le n hn
    constructor
    · rw [chi_22n]; exact this
    · by_cases h1 : n > 1 <;> simp [bad, proper, oneOrTwoDifferent, h1]
  | star_22n n hn =>
    have := inv_pos_of_one_le n hn
    constructor
    · rw [chi_star_22n]
      have e : (1 : ℚ) / (2 * n) = (1 / n) / 2 := by ring
      linarith
    · by_cases h1 : n > 1 <;> simp [bad, proper, oneOrTwoDifferent, h1]
  | d2_star_n n hn =>
    have := inv_pos_of_one_le n hn
    constructor
    · rw [chi_2_star_n]
      have e : (1 : ℚ) / (2 * n) = (1 / n) / 2 := by ring
      linarith
    · simp [bad, proper]
  | t332 => exact ⟨by norm_num [chiQ, dq], by decide⟩
  | star_332 => exact ⟨by norm_num [chiQ, dq], by decide⟩
  | t3_star_2 => exact ⟨by norm_num [chiQ, dq], by decide⟩
  | o432 => exact ⟨by norm_num [chiQ, dq], by decide⟩
  | star_432 => exact ⟨by norm_num [chiQ, dq], by decide⟩
  | i532 => exact ⟨by norm_num [chiQ, dq], by decide⟩
  | star_532 => exact ⟨by norm_num [chiQ, dq], by decide⟩

example : GoodSpherical ⟨[5, 3, 2], [], 0, 0⟩ := .i532

/-- **classification**: conversely, every symbol (orders ≥ 1) with χ > 0 that is not bad is — up to
    the order of its cones and of the corners on its boundary component, orders 1 dropped — a
    member of the good-spherical list `1, *, x, nn, *nn, n*, nx, 22n, *22n, 2*n, 332, *332, 3*2,
    432, *432, 532, *532`.  So the Spec's "χ > 0 and not bad" is exactly "spherical". -/
theorem spherical_classification (o : Orb) (h : o.WF) (hpos : 0 < chiQ o) (hb : bad o = false) :
    ∃ g, GoodSpherical g ∧ SameUpToOrder o g :=
  SpecC08.spherical_classification o h hpos hb

example : (⟨[2, 3, 1, 5], [], 0, 0⟩ : Orb).WF ∧ 0 < chiQ ⟨[2, 3, 1, 5], [], 0, 0⟩ ∧
    bad ⟨[2, 3, 1, 5], [], 0, 0⟩ = false := by
  refine ⟨by constructor <;> simp, by norm_num [chiQ, dq], by decide⟩

/-! ### 6. the curvature as a sum over chambers, and its invariances -/

/-- **dihedral orbit size**: on a valid D-set the list `orbit([i, j], d)` has `2r` entries when no
    chamber in it is fixed by `op i` or `op j` (the `loopless` flag of `orbit_types_2d`) and `r`
    entries otherwise, `r` being the least period of `d` under `op j ∘ op i`. -/
theorem dihedral_orbit_size (y : DSymData) (h : ValidSet y.dset) (i j d r : Nat) (hi : i ≤ y.dim)
    (hj : j ≤ y.dim) (hd : 1 ≤ d ∧ d ≤ y.size) (hr : IsLeastPeriod y.dset i j d r) :
    (y.view.orbit [i, j] d).length =
      if ((y.view.orbit [i, j] d).all fun e => y.op i e != some e && y.op j e != some e) = true
      then 2 * r else r :=
  orbit_length h hi hj hd hr

example : ValidSet exData.dset ∧ IsLeastPeriod exData.dset 0 1 1 1 :=
  ⟨exData_valid.set, by decide, by show exData.dset.opU 1 (exData.dset.opU 0 1) = 1; decide +kernel,
   fun t a b => by omega⟩

/-- `orbit_reps_2d(i, j)` on a valid D-set, for every pair of indices: chambers in range, no two in
    the same (i,j)-orbit, one in the orbit of every chamber -/
theorem orbitReps2d_one_per_orbit (y : DSymData) (h : ValidSet y.dset) (i j : Nat) (hi : i ≤ y.dim)
    (hj : j ≤ y.dim) :
    (∀ d ∈ y.view.orbitReps2d i j, 1 ≤ d ∧ d ≤ y.size) ∧
    (y.view.orbitReps2d i j).Pairwise (fun a b => ¬ Orb2 y.dset i j a b) ∧
    (∀ x, 1 ≤ x → x ≤ y.size → ∃ d ∈ y.view.orbitReps2d i j, Orb2 y.dset i j d x) := by
  have := orbitReps2d_ok h hi hj
  exact ⟨this.range, this.distinct, this.cover⟩

/-- **`curvature_chamber_sum`.**  On a valid complete two-dimensional symbol, in either
    representation, the model's `curvature` is defined and equals
    Σ_chambers (1/m01(d) + 1/m12(d) − 1/2), where m_ij = r_ij · v_ij are the symbol's own answers. -/
theorem curvature_chamber_sum (s : Sym) (g : Good2d s) :
    ∃ k, curvature s = .ok k ∧
      k.toRat = ∑ d ∈ Finset.Icc 1 s.size, (1 / mQ s.data 0 1 d + 1 / mQ s.data 1 2 d - 1 / 2) ∧
      k = Frac.ofRat (chamberSum s.data) := by
  obtain ⟨k, hk, hv⟩ := curvature_chamber_sum' s g.valid g.dim g.complete
  refine ⟨k, hk, hv, ?_⟩
  have := curvature_eq_chamberSum g
  rw [hk] at this
  exact Outcome.ok.inj this

example : Good2d ex632 := ex632_good

/-- **`curvature_renumber`**: a bijection of the chambers that preserves m01 and m12 preserves the
    curvature (the same lowest-terms answer). -/
theorem curvature_renumber (s s' : Sym) (g : Good2d s) (g' : Good2d s') (p : Nat → Nat)
    (hmaps : ∀ d, 1 ≤ d → d ≤ s.data.size → 1 ≤ p d ∧ p d ≤ s'.data.size)
    (hinj : ∀ d e, 1 ≤ d → d ≤ s.data.size → 1 ≤ e → e ≤ s.data.size → p d = p e → d = e)
    (hsurj : ∀ e, 1 ≤ e → e ≤ s'.data.size → ∃ d, 1 ≤ d ∧ d ≤ s.data.size ∧ p d = e)
    (hm01 : ∀ d, 1 ≤ d → d ≤ s.data.size → mQ s'.data 0 1 (p d) = mQ s.data 0 1 d)
    (hm12 : ∀ d, 1 ≤ d → d ≤ s.data.size → mQ s'.data 1 2 (p d) = mQ s.data 1 2 d) :
    curvature s' = curvature s :=
  curvature_congr g g' (chamberSum_renumber p hmaps hinj hsurj hm01 hm12)

example : curvature ex632 = curvature ex632 :=
  curvature_renumber ex632 ex632 ex632_good ex632_good id (fun _ a b => ⟨a, b⟩)
    (fun _ _ _ _ _ _ h => h) (fun e a b => ⟨e, a, b, rfl⟩) (fun _ _ _ => rfl) (fun _ _ _ => rfl)

/-- **`curvature_dual`**: exchanging m01 and m12 (what dualisation does) preserves the curvature. -/
theorem curvature_dual (s s' : Sym) (g : Good2d s) (g' : Good2d s') (hsize : s'.data.size = s.data.size)
    (hm01 : ∀ d, 1 ≤ d → d ≤ s.data.size → mQ s'.data 0 1 d = mQ s.data 1 2 d)
    (hm12 : ∀ d, 1 ≤ d → d ≤ s.data.size → mQ s'.data 1 2 d = mQ s.data 0 1 d) :
    curvature s' = curvature s :=
  curvature_congr g g' (chamberSum_dual hsize hm01 hm12)

/-- **`curvature_cover`**: under a map of chambers whose fibres all have `k` elements and which
    preserves m01 and m12 (a `k`-sheeted covering) the curvature is multiplied by `k`. -/
theorem curvature_cover (s s' : Sym) (g : Good2d s) (g' : Good2d s') (k : Nat) (π : Nat → Nat)
    (hmaps : ∀ e, 1 ≤ e → e ≤ s'.data.size → 1 ≤ π e ∧ π e ≤ s.data.size)
    (hfib : ∀ d, 1 ≤ d → d ≤ s.data.size →
      ((Finset.Icc 1 s'.data.size).filter fun e => π e = d).card = k)
    (hm01 : ∀ e, 1 ≤ e → e ≤ s'.data.size → mQ s'.data 0 1 e = mQ s.data 0 1 (π e))
    (hm12 : ∀ e, 1 ≤ e → e ≤ s'.data.size → mQ s'.data 1 2 e = mQ s.data 1 2 (π e)) :
    ∃ K K', curvature s = .ok K ∧ curvature s' = .ok K' ∧ K'.toRat = (k : ℚ) * K.toRat := by
  refine ⟨_, _, curvature_eq_chamberSum g, curvature_eq_chamberSum g', ?_⟩
  rw [Frac.toRat_ofRat, Frac.toRat_ofRat]
  exact chamberSum_cover k π hmaps hfib hm01 hm12

/-! ### 7. the invariances for the model's own constructions (no side hypotheses) -/

/-- **renumbering**: every symbol `b` that is isomorphic to a good 2D symbol `a` in the sense of
    C03 (`IsIso`: a bijection of the chambers commuting with the operations and preserving the
    adjacent branching numbers — in particular every renumbering) is itself complete and has the
    same curvature answer, in either representation. -/
theorem curvature_renumber_iso (a b : DSymData) (f : Nat → Nat) (iso : CanonP.IsIso f a b) (ra rb : Rep)
    (ga : Good2d ⟨a, ra⟩) (hb : ValidSym b) :
    Good2d ⟨b, rb⟩ ∧ curvature ⟨b, rb⟩ = curvature ⟨a, ra⟩ :=
  curvature_of_iso iso ra rb ga hb

/-- … and the library's own renumbering construction (the tail of `canonical`: `build_set` +
    `build_sym_using_vs` through a bijective chamber map) returns such a symbol. -/
theorem curvature_renumber_model (s : DSymData) (rs rc : Rep) (g : Good2d ⟨s, rs⟩) (hsz : 1 ≤ s.size)
    (m : Array Nat) (hm : CanonP.PermOn s.size m) :
    ∃ c, rebuild s m = .ok c ∧ Good2d ⟨c, rc⟩ ∧ curvature ⟨c, rc⟩ = curvature ⟨s, rs⟩ := by
  have hdim : s.dim = 2 := g.dim
  obtain ⟨c, hc, hcv, iso⟩ := CanonP.rebuild_isIso (show ValidSym s from g.valid) hsz (by omega) hm
  obtain ⟨gc, e⟩ := curvature_of_iso iso rs rc g hcv
  exact ⟨c, hc, gc, e⟩

example : Good2d ex632 ∧ 1 ≤ exData.size := ⟨ex632_good, by decide +kernel⟩

/-- **dualisation**: the model of `derived::dual` returns (no panic) a good 2D symbol with the
    same curvature answer. -/
theorem curvature_dual_model (s : DSymData) (rs rt : Rep) (g : Good2d ⟨s, rs⟩) (hsz : 1 ≤ s.size) :
    ∃ t, dual s = .ok t ∧ Good2d ⟨t, rt⟩ ∧ curvature ⟨t, rt⟩ = curvature ⟨s, rs⟩ :=
  curvature_of_dual rs rt g hsz

/-- **covers**: for `derived::cover` with a compatible sheet map, if the orbit lengths of the
    cover divide the degrees of the base (adjacent pairs; `cover_is_covering` of C05) and its far
    operations commute (the same divisibility for the pair (0,2)), the cover is a good 2D symbol
    and its curvature is the number of sheets times the curvature of the base. -/
theorem curvature_cover_model (s : DSymData) (rs rc : Rep) (g : Good2d ⟨s, rs⟩) (hsz : 1 ≤ s.size)
    (n : Nat) (hn : 1 ≤ n) (σ : Nat → Nat → Nat → Nat) (hσ : SheetCompat s.dset n σ)
    (c : DSymData) (hc : cover s n σ = .ok c) (hfar : FarCommute c.dset)
    (hdiv : ∀ i d r m, i < s.dim → 1 ≤ d → d ≤ n * s.size →
      c.rPartial i (i + 1) d = .ok (some r) → s.mPartial i (i + 1) (cproj s.size d) = .ok (some m) → r ∣ m) :
    Good2d ⟨c, rc⟩ ∧ ∃ K K', curvature ⟨s, rs⟩ = .ok K ∧ curvature ⟨c, rc⟩ = .ok K' ∧
      K'.toRat = (n : ℚ) * K.toRat :=
  curvature_of_cover rs rc g hsz n hn σ hσ c hc hfar hdiv

/-- **oriented cover**: unconditionally, `oriented_cover` of a good 2D symbol is a good 2D symbol
    (valid tables, far operations commute, complete) whose curvature is that of the symbol
    (oriented base: the symbol itself) or twice it (double cover). -/
theorem curvature_orientedCover (s : DSymData) (rs : Rep) (g : Good2d ⟨s, rs⟩) (hsz : 1 ≤ s.size) :
    ∃ c, orientedCover s = .ok c ∧ Good2d ⟨c, .partialSym⟩ ∧
      ∃ K K', curvature ⟨s, rs⟩ = .ok K ∧ curvature ⟨c, .partialSym⟩ = .ok K' ∧
        K'.toRat = (if s.view.isOriented then 1 else 2) * K.toRat :=
  curvature_of_orientedCover rs g hsz

/-! ### 8. the cone census of the oriented cover, and `is_spherical` as a theorem -/

/-- what `orbit_types_2d` / `cone_degrees` return on a good 2D symbol: one entry per 2-orbit
    (pairs (0,1), (0,2), (1,2), orbits in the order of `orbit_reps_2d`) with its branching
    number and `loopless` flag -/
theorem orbitTypes2d_value (s : Sym) (g : Good2d s) :
    orbitTypes2d s = .ok (typesOf s.data) ∧ coneDegrees s = .ok (conesOf (typesOf s.data)) :=
  ⟨orbitTypes2d_good g, coneDegrees_good g⟩

example : Good2d ex632 := ex632_good

/-- **cones twice, corners once**: for a good 2D symbol that is not oriented, `oriented_cover`
    returns a good 2D symbol whose branching numbers > 1 (all of them cones: the cover has no
    mirrors) are, as a multiset, every cone order of the symbol twice and every corner order
    once — a loopless 2-orbit lifts to two orbits of the double cover with the same `v`, an orbit
    with a mirror to one (by `dihedral_orbit_size` and `oriented_cover_preserves_degrees`). -/
theorem oriented_cover_census (s : DSymData) (rs : Rep) (g : Good2d ⟨s, rs⟩) (hsz : 1 ≤ s.size)
    (ho : s.view.isOriented = false) :
    ∃ c, orientedCover s = .ok c ∧ Good2d ⟨c, .partialSym⟩ ∧
      (((typesOf c).map (·.1)).filter (· > 1)).Perm
        (conesOf (typesOf s) ++ conesOf (typesOf s) ++ cornersOf (typesOf s)) := by
  obtain ⟨c, hoc, dc⟩ := doubleCover_of_pkg g.valid g.dim hsz g.complete ho
  exact ⟨c, hoc, ⟨dc.vc, dc.cdim, dc.ccomplete⟩, cover_census dc⟩

/-- **`isSpherical_iff` — the third sentence of the property, for the model.**  On every good 2D
    symbol (valid, complete, either representation) `is_spherical` answers `true` exactly when
    the curvature is positive and the symbol's cone/corner census is not "tear-drop or spindle
    (one cone or corner point, or two of different order)": `badCensus` = one cone, or two cones
    of different order, on an oriented symbol; no cone and one corner, or two corners of
    different order, otherwise.  Together with `geometry_trichotomy`: euclidean ⇔ K = 0,
    hyperbolic ⇔ K < 0, spherical ⇔ K > 0 ∧ ¬bad. -/
theorem isSpherical_iff (s : Sym) (g : Good2d s) (hsz : 1 ≤ s.size) :
    ∃ K, curvature s = .ok K ∧
      isSpherical s = .ok (decide (0 < K.toRat) && !badCensus s.data) ∧
      isSpherical s = .ok (decide (0 < K.toRat) && censusRule (coverCensus s.data)) := by
  obtain ⟨K, hK, h1⟩ := isSpherical_iff_good g hsz
  obtain ⟨K', hK', h2⟩ := isSpherical_good g hsz
  rw [hK] at hK'
  cases hK'
  exact ⟨K, hK, h1, h2⟩

example : isSpherical ex632 = .ok false ∧ badCensus exData = false := by decide +kernel

/-- `badCensus` is the Spec's `bad` of every orbifold symbol with positive χ that carries the
    census of the D-symbol (same cones; the corners of all boundary components together; closed
    and without cross-cap exactly when the D-symbol is oriented) — whatever the order of cones,
    the distribution and order of corners on the boundary components and the number of handles. -/
theorem badCensus_is_spec_bad (y : DSymData) (o : Orb) (hw : o.WF) (hpos : 0 < chiQ o)
    (hc : (proper o.cones).Perm (conesOf (typesOf y)))
    (hb : (proper o.bnds.flatten).Perm (cornersOf (typesOf y)))
    (ho : (o.bnds.isEmpty && o.caps == 0) = y.view.isOriented) :
    bad o = badCensus y :=
  bad_eq_badCensus y o hw hpos hc hb ho

/-! ### 9. Gauss–Bonnet: the K side, the correctness of the boundary tracing, and the conditional
     forms (under `parityMonitor` / `genusMonitor`, both theorems by sections 11–12) -/

/-- **mirror ends**: every 2-orbit with a mirror has exactly two mirror ends (a chamber fixed by
    both operations counts twice), so the number of fixed chambers of the three operations is the
    number of 2-orbits with a mirror, and the edge count `(3F + loops)/2` of `euler_characteristic`
    loses nothing: 2E = 3F + #(orbits with a mirror). -/
theorem mirror_ends_and_edge_count (y : DSymData) (h : ValidSym y) (hdim : y.dim = 2) :
    loopsN y 0 + loopsN y 1 + loopsN y 2 = chainCount (typesOf y) ∧
    2 * ((3 * y.size + loopsN y 0 + loopsN y 1 + loopsN y 2) / 2) = 3 * y.size + chainCount (typesOf y) ∧
    (∀ rep, 2 * eulerCharacteristic ⟨y, rep⟩ =
      2 * ((looplessCount (typesOf y) : Int) + (chainCount (typesOf y) : Int)) - (y.size : Int)
        - (chainCount (typesOf y) : Int)) :=
  ⟨loops_eq_chains h hdim, edge_count h hdim, fun rep => euler_value rep h hdim⟩

example : ValidSym exData ∧ exData.dim = 2 := ⟨exData_valid, by decide +kernel⟩

/-- **K side of Gauss–Bonnet (unconditional).**  On every good 2D symbol
    K = 2·χ_top − 2·Σ_cones (1 − 1/v) − Σ_corners (1 − 1/v),
    χ_top the value of the model's `euler_characteristic` (F − E + V of the chamber
    triangulation), cones / corners the census of 2-orbits without / with a mirror and v > 1. -/
theorem curvature_euler_formula (s : Sym) (g : Good2d s) :
    ∃ K, curvature s = .ok K ∧
      K.toRat = 2 * ((eulerCharacteristic s : Int) : ℚ)
        - 2 * ((conesOf (typesOf s.data)).map dq).sum - ((cornersOf (typesOf s.data)).map dq).sum :=
  curvature_euler g

example : Good2d ex632 := ex632_good

/-- **`opposite`**: from the mirror end `(b, e)` of the (a,b)-orbit of `e`, walking alternately
    `op a`, `op b`, …, `opposite` returns (no panic, the fuel of the model suffices) the *other*
    mirror end `(k', e')` of that orbit, and from there it returns `(b, e)`: the two mirror ends
    of a chain are different and `opposite` exchanges them. -/
theorem opposite_exchanges_mirror_ends (y : DSymData) (hv : ValidSet y.dset) (rep : Rep) (a b e : Nat)
    (ha : a ≤ y.dim) (hb : b ≤ y.dim) (hab : a ≠ b) (he : 1 ≤ e ∧ e ≤ y.size)
    (hloop : y.dset.opU b e = e) :
    ∃ k' e', opposite ⟨y, rep⟩ a b e = .ok (k', e') ∧ (k' = a ∨ k' = b) ∧ (1 ≤ e' ∧ e' ≤ y.size) ∧
      y.dset.opU k' e' = e' ∧ Orb2 y.dset a b e e' ∧ (k', e') ≠ (b, e) ∧
      opposite ⟨y, rep⟩ (a + b - k') k' e' = .ok (b, e) :=
  opposite_spec hv rep ha hb hab he hloop

example : ValidSet exData.dset ∧ exData.dset.opU 1 1 = 1 := ⟨exData_valid.set, by decide +kernel⟩

/-- **the boundary tracing is exact (M1, unconditional).**  On every valid 2D symbol, in either
    representation, `trace_boundary` returns — no panic, no fuel exhaustion — and the corners of
    all returned boundary components together are, as a multiset, exactly the branching numbers
    > 1 of the 2-orbits with a mirror: every mirror corner is collected exactly once.
    (The walk `phi = rho ∘ tau` on boundary darts: two fixed-point-free involutions, so a trace
    closes up at its own start and never meets a mirror end twice; every mirror end is marked
    once, #mirror ends = #orbits with a mirror, and every such orbit is read by a marked dart.) -/
theorem trace_boundary_corners_exact (y : DSymData) (h : ValidSym y) (hdim : y.dim = 2) (rep : Rep) :
    ∃ bnds, traceBoundary ⟨y, rep⟩ = .ok bnds ∧ bnds.flatten.Perm (cornersOf (typesOf y)) :=
  traceBoundary_corners h hdim rep

example : ValidSym exData ∧ exData.dim = 2 := ⟨exData_valid, by decide +kernel⟩

/-- what the decidable monitor `D2.genusMonitor` (implied by `D2.symbolExact`, which the driver
    evaluates on every explored symbol) adds to the theorems above to make the model's orbifold
    symbol exact: it is defined, its cones are the cone census, the corners of all its boundary
    components together are the corner census, `2·handles + crosscaps` is
    `2 − χ_top − #boundaries` (no loss in `x / 2`), and it is closed without cross-cap exactly
    when the D-symbol is oriented. -/
theorem symbolExact_sound (s : Sym) (g : Good2d s) (hmon : genusMonitor s = true) :
    ∃ o, SymbolExact s o :=
  symbolExact_of_genus g hmon

example : genusMonitor ex632 = true ∧ symbolExact ex632 = true ∧ symbolExact ex332 = true := by
  decide +kernel

/-- the monitor evaluated by the driver implies the premise of the conditional theorems -/
theorem symbolExact_implies_genusMonitor (s : Sym) (hex : symbolExact s = true) :
    genusMonitor s = true :=
  genus_of_symbolExact hex

/-- **Gauss–Bonnet for the model, under the parity monitor**: K = 2·χ(orbifold symbol), χ the
    Spec's `orbifoldChi` (`chiQ`) of the model's own orbifold symbol.  The only premise is
    `D2.parityMonitor`: an *orientable* symbol has an even `2 − χ_top − #boundaries`, so that the
    `x / 2` handles of the code lose nothing (implied by `genusMonitor`, hence by `symbolExact`,
    which the driver evaluates on every explored symbol); everything else — cone census,
    correctness of the boundary tracing, edge count — is a theorem. -/
theorem gauss_bonnet_conditional (s : Sym) (g : Good2d s) (hmon : parityMonitor s = true) :
    ∃ K o, curvature s = .ok K ∧ orbifoldSymbol s = .ok o ∧ K.toRat = 2 * chiQ (orbOf o) := by
  obtain ⟨o, hx⟩ := symbolCensus_of_parity g hmon
  obtain ⟨K, hK, hv⟩ := gauss_bonnet_census g hx
  exact ⟨K, o, hK, hx.sym, hv⟩

example : parityMonitor ex632 = true := by decide +kernel

/-- **Gauss–Bonnet for non-orientable symbols, unconditionally**: whenever `orbifold_symbol`
    answers a symbol with cross-caps (`x…`), the curvature is twice its Euler characteristic. -/
theorem gauss_bonnet_nonorientable (s : Sym) (g : Good2d s) (o : OrbSym)
    (hos : orbifoldSymbol s = .ok o) (hno : o.orientable = false) :
    ∃ K, curvature s = .ok K ∧ K.toRat = 2 * chiQ (orbOf o) := by
  obtain ⟨K, o', hK, ho', hv⟩ := gauss_bonnet_conditional s g (parity_of_nonorientable g hos hno)
  rw [hos] at ho'
  cases ho'
  exact ⟨K, hK, hv⟩

/-- **the Euler characteristic of a closed orientable symbol is even.**  For an oriented symbol
    (loopless and bipartite) the three products s1∘s0, s2∘s1, s0∘s2 permute the black chambers,
    their product is the identity, and their cycles are the (0,1)-, (1,2)-, (0,2)-orbits; with
    sign π = (−1)^(n − #cycles) the value F − E + V = #orbits − n of the model's
    `euler_characteristic` is even, and `trace_boundary` returns no boundary component. -/
theorem chi_even_closed_orientable (y : DSymData) (h : ValidSym y) (hdim : y.dim = 2)
    (ho : y.view.isOriented = true) (rep : Rep) :
    Even (eulerCharacteristic ⟨y, rep⟩) ∧ traceBoundary ⟨y, rep⟩ = .ok [] := by
  refine ⟨chi_even_oriented h hdim ho rep, ?_⟩
  have hpin : y.view.PInvol := by rw [y.view_eq]; exact h.set.pinvol
  have hl := (((C02.isWeaklyOriented_iff_bipartite y.view hpin).2).1 ho).1
  apply traceBoundary_nil_of_loopless h hdim rep
  intro i d hi h1 h2 e
  have hop : y.view.op i d = some (y.dset.opU i d) := opSimple_eq_some.2 ⟨by show i ≤ y.dim; omega, h1, h2, rfl⟩
  exact hl i d (by show i ≤ y.dim; omega) h1 h2 (by rw [hop, e])

example : ValidSym exOriData ∧ exOriData.dim = 2 ∧ exOriData.view.isOriented = true :=
  ⟨exOriData_valid, by decide +kernel, by decide +kernel⟩

/-- **Gauss–Bonnet for closed orientable symbols, unconditionally**: on every oriented good 2D
    symbol on which `orbifold_symbol` answers (symbols `…`, `…o`, `…oo`, … without `*` and `x`),
    the curvature is twice the Euler characteristic of the orbifold named by the symbol. -/
theorem gauss_bonnet_closed_orientable (s : Sym) (g : Good2d s) (ho : s.view.isOriented = true)
    (o : OrbSym) (hos : orbifoldSymbol s = .ok o) :
    ∃ K, curvature s = .ok K ∧ K.toRat = 2 * chiQ (orbOf o) := by
  obtain ⟨K, o', hK, ho', hv⟩ := gauss_bonnet_conditional s g (parity_of_oriented g ho hos)
  rw [hos] at ho'
  cases ho'
  exact ⟨K, hK, hv⟩

example : Good2d exOri ∧ exOri.view.isOriented = true ∧ (orbifoldSymbol exOri).isOk = true :=
  ⟨exOri_good, by decide +kernel, by decide +kernel⟩

/-- the monitors: `symbolExact ⇒ genusMonitor ⇒ parityMonitor` -/
theorem monitors_chain (s : Sym) :
    (symbolExact s = true → genusMonitor s = true) ∧ (genusMonitor s = true → parityMonitor s = true) :=
  ⟨genus_of_symbolExact, parity_of_genus⟩

/-- **the third sentence of the property in the Spec's own terms, under the genus monitor**:
    `is_spherical` ⇔ K > 0 ∧ ¬ `SpecC08.bad` (model's orbifold symbol). -/
theorem isSpherical_iff_spec_conditional (s : Sym) (g : Good2d s) (hsz : 1 ≤ s.size)
    (hmon : genusMonitor s = true) :
    ∃ K o, curvature s = .ok K ∧ orbifoldSymbol s = .ok o ∧ K.toRat = 2 * chiQ (orbOf o) ∧
      isSpherical s = .ok (decide (0 < K.toRat) && !bad (orbOf o)) := by
  obtain ⟨o, hx⟩ := symbolExact_of_genus g hmon
  obtain ⟨K, hK, hv, hs⟩ := isSpherical_spec g hsz hx
  exact ⟨K, o, hK, hx.sym, hv, hs⟩

/-! ### 10. the orbifold symbol is invariant under renumbering and dualisation -/

/-- **the traces of `trace_boundary` are the boundary components.**  For every valid 2D symbol the
    run of `trace_boundary` is recorded by a list of closed boundary walks (start dart, length):
    one dart at every mirror end is marked, the marked darts are exactly the darts of these
    walks, and the returned list is — up to `sort` — `best_cyclic` of the corner words read along
    them.  Every valid dart lies, possibly reversed, on exactly one of these walks, and its own
    closed walk reads the same corner word up to rotation and reversal. -/
theorem trace_boundary_components (y : DSymData) (h : ValidSym y) (hdim : y.dim = 2) (rep : Rep) :
    ∃ bnds starts, traceBoundary ⟨y, rep⟩ = .ok bnds ∧ TraceRecord y bnds starts ∧
      (∀ δ, ValidDart y δ → ∃ p ∈ starts, ∃ k, k < p.2 ∧
        (δ = (phi y)^[k] p.1 ∨ δ = rho ((phi y)^[k] p.1)) ∧
        IsWalk y δ p.2 ∧ CycEq (seqOf y p.1 p.2) (seqOf y δ p.2)) := by
  obtain ⟨bnds, starts, hb, T⟩ := traceRecord_exists h hdim rep
  refine ⟨bnds, starts, hb, T, ?_⟩
  intro δ hδ
  obtain ⟨p, hp, k, hk, hrel⟩ := T.lookup hδ
  obtain ⟨w, hc⟩ := word_of_related h hdim (T.isWalk hp) hrel
  exact ⟨p, hp, k, hk, hrel, w, hc⟩

example : ValidSym exData ∧ exData.dim = 2 := ⟨exData_valid, by decide +kernel⟩

/-- **invariance under renumbering.**  If `b` is isomorphic to the good 2D symbol `a` in the
    sense of C03 (`IsIso`; in particular every renumbering, e.g. the library's `rebuild`) and
    `orbifold_symbol` answers `oa` on `a`, then it answers on `b` (either representation) a
    symbol `ob` with the same cones, the same orientability and handle / cross-cap count, and
    boundary components that agree with those of `oa` as a multiset of corner cycles modulo
    rotation and reversal (`BndsEq`) — in the Spec's terms `sameOrbifold oa ob`. -/
theorem orbifold_symbol_invariant_iso (a b : DSymData) (f : Nat → Nat) (iso : CanonP.IsIso f a b)
    (ra rb : Rep) (ga : Good2d ⟨a, ra⟩) (hb : ValidSym b) (oa : OrbSym)
    (ha : orbifoldSymbol ⟨a, ra⟩ = .ok oa) :
    ∃ ob, orbifoldSymbol ⟨b, rb⟩ = .ok ob ∧ ob.cones = oa.cones ∧ BndsEq oa.bnds ob.bnds ∧
      ob.orientable = oa.orientable ∧ ob.count = oa.count ∧
      sameOrbifold (orbOf oa) (orbOf ob) = true := by
  have m := mor_of_iso iso ga.valid hb ga.dim
  exact m.sameOrbifold ra rb ga.complete (iso_complete iso ga.valid hb ga.complete) ha

example : (orbifoldSymbol ex632).isOk = true := by decide +kernel

/-- **invariance under dualisation.**  The model of `derived::dual` returns a good 2D symbol `t`
    on which `orbifold_symbol` answers the same symbol in the same sense. -/
theorem orbifold_symbol_invariant_dual (s : DSymData) (rs rt : Rep) (g : Good2d ⟨s, rs⟩)
    (hsz : 1 ≤ s.size) (os : OrbSym) (hs : orbifoldSymbol ⟨s, rs⟩ = .ok os) :
    ∃ t ot, dual s = .ok t ∧ Good2d ⟨t, rt⟩ ∧ orbifoldSymbol ⟨t, rt⟩ = .ok ot ∧
      ot.cones = os.cones ∧ BndsEq os.bnds ot.bnds ∧ ot.orientable = os.orientable ∧
      ot.count = os.count ∧ sameOrbifold (orbOf os) (orbOf ot) = true := by
  obtain ⟨t, ht, gt, _⟩ := curvature_of_dual rs rt g hsz
  have m := mor_of_dual g.valid g.dim hsz ht
  obtain ⟨ot, h1, h2, h3, h4, h5, h6⟩ := m.sameOrbifold rs rt g.complete gt.complete hs
  exact ⟨t, ot, ht, gt, h1, h2, h3, h4, h5, h6⟩

example : Good2d ex632 ∧ 1 ≤ exData.size := ⟨ex632_good, by decide +kernel⟩

/-- the relation `BndsEq` between boundary lists is the Spec's `multisetEq cycEquiv`, and
    `cycEquiv` is "equal up to rotation and reversal" -/
theorem bndsEq_is_spec (X Y : List (List Nat)) (u w : List Nat) :
    (cycEquiv u w = true ↔ (u ~r w ∨ u.reverse ~r w)) ∧
    (BndsEq X Y → multisetEq cycEquiv X Y = true) :=
  ⟨cycEquiv_iff u w, multisetEq_of_bndsEq⟩

/-! ### 11. Gauss–Bonnet without a monitor -/

/-- **the capped surface of a weakly oriented symbol has an even Euler characteristic.**  On a
    valid weakly oriented 2D symbol, `χ_top + #boundary components` is even (χ_top the model's
    `euler_characteristic`, the boundary components those returned by `trace_boundary`).  Proof:
    the triangle darts (chamber, edge) together with one cap dart per mirror end — the boundary
    dart pointing in the direction given by `partial_orientation` — carry an oriented map: φ walks
    around the triangles (3-cycles) and along the boundary walks of `trace_boundary` (which are
    exactly the positive darts), α flips an edge (fixed-point-free involution), and φ·α rotates
    around the vertices, its cycles being the 2-orbits; sign(φ·α) = sign φ · sign α with
    sign π = (−1)^(n − #cycles) gives F + b + E + V even. -/
theorem chi_plus_boundaries_even (y : DSymData) (h : ValidSym y) (hdim : y.dim = 2)
    (hw : y.view.isWeaklyOriented = true) (rep : Rep) (bnds : List (List Nat))
    (hb : traceBoundary ⟨y, rep⟩ = .ok bnds) :
    Even (eulerCharacteristic ⟨y, rep⟩ + (bnds.length : Int)) :=
  D2.chi_plus_boundaries_even h hdim hw rep hb

example : ValidSym exData ∧ exData.dim = 2 ∧ exData.view.isWeaklyOriented = true :=
  ⟨exData_valid, by decide +kernel, by decide +kernel⟩

/-- **the parity monitor is a theorem**: it holds on every good 2D symbol on which
    `orbifold_symbol` answers (the `x / 2` handles of the code lose nothing). -/
theorem parity_monitor_holds (s : Sym) (g : Good2d s) (o : OrbSym) (hos : orbifoldSymbol s = .ok o) :
    parityMonitor s = true :=
  parityMonitor_holds g hos

/-- **Gauss–Bonnet for the model (first sentence of the property), without any monitor**: on
    every valid complete 2D symbol on which `orbifold_symbol` answers, the curvature is twice the
    Euler characteristic (the Spec's `orbifoldChi`, here `chiQ`) of the orbifold named by the
    model's orbifold symbol. -/
theorem gauss_bonnet (s : Sym) (g : Good2d s) (o : OrbSym) (hos : orbifoldSymbol s = .ok o) :
    ∃ K, curvature s = .ok K ∧
      K.toRat = 2 * chiQ ⟨o.cones, o.bnds, if o.orientable then o.count else 0,
                            if o.orientable then 0 else o.count⟩ := by
  obtain ⟨K, o', hK, ho', hv⟩ := gauss_bonnet_conditional s g (parityMonitor_holds g hos)
  rw [hos] at ho'
  cases ho'
  exact ⟨K, hK, hv⟩

/-! ### 12. the genus is not negative -/

/-- **multiplying by a transposition changes the number of cycles by exactly one** (`PermRee.z`:
    the number of classes of `SameCycle`, fixed points included). -/
theorem transposition_changes_cycles_by_one {β : Type} [Fintype β] [DecidableEq β]
    (π : Equiv.Perm β) (a b : β) (hne : a ≠ b) :
    PermRee.z (π * Equiv.swap a b) = PermRee.z π + 1 ∨ PermRee.z (π * Equiv.swap a b) + 1 = PermRee.z π :=
  PermRee.z_swap π hne

/-- **Ree's inequality for two generators**: if no proper equivalence relation is invariant under
    the permutations φ and α of a finite set of n points (the group they generate is transitive),
    then z(φ) + z(α) + z(φα) ≤ n + 2 — the genus of a connected oriented map is not negative. -/
theorem ree_inequality {β : Type} [Fintype β] [DecidableEq β] (φ α : Equiv.Perm β)
    (hconn : ∀ t : Setoid β, (∀ x, t x (φ x)) → (∀ x, t x (α x)) → ∀ x y, t x y) :
    PermRee.z φ + PermRee.z α + PermRee.z (φ * α) ≤ Fintype.card β + 2 :=
  PermRee.ree φ α hconn

/-- **χ of the capped surface is at most 2**: on a connected valid weakly oriented 2D symbol
    `χ_top + #boundary components ≤ 2` (Ree's inequality for the oriented map of
    `chi_plus_boundaries_even`, which is connected because the symbol is). -/
theorem chi_plus_boundaries_le_two (y : DSymData) (h : ValidSym y) (hdim : y.dim = 2)
    (hw : y.view.isWeaklyOriented = true) (hc : y.view.isConnected = true) (rep : Rep)
    (bnds : List (List Nat)) (hb : traceBoundary ⟨y, rep⟩ = .ok bnds) :
    eulerCharacteristic ⟨y, rep⟩ + (bnds.length : Int) ≤ 2 :=
  D2.chi_plus_boundaries_le_two h hdim hw hc rep hb

example : exData.view.isConnected = true := by decide +kernel

/-- **a connected symbol that is not oriented has χ_top ≤ 1**: its oriented cover is connected
    (C05), closed, oriented and has twice the Euler characteristic (from `curvature_orientedCover`,
    `oriented_cover_census` and `curvature_euler_formula`). -/
theorem chi_le_one_of_not_oriented (y : DSymData) (rep : Rep) (g : Good2d ⟨y, rep⟩) (hsz : 1 ≤ y.size)
    (hc : y.view.isConnected = true) (hno : y.view.isOriented = false) :
    eulerCharacteristic ⟨y, rep⟩ ≤ 1 :=
  D2.chi_le_one_of_not_oriented g hsz hc hno

example : Good2d ex632 ∧ 1 ≤ exData.size ∧ exData.view.isOriented = false :=
  ⟨ex632_good, by decide +kernel, by decide +kernel⟩

/-- **the genus monitor is a theorem for connected symbols**: whenever `orbifold_symbol` answers a
    connected good 2D symbol, `2 − χ_top − #boundaries` is even if the symbol is orientable, and the
    answer is closed without cross-cap exactly when the D-symbol is oriented. -/
theorem genus_monitor_holds (s : Sym) (g : Good2d s) (hsz : 1 ≤ s.size)
    (hc : s.view.isConnected = true) (o : OrbSym) (hos : orbifoldSymbol s = .ok o) :
    genusMonitor s = true :=
  genusMonitor_holds g hsz hc hos

/-- **`orbifold_symbol` answers** every connected good 2D symbol that is weakly oriented or has no
    mirror: the branch `2 − χ_top − #boundaries < 0` is not taken. -/
theorem orbifold_symbol_answers (s : Sym) (g : Good2d s) (hsz : 1 ≤ s.size)
    (hc : s.view.isConnected = true)
    (hcase : s.view.isWeaklyOriented = true ∨ s.view.isLoopless = true) :
    ∃ o, orbifoldSymbol s = .ok o :=
  orbifoldSymbol_answers g hsz hc hcase

/-- **the third sentence of the property in the Spec's own terms, without a monitor**: on every
    connected good 2D symbol on which `orbifold_symbol` answers, `is_spherical` ⇔ K > 0 ∧ ¬
    `SpecC08.bad` of the model's orbifold symbol, and K is twice its `orbifoldChi`. -/
theorem isSpherical_iff_spec (s : Sym) (g : Good2d s) (hsz : 1 ≤ s.size)
    (hc : s.view.isConnected = true) (o : OrbSym) (hos : orbifoldSymbol s = .ok o) :
    ∃ K, curvature s = .ok K ∧ K.toRat = 2 * chiQ (orbOf o) ∧
      isSpherical s = .ok (decide (0 < K.toRat) && !bad (orbOf o)) := by
  obtain ⟨K, o', hK, ho', hv, hs⟩ :=
    isSpherical_iff_spec_conditional s g hsz (genusMonitor_holds g hsz hc hos)
  rw [hos] at ho'
  cases ho'
  exact ⟨K, hK, hv, hs⟩

/-- **a connected symbol that is not weakly oriented has `χ_top + #boundary components ≤ 1`.**
    The orientation double cover of the capped surface is an oriented map for every valid 2D
    symbol: darts are the lifted triangle darts (chamber, rotation sense, edge) and all valid
    boundary darts; it is connected when the symbol is connected and not weakly oriented (else a
    proper 2-colouring of the chambers would exist); it has 2F triangles and, for every boundary
    walk of `trace_boundary`, the walk and its reverse as caps; and the reflection `α ι` (ι the deck
    transformation) maps no vertex rotation to itself (two fixed-point-free involutions with
    product σ, `Dihedral.loop_of_reflection`), so every 2-orbit carries at least two vertices.
    Ree's inequality gives 2(χ_top + b) ≤ 2. -/
theorem chi_plus_boundaries_le_one (y : DSymData) (h : ValidSym y) (hdim : y.dim = 2)
    (hc : y.view.isConnected = true) (hnw : y.view.isWeaklyOriented = false) (rep : Rep)
    (bnds : List (List Nat)) (hb : traceBoundary ⟨y, rep⟩ = .ok bnds) :
    eulerCharacteristic ⟨y, rep⟩ + (bnds.length : Int) ≤ 1 :=
  D2.chi_plus_boundaries_le_one h hdim hc hnw rep hb

/-- **`orbifold_symbol` answers every connected good 2D symbol**: its panic branch
    `2 − χ_top − #boundaries < 0` is never taken. -/
theorem orbifold_symbol_total (s : Sym) (g : Good2d s) (hc : s.view.isConnected = true) :
    ∃ o, orbifoldSymbol s = .ok o :=
  orbifoldSymbol_total g hc

/-- **a cross-cap for every connected symbol that is not weakly oriented**: the answer of
    `orbifold_symbol` is non-orientable with at least one cross-cap (`…x…`). -/
theorem crosscap_of_not_weakly_oriented (s : Sym) (g : Good2d s) (hc : s.view.isConnected = true)
    (hnw : s.view.isWeaklyOriented = false) (o : OrbSym) (hos : orbifoldSymbol s = .ok o) :
    o.orientable = false ∧ 1 ≤ o.count :=
  crosscap_of_not_weaklyOriented g hc hnw hos

/-- **all three sentences of the property for every connected valid complete 2D symbol, with no
    hypothesis about the answers and no monitor**: `orbifold_symbol` answers, the curvature is
    twice the Euler characteristic of the orbifold it names, and `is_spherical` ⇔ K > 0 ∧ ¬bad
    (with `geometry_trichotomy`: euclidean ⇔ K = 0, hyperbolic ⇔ K < 0; invariance under
    renumbering, dual and covers: section 7 and 10). -/
theorem consistent_total (s : Sym) (g : Good2d s) (hsz : 1 ≤ s.size)
    (hc : s.view.isConnected = true) :
    ∃ K o, curvature s = .ok K ∧ orbifoldSymbol s = .ok o ∧ K.toRat = 2 * chiQ (orbOf o) ∧
      isSpherical s = .ok (decide (0 < K.toRat) && !bad (orbOf o)) := by
  obtain ⟨o, hos⟩ := orbifoldSymbol_total g hc
  obtain ⟨K, hK, hv, hs⟩ := isSpherical_iff_spec s g hsz hc o hos
  exact ⟨K, o, hK, hos, hv, hs⟩

example : ex632.view.isConnected = true ∧ ex632.view.isWeaklyOriented = true := by decide +kernel

/-! ### 13. the returned string

Sections 9–12 speak about the structured answer `o : OrbSym` of `orbifold_symbol` (before
rendering).  What the Rust function returns is the string `o.render`; this section ties the two:
the Spec's own parser reads the string back as the same orbifold. -/

/-- **parse ∘ render**: for every structured answer whose orders are ≥ 1, `SpecC08.parseSymbol`
    reads the printed string — digits for orders below 10, parenthesised decimal numbers from 10
    on, `*` before every boundary component, `o`/`x` repeated — back as the same boundary
    components, handles and cross-caps and the same cones; only the strings `1`, `1*`, `1x`
    (printed for an otherwise empty `""`, `"*"`, `"x"`) are read with one cone of order 1, which is
    no singular point.  For all orders, all lengths. -/
theorem parse_render (o : OrbSym) (hwf : ∀ v ∈ o.cones ++ o.bnds.flatten, 1 ≤ v) :
    ∃ o', parseSymbol o.render = some o' ∧ o'.bnds = o.bnds ∧
      o'.handles = (orbOf o).handles ∧ o'.caps = (orbOf o).caps ∧
      (o'.cones = o.cones ∨ (o.cones = [] ∧ o'.cones = [1])) :=
  D2.parse_render o hwf

example : parseSymbol (OrbSym.render ⟨[12, 3], [[2, 10], []], true, 1⟩) =
    some ⟨[12, 3], [[2, 10], []], 1, 0⟩ := by decide +kernel

/-- **the returned string names the orbifold of the structured answer**: whatever
    `orbifold_symbol` answers on a good 2D symbol has orders ≥ 1, the string function returns
    `o.render`, and the orbifold `o'` the Spec reads from it has the Euler characteristic, the
    `bad` flag and the `sameOrbifold` class of `orbOf o`. -/
theorem returned_string_names_the_orbifold (s : Sym) (g : Good2d s) (o : OrbSym)
    (hos : orbifoldSymbol s = .ok o) :
    (∀ v ∈ o.cones ++ o.bnds.flatten, 1 ≤ v) ∧ orbifoldSymbolString s = .ok o.render ∧
    ∃ o', parseSymbol o.render = some o' ∧ chiQ o' = chiQ (orbOf o) ∧ bad o' = bad (orbOf o) ∧
      (∀ x, sameOrbifold o' x = sameOrbifold (orbOf o) x) ∧
      (∀ x, sameOrbifold x o' = sameOrbifold x (orbOf o)) :=
  ⟨degrees_ge_one g hos, (string_read g hos).1, (string_read g hos).2⟩

/-- **the property's first and third sentence about the returned string**: for every connected
    valid complete 2D symbol, `orbifold_symbol` returns a string, the Spec's parser reads an
    orbifold `o'` from it, the curvature is twice the Euler characteristic of `o'`, and
    `is_spherical` ⇔ K > 0 ∧ ¬ bad(`o'`).  No monitor, no hypothesis about the answers. -/
theorem consistent_total_string (s : Sym) (g : Good2d s) (hsz : 1 ≤ s.size)
    (hc : s.view.isConnected = true) :
    ∃ K str o', curvature s = .ok K ∧ orbifoldSymbolString s = .ok str ∧
      parseSymbol str = some o' ∧ K.toRat = 2 * chiQ o' ∧
      isSpherical s = .ok (decide (0 < K.toRat) && !bad o') := by
  obtain ⟨K, o, hK, hos, hv, hs⟩ := consistent_total s g hsz hc
  obtain ⟨hstr, o', hp, e1, e2, _, _⟩ := string_read g hos
  exact ⟨K, o.render, o', hK, hstr, hp, by rw [e1]; exact hv, by rw [e2]; exact hs⟩

/-- **invariance under renumbering, for connected symbols, without a hypothesis about the
    answers, structured and as strings**: `orbifold_symbol` answers on both symbols, the
    structured answers agree as in `orbifold_symbol_invariant_iso`, and the orbifolds the Spec
    reads from the two returned strings are the same (`sameOrbifold`). -/
theorem orbifold_symbol_invariant_iso_total (a b : DSymData) (f : Nat → Nat)
    (iso : CanonP.IsIso f a b) (ra rb : Rep) (ga : Good2d ⟨a, ra⟩) (hb : ValidSym b)
    (hc : a.view.isConnected = true) :
    ∃ oa ob, orbifoldSymbol ⟨a, ra⟩ = .ok oa ∧ orbifoldSymbol ⟨b, rb⟩ = .ok ob ∧
      ob.cones = oa.cones ∧ BndsEq oa.bnds ob.bnds ∧ ob.orientable = oa.orientable ∧
      ob.count = oa.count ∧
      ∃ oa' ob', orbifoldSymbolString ⟨a, ra⟩ = .ok oa.render ∧
        orbifoldSymbolString ⟨b, rb⟩ = .ok ob.render ∧ parseSymbol oa.render = some oa' ∧
        parseSymbol ob.render = some ob' ∧ sameOrbifold oa' ob' = true := by
  obtain ⟨oa, ha⟩ := orbifoldSymbol_total ga hc
  obtain ⟨ob, hob, h1, h2, h3, h4, h5⟩ := orbifold_symbol_invariant_iso a b f iso ra rb ga hb oa ha
  have gb : Good2d ⟨b, rb⟩ := (curvature_of_iso iso ra rb ga hb).1
  obtain ⟨sa, oa', pa, _, _, ea, _⟩ := string_read ga ha
  obtain ⟨sb, ob', pb, _, _, _, eb⟩ := string_read gb hob
  refine ⟨oa, ob, ha, hob, h1, h2, h3, h4, oa', ob', sa, sb, pa, pb, ?_⟩
  rw [ea, eb]; exact h5

/-- **invariance under dualisation, for connected symbols, without a hypothesis about the
    answers, structured and as strings.** -/
theorem orbifold_symbol_invariant_dual_total (s : DSymData) (rs rt : Rep) (g : Good2d ⟨s, rs⟩)
    (hsz : 1 ≤ s.size) (hc : s.view.isConnected = true) :
    ∃ t os ot, dual s = .ok t ∧ Good2d ⟨t, rt⟩ ∧ orbifoldSymbol ⟨s, rs⟩ = .ok os ∧
      orbifoldSymbol ⟨t, rt⟩ = .ok ot ∧ ot.cones = os.cones ∧ BndsEq os.bnds ot.bnds ∧
      ot.orientable = os.orientable ∧ ot.count = os.count ∧
      ∃ os' ot', orbifoldSymbolString ⟨s, rs⟩ = .ok os.render ∧
        orbifoldSymbolString ⟨t, rt⟩ = .ok ot.render ∧ parseSymbol os.render = some os' ∧
        parseSymbol ot.render = some ot' ∧ sameOrbifold os' ot' = true := by
  obtain ⟨os, hs⟩ := orbifoldSymbol_total g hc
  obtain ⟨t, ot, ht, gt, hot, h1, h2, h3, h4, h5⟩ := orbifold_symbol_invariant_dual s rs rt g hsz os hs
  obtain ⟨ss, os', ps, _, _, ea, _⟩ := string_read g hs
  obtain ⟨st, ot', pt, _, _, _, eb⟩ := string_read gt hot
  refine ⟨t, os, ot, ht, gt, hs, hot, h1, h2, h3, h4, os', ot', ss, st, ps, pt, ?_⟩
  rw [ea, eb]; exact h5

/-! ### 14. symbols that are not connected

The property quantifies over connected D-sets; `curvature`, the geometry predicates and
`orbifold_symbol` nevertheless accept every complete 2D symbol.  This section says exactly what
they do on the others.  `IsUnion f g a b s` (Proofs/Delaney2dUnion.lean): `s` is the disjoint
union of the images of the valid 2D symbols `a` and `b` under injective chamber maps that commute
with the operations and preserve the adjacent branching numbers.  `cappedChi s` =
`euler_characteristic(s) + trace_boundary(s).len()`, the `chi` of `orbifold_symbol`;
`eulerGenus o` = `2·#o` resp. `#x` of an answer. -/

/-- **the curvature is additive over components** (for all inputs): if the good 2D symbol `s` is
    the disjoint union of `a` and `b`, both parts are good 2D symbols, all three curvatures are
    defined and K(s) = K(a) + K(b). -/
theorem curvature_additive (f g : Nat → Nat) (a b s : DSymData) (u : IsUnion f g a b s)
    (rs ra rb : Rep) (gs : Good2d ⟨s, rs⟩) :
    Good2d ⟨a, ra⟩ ∧ Good2d ⟨b, rb⟩ ∧
    ∃ K Ka Kb, curvature ⟨s, rs⟩ = .ok K ∧ curvature ⟨a, ra⟩ = .ok Ka ∧ curvature ⟨b, rb⟩ = .ok Kb ∧
      K.toRat = Ka.toRat + Kb.toRat :=
  ⟨(u.good_parts gs ra rb).1, (u.good_parts gs ra rb).2, u.curvature_add gs ra rb⟩

example : IsUnion id (· + 4) ex3xData ex1xData exTwoPlanesData ∧
    Good2d ⟨exTwoPlanesData, .partialSym⟩ ∧ exTwoPlanesData.view.isConnected = false :=
  ⟨exTwoPlanes_union, exTwoPlanes_good _, exTwoPlanes_answers.1⟩

/-- **the exact condition under which `orbifold_symbol` answers** (every good 2D symbol, connected
    or not): it never returns an error; it answers iff `cappedChi ≤ 2` and panics (capacity overflow
    of `vec!["o"; (2 − chi) as usize]`) iff `cappedChi > 2`; an answer has the sorted cone census,
    the traced boundary components, is orientable iff the symbol is weakly oriented, and its Euler
    genus is `2 − cappedChi` (nothing is lost in `x / 2`). -/
theorem orbifold_symbol_answers_iff (s : Sym) (g : Good2d s) :
    ((∃ o, orbifoldSymbol s = .ok o) ↔ cappedChi s ≤ 2) ∧
    (orbifoldSymbol s = .panic ↔ 2 < cappedChi s) ∧
    (∀ o, orbifoldSymbol s = .ok o →
      o.cones = sortDescNat (conesOf (typesOf s.data)) ∧ traceBoundary s = .ok o.bnds ∧
      o.orientable = s.view.isWeaklyOriented ∧ (eulerGenus o : Int) = 2 - cappedChi s) :=
  orbifoldSymbol_iff g

example : Good2d ⟨exTwoDiscsData, .partialSym⟩ ∧ orbifoldSymbol ⟨exTwoDiscsData, .partialSym⟩ = .panic ∧
    Good2d ⟨exTwoPlanesData, .partialSym⟩ ∧
    orbifoldSymbol ⟨exTwoPlanesData, .partialSym⟩ = .ok ⟨[3], [], false, 0⟩ :=
  ⟨exTwoDiscs_good _, exTwoDiscs_answers.2.2.2.1, exTwoPlanes_good _, exTwoPlanes_answers.2.2.2.1⟩

/-- **everything `orbifold_symbol` looks at is additive over components**: `cappedChi`, the Euler
    characteristic F − E + V, the number of traced boundary components (and, class by class modulo
    rotation and reversal, the boundary corner cycles), the cone and corner census; and a union is
    weakly oriented iff both parts are. -/
theorem capped_euler_additive (f g : Nat → Nat) (a b s : DSymData) (u : IsUnion f g a b s)
    (rs ra rb : Rep) :
    cappedChi ⟨s, rs⟩ = cappedChi ⟨a, ra⟩ + cappedChi ⟨b, rb⟩ ∧
    eulerCharacteristic ⟨s, rs⟩ = eulerCharacteristic ⟨a, ra⟩ + eulerCharacteristic ⟨b, rb⟩ ∧
    (∃ bndsS bndsA bndsB, traceBoundary ⟨s, rs⟩ = .ok bndsS ∧ traceBoundary ⟨a, ra⟩ = .ok bndsA ∧
      traceBoundary ⟨b, rb⟩ = .ok bndsB ∧ bndsS.length = bndsA.length + bndsB.length ∧
      (∀ (P : List Nat → Bool), (∀ x y, CycEq x y → P x = P y) →
        bndsS.countP P = bndsA.countP P + bndsB.countP P) ∧
      bndsS.flatten.Perm (bndsA.flatten ++ bndsB.flatten)) ∧
    (conesOf (typesOf s)).Perm (conesOf (typesOf a) ++ conesOf (typesOf b)) ∧
    (cornersOf (typesOf s)).Perm (cornersOf (typesOf a) ++ cornersOf (typesOf b)) ∧
    s.view.isWeaklyOriented = (a.view.isWeaklyOriented && b.view.isWeaklyOriented) ∧
    s.size = a.size + b.size :=
  ⟨u.cappedChi_add rs ra rb, u.euler_add rs ra rb, u.bnds rs ra rb, u.cones_perm, u.corners_perm,
   u.weaklyOriented, u.size_eq⟩

example : IsUnion id (· + 1) exDiscData exDiscData exTwoDiscsData := exTwoDiscs_union

/-- **a connected symbol has `cappedChi ≤ 2`** (`≤ 1` if it is not weakly oriented), and
    `cappedChi = 2 − eulerGenus` of its answer.  So by additivity a symbol with k components
    answers iff the Euler genera of its components add up to at least 2(k − 1). -/
theorem capped_euler_connected (s : Sym) (g : Good2d s) (hc : s.view.isConnected = true) :
    cappedChi s ≤ 2 ∧ (s.view.isWeaklyOriented = false → cappedChi s ≤ 1) ∧
    ∃ o, orbifoldSymbol s = .ok o ∧ cappedChi s = 2 - (eulerGenus o : Int) := by
  obtain ⟨o, ho⟩ := orbifoldSymbol_total g hc
  exact ⟨(cappedChi_connected g hc).1, (cappedChi_connected g hc).2, o, ho, eulerGenus_of_answer g ho⟩

example : ex632.view.isConnected = true := by decide +kernel

/-- **`orbifold_symbol` on a disjoint union**: it answers iff `cappedChi a + cappedChi b ≤ 2` and
    panics otherwise; the answer has the cones of both parts, their boundary components (as a
    multiset modulo rotation and reversal), is orientable iff both parts are weakly oriented and
    has Euler genus `2 − cappedChi a − cappedChi b`. -/
theorem orbifold_symbol_union (f g : Nat → Nat) (a b s : DSymData) (u : IsUnion f g a b s)
    (rs ra rb : Rep) (gs : Good2d ⟨s, rs⟩) :
    ((∃ o, orbifoldSymbol ⟨s, rs⟩ = .ok o) ↔ cappedChi ⟨a, ra⟩ + cappedChi ⟨b, rb⟩ ≤ 2) ∧
    (orbifoldSymbol ⟨s, rs⟩ = .panic ↔ 2 < cappedChi ⟨a, ra⟩ + cappedChi ⟨b, rb⟩) ∧
    (∀ o, orbifoldSymbol ⟨s, rs⟩ = .ok o →
      o.cones.Perm (conesOf (typesOf a) ++ conesOf (typesOf b)) ∧
      (∃ bndsA bndsB, traceBoundary ⟨a, ra⟩ = .ok bndsA ∧ traceBoundary ⟨b, rb⟩ = .ok bndsB ∧
        o.bnds.length = bndsA.length + bndsB.length ∧
        (∀ (P : List Nat → Bool), (∀ x y, CycEq x y → P x = P y) →
          o.bnds.countP P = bndsA.countP P + bndsB.countP P)) ∧
      o.orientable = (a.view.isWeaklyOriented && b.view.isWeaklyOriented) ∧
      (eulerGenus o : Int) = 2 - (cappedChi ⟨a, ra⟩ + cappedChi ⟨b, rb⟩)) :=
  u.orbifoldSymbol_union gs ra rb

example : IsUnion id (· + 4) ex3xData ex1xData exTwoPlanesData ∧ Good2d ⟨exTwoPlanesData, .partialSym⟩ :=
  ⟨exTwoPlanes_union, exTwoPlanes_good _⟩

/-- **the union of two connected symbols** in terms of the answers `oa`, `ob` on the parts (which
    exist by `orbifold_symbol_total`): `orbifold_symbol` answers the union iff
    `eulerGenus oa + eulerGenus ob ≥ 2` — it panics when both parts are spheres or discs-with-holes
    (genus 0), or one is and the other is a projective plane or Möbius band with holes (genus 1) —
    and the answer then has Euler genus `eulerGenus oa + eulerGenus ob − 2`. -/
theorem orbifold_symbol_union_of_connected (f g : Nat → Nat) (a b s : DSymData)
    (u : IsUnion f g a b s) (rs ra rb : Rep) (gs : Good2d ⟨s, rs⟩)
    (hca : a.view.isConnected = true) (hcb : b.view.isConnected = true) :
    ∃ oa ob, orbifoldSymbol ⟨a, ra⟩ = .ok oa ∧ orbifoldSymbol ⟨b, rb⟩ = .ok ob ∧
      ((∃ o, orbifoldSymbol ⟨s, rs⟩ = .ok o) ↔ 2 ≤ eulerGenus oa + eulerGenus ob) ∧
      (orbifoldSymbol ⟨s, rs⟩ = .panic ↔ eulerGenus oa + eulerGenus ob < 2) ∧
      (∀ o, orbifoldSymbol ⟨s, rs⟩ = .ok o → eulerGenus o + 2 = eulerGenus oa + eulerGenus ob) := by
  obtain ⟨ga, gb⟩ := u.good_parts gs ra rb
  obtain ⟨oa, hoa⟩ := orbifoldSymbol_total ga hca
  obtain ⟨ob, hob⟩ := orbifoldSymbol_total gb hcb
  have ea := eulerGenus_of_answer ga hoa
  have eb := eulerGenus_of_answer gb hob
  obtain ⟨h1, h2, h3⟩ := u.orbifoldSymbol_union gs ra rb
  refine ⟨oa, ob, hoa, hob, ?_, ?_, ?_⟩
  · rw [h1, ea, eb]; omega
  · rw [h2, ea, eb]; omega
  · intro o ho
    have := (h3 o ho).2.2.2
    rw [ea, eb] at this
    omega

example : IsUnion id (· + 4) ex3xData ex1xData exTwoPlanesData ∧
    ex3xData.view.isConnected = true ∧ ex1xData.view.isConnected = true := by
  refine ⟨exTwoPlanes_union, ?_, ?_⟩ <;> decide +kernel

/-- **`orbifold_symbol_total` needs connectedness**: on the union of two discs `*332` (a good
    complete 2D symbol) the curvature is 1/3, `is_spherical` answers `true`, and `orbifold_symbol`
    panics — `cappedChi` = 2 + 2. -/
theorem orbifold_symbol_panics_on_two_discs :
    Good2d ⟨exTwoDiscsData, .partialSym⟩ ∧ exTwoDiscsData.view.isConnected = false ∧
    curvature ⟨exTwoDiscsData, .partialSym⟩ = .ok ⟨1, 3⟩ ∧
    isSpherical ⟨exTwoDiscsData, .partialSym⟩ = .ok true ∧
    orbifoldSymbol ⟨exTwoDiscsData, .partialSym⟩ = .panic ∧
    orbifoldSymbolString ⟨exTwoDiscsData, .partialSym⟩ = .panic ∧
    cappedChi ⟨exTwoDiscsData, .partialSym⟩ = 4 := by
  obtain ⟨h1, h2, h3, h4, h5, h6⟩ := exTwoDiscs_answers
  refine ⟨exTwoDiscs_good _, h1, h2, h3, h4, h5, ?_⟩
  have hd := eulerGenus_of_answer (exDisc_good .partialSym) h6
  have := exTwoDiscs_union.cappedChi_add .partialSym .partialSym .partialSym
  rw [this, hd]
  decide

/-- **the genus monitor without connectedness**: whenever `orbifold_symbol` answers `o` on a good
    2D symbol, `genusMonitor` holds iff the answer is not a bare cone list (no boundary component,
    non-orientable, zero cross-caps).  For connected symbols this is `genus_monitor_holds`. -/
theorem genus_monitor_iff (s : Sym) (g : Good2d s) (o : OrbSym) (hos : orbifoldSymbol s = .ok o) :
    genusMonitor s = true ↔ ¬ (o.orientable = false ∧ o.bnds = [] ∧ o.count = 0) :=
  genusMonitor_iff g hos

example : Good2d ⟨exTwoPlanesData, .partialSym⟩ ∧
    orbifoldSymbol ⟨exTwoPlanesData, .partialSym⟩ = .ok ⟨[3], [], false, 0⟩ :=
  ⟨exTwoPlanes_good _, exTwoPlanes_answers.2.2.2.1⟩

/-- **all three sentences for every valid complete 2D symbol, connected or not** (the sharpest form
    that holds without connectedness): the curvature is defined; `is_spherical` ⇔ K > 0 and the
    cone/corner census is not "one, or two different"; `orbifold_symbol` panics iff `cappedChi > 2`
    and otherwise answers an `o` with K = 2·χ(orbOf o) (Gauss–Bonnet), and — unless `o` is a bare
    cone list printed for a symbol that is not weakly oriented — `is_spherical` ⇔ K > 0 ∧ ¬bad(o). -/
theorem consistent_any (s : Sym) (g : Good2d s) (hsz : 1 ≤ s.size) :
    ∃ K, curvature s = .ok K ∧
      isSpherical s = .ok (decide (0 < K.toRat) && !badCensus s.data) ∧
      ((2 < cappedChi s ∧ orbifoldSymbol s = .panic) ∨
       (cappedChi s ≤ 2 ∧ ∃ o, orbifoldSymbol s = .ok o ∧ K.toRat = 2 * chiQ (orbOf o) ∧
         (¬ (o.orientable = false ∧ o.bnds = [] ∧ o.count = 0) →
           isSpherical s = .ok (decide (0 < K.toRat) && !bad (orbOf o))))) := by
  obtain ⟨K, hK, hs⟩ := isSpherical_iff_good g hsz
  refine ⟨K, hK, hs, ?_⟩
  obtain ⟨h1, h2, _⟩ := orbifoldSymbol_iff g
  by_cases hle : cappedChi s ≤ 2
  · right
    obtain ⟨o, ho⟩ := h1.2 hle
    obtain ⟨K', hK', hv⟩ := gauss_bonnet s g o ho
    rw [hK] at hK'
    cases hK'
    refine ⟨hle, o, ho, hv, ?_⟩
    intro hne
    obtain ⟨K'', o', hK'', ho', _, hsp⟩ :=
      isSpherical_iff_spec_conditional s g hsz ((genusMonitor_iff g ho).2 hne)
    rw [hK] at hK''
    cases hK''
    rw [ho] at ho'
    cases ho'
    exact hsp
  · left
    exact ⟨by omega, h2.2 (by omega)⟩

example : Good2d ⟨exTwoPlanesData, .partialSym⟩ ∧ 1 ≤ (⟨exTwoPlanesData, .partialSym⟩ : Sym).size :=
  ⟨exTwoPlanes_good _, by decide +kernel⟩

/-- **`isSpherical_iff_spec` and `genus_monitor_holds` need connectedness**: on the union of the
    projective planes `3x` and `1x` `orbifold_symbol` answers the tear-drop `3` (Euler genus
    1 + 1 − 2 = 0), Gauss–Bonnet holds (K = 8/3 = 2·(4/3)), `is_spherical` answers `true` (the
    oriented cover has the cones 3, 3) although the answer is `bad`, and the genus monitor fails. -/
theorem spherical_spec_fails_on_two_planes :
    Good2d ⟨exTwoPlanesData, .partialSym⟩ ∧ exTwoPlanesData.view.isConnected = false ∧
    curvature ⟨exTwoPlanesData, .partialSym⟩ = .ok ⟨8, 3⟩ ∧
    orbifoldSymbol ⟨exTwoPlanesData, .partialSym⟩ = .ok ⟨[3], [], false, 0⟩ ∧
    orbifoldSymbolString ⟨exTwoPlanesData, .partialSym⟩ = .ok "3" ∧
    (⟨8, 3⟩ : Frac).toRat = 2 * chiQ (orbOf ⟨[3], [], false, 0⟩) ∧
    isSpherical ⟨exTwoPlanesData, .partialSym⟩ = .ok true ∧
    bad (orbOf ⟨[3], [], false, 0⟩) = true ∧
    genusMonitor ⟨exTwoPlanesData, .partialSym⟩ = false := by
  obtain ⟨h1, h2, h3, h4, h5, h6, _, _⟩ := exTwoPlanes_answers
  refine ⟨exTwoPlanes_good _, h1, h2, h4, h5, ?_, h3, by decide, h6⟩
  norm_num [Frac.toRat, chiQ, orbOf, dq]

/-! ### 15. curvature × sheets for every covering in the sense of C05 -/

/-- **curvature is multiplied by the sheet number under every covering**: for every covering `c` of
    a good 2D symbol `ds` in the sense of C05 (`IsCoverOf ds c n`: valid symbol on `n·|ds|`
    chambers, the projection commutes with every operation, all degrees `m_ij` preserved — the
    conclusion of C05's theorems about `covers`, `cover_for_table`, `subgroup_cover`,
    `finite_universal_cover`, `oriented_cover`), whatever construction produced it, `c` is a good 2D
    symbol and K(c) = n · K(ds).  No divisibility premise. -/
theorem curvature_cover_covering (ds c : DSymData) (n : Nat) (rs rc : Rep) (g : Good2d ⟨ds, rs⟩)
    (hsz : 1 ≤ ds.size) (h : CoversP.IsCoverOf ds c n) :
    Good2d ⟨c, rc⟩ ∧ ∃ K K', curvature ⟨ds, rs⟩ = .ok K ∧ curvature ⟨c, rc⟩ = .ok K' ∧
      K'.toRat = (n : ℚ) * K.toRat :=
  curvature_of_isCoverOf rs rc g hsz h

/-- non-vacuous: the model's universal cover of `<1.1:1:1,1,1:3,2>` is such a covering -/
example : ∃ c n, CoversP.IsCoverOf C05W.sym32 c n ∧ c.size = 12 := by
  obtain ⟨c, hc, hsize⟩ := C05W.sym32_universal
  obtain ⟨_, t, _, _, hcov⟩ := C05.finite_universal_cover_is_covering C05W.sym32 C05W.sym32_validSym
    C05W.sym32_base.1 C05W.sym32_base.2.1 c hc
  exact ⟨c, t.len, hcov, hsize⟩

/-- the spherical one-chamber symbol `<1.1:1:1,1,1:3,2>` of C05's witnesses is a good 2D symbol -/
theorem sym32_good (rep : Rep) : Good2d ⟨C05W.sym32, rep⟩ :=
  ⟨C05W.sym32_validSym, by show C05W.sym32.dim = 2; decide +kernel, C05W.sym32_base.2.2.2⟩

/-- **`covers::covers`**: every entry of the list the model of `covers(ds, k)` returns (no fuel
    hypothesis) is a good 2D symbol whose curvature is its number of sheets (≤ max k 1, = its
    number of chambers / |ds|) times the curvature of `ds`. -/
theorem curvature_cover_table_cover (ds : DSymData) (rs rc : Rep) (g : Good2d ⟨ds, rs⟩)
    (hsz : 1 ≤ ds.size) (k : Nat) :
    ∃ cs, Covers.coversAll ds k = .ok cs ∧ ∀ c ∈ cs, ∃ n, n ≤ max k 1 ∧ c.size = n * ds.size ∧
      Good2d ⟨c, rc⟩ ∧ ∃ K K', curvature ⟨ds, rs⟩ = .ok K ∧ curvature ⟨c, rc⟩ = .ok K' ∧
        K'.toRat = (n : ℚ) * K.toRat := by
  obtain ⟨cs, hcs, hall⟩ := C05.covers_returns_coverings ds g.valid hsz (by have hd : ds.dim = 2 := g.dim; omega) k
  refine ⟨cs, hcs, fun c hc => ?_⟩
  obtain ⟨n, hcov, hn⟩ := hall c hc
  obtain ⟨gc, hK⟩ := curvature_of_isCoverOf rs rc g hsz hcov
  exact ⟨n, hn, hcov.size, gc, hK⟩

example : Good2d ⟨C05W.sym32, .partialSym⟩ ∧ 1 ≤ C05W.sym32.size := ⟨sym32_good _, C05W.sym32_base.1⟩

/-- **`subgroup_cover`**: whenever the model returns for subgroup generators over the letters of the
    fundamental group, the result is a good 2D symbol with curvature (rows of the coset table) ×
    K(ds). -/
theorem curvature_cover_subgroup_cover (ds : DSymData) (rs rc : Rep) (g : Good2d ⟨ds, rs⟩)
    (hsz : 1 ≤ ds.size) (subgens : List (List Int)) (c : DSymData)
    (hc : Covers.subgroupCover ds subgens = .ok c) :
    ∃ f t, FG.fundamentalGroup ds = .ok f ∧
      Cosets.cosetTable f.nrGenerators f.relators subgens = .ok t ∧
      ((∀ w ∈ subgens, ∀ x ∈ w, x ∈ Cosets.allGensOf f.nrGenerators) →
        Good2d ⟨c, rc⟩ ∧ c.size = t.len * ds.size ∧
        ∃ K K', curvature ⟨ds, rs⟩ = .ok K ∧ curvature ⟨c, rc⟩ = .ok K' ∧
          K'.toRat = (t.len : ℚ) * K.toRat) := by
  obtain ⟨f, t, hf, ht, hcov⟩ :=
    C05.subgroup_cover_is_covering ds g.valid hsz (by have hd : ds.dim = 2 := g.dim; omega) subgens c hc
  refine ⟨f, t, hf, ht, fun hl => ?_⟩
  obtain ⟨gc, hK⟩ := curvature_of_isCoverOf rs rc g hsz (hcov hl)
  exact ⟨gc, (hcov hl).size, hK⟩

example : ∃ c, Covers.subgroupCover C05W.sym32 [[1]] = .ok c ∧ c.size = 6 := C05W.sym32_subgroup

/-- **`finite_universal_cover`**: whenever the model returns, the result is a good 2D symbol with
    curvature |π₁| × K(ds) (rows of the coset table of the trivial subgroup). -/
theorem curvature_cover_universal_cover (ds : DSymData) (rs rc : Rep) (g : Good2d ⟨ds, rs⟩)
    (hsz : 1 ≤ ds.size) (c : DSymData) (hc : Covers.finiteUniversalCover ds = .ok c) :
    ∃ n, c.size = n * ds.size ∧ Good2d ⟨c, rc⟩ ∧
      ∃ K K', curvature ⟨ds, rs⟩ = .ok K ∧ curvature ⟨c, rc⟩ = .ok K' ∧ K'.toRat = (n : ℚ) * K.toRat := by
  obtain ⟨f, t, _, _, hcov⟩ :=
    C05.finite_universal_cover_is_covering ds g.valid hsz (by have hd : ds.dim = 2 := g.dim; omega) c hc
  obtain ⟨gc, hK⟩ := curvature_of_isCoverOf rs rc g hsz hcov
  exact ⟨t.len, hcov.size, gc, hK⟩

/-- non-vacuous, with numbers: the model's universal cover of `*322` (K = 1/3) has 12 chambers,
    is a good 2D symbol and has curvature 12 · 1/3 = 4 — the sphere -/
example : ∃ c K', Covers.finiteUniversalCover C05W.sym32 = .ok c ∧ c.size = 12 ∧
    curvature ⟨C05W.sym32, .partialSym⟩ = .ok ⟨1, 3⟩ ∧
    curvature ⟨c, .partialSym⟩ = .ok K' ∧ K'.toRat = 4 := by
  obtain ⟨c, hc, hsize⟩ := C05W.sym32_universal
  obtain ⟨n, hn, _, K, K', hK, hK', hv⟩ :=
    curvature_cover_universal_cover C05W.sym32 .partialSym .partialSym (sym32_good _) C05W.sym32_base.1 c hc
  have h1 : C05W.sym32.size = 1 := by decide +kernel
  have hk : curvature ⟨C05W.sym32, .partialSym⟩ = .ok ⟨1, 3⟩ := by decide +kernel
  rw [hk] at hK
  cases hK
  rw [hsize, h1, Nat.mul_one] at hn
  subst hn
  refine ⟨c, K', hc, hsize, hk, hK', ?_⟩
  rw [hv]
  norm_num [Frac.toRat]

end DSymVerif.C08
