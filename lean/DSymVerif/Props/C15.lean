/-
Property C15 — toroidal and pseudo-toroidal covers are branch-free tori.
Property theorems only.  They speak about the executable models `DSymVerif.D3.*`
(Model/Delaney3d.lean, tied to /repo/src/delaney3d.rs and delaney2d.rs by the differential
correspondence of every run) and about the GENERATED tables `DSymVerif.Tables.*` (re-extracted
from the source on every run, so a changed table re-checks or breaks these lemmas).

Proved (DESIGN §6 C15):
* ✔ table lemmas: eleven distinct point-group names; every name `core_type` can return (and the
  two literals "z6", "d6" of `construct_candidates`) is one of them — also as a theorem about the
  model functions for all tables; `core_type_by_size` panics exactly outside 1,2,3,6,8,12,24 and
  size 4 is handled before it; the names carry the orders of the crystallographic rotation
  groups, consistent with the size table, and the set of orders is {1,2,3,4,6,8,12,24};
* ○ `transitive_le4_orders`: every transitive permutation group on k ≤ 4 points has one of these
  orders (orbit–stabiliser + Lagrange, for ALL subgroups of S_k, not only 2-generated ones) — so
  the `panic!()` arm is not reachable through the order of such a group;
* ✔ `degree_spec`: on a permutation action `degree` terminates within `len` rounds (the Rust
  iterator chain has no bound) and returns the least k ≥ 1 with 0·w^k = 0; `flattens_all` is
  the conjunction of the degree tests;
* ○ (partial) `ptc_result_is_cover_partial`: whatever table is chosen, a returned cover is
  `cover_for_table` of the oriented cover and of a candidate table whose stabiliser abelianises
  (in the model) to [0,0,0]; with C05's hypotheses on table and edge words it is a covering.

Not theorems (Spec clauses on every explored case, `open_obligations` in conf/C15.json):
`flattens_branchfree_statement`, existence for every euclidean symbol, Z^n abelianisation,
numbering independence.
-/
import DSymVerif.Proofs.Delaney3d
import DSymVerif.Proofs.Delaney3dOrders
import DSymVerif.Props.C05
import DSymVerif.Spec.C15

namespace DSymVerif.C15
open DSymVerif DSymVerif.DS DSymVerif.D3 DSymVerif.Cosets

/-! ### 1. constant tables (generated from the source) -/

/-- `point_groups()` lists eleven pairwise different names -/
theorem pointGroups_eleven_distinct : Tables.pointGroups.length = 11 ∧ Tables.pointGroups.Nodup := by
  decide

/-- every name in the size table, the two names of the size-4 case and the two literals pushed
    by the second loop of `construct_candidates` are point-group names (so `get_mut(..).unwrap()`
    finds its key) -/
theorem coreType_names_in_pointGroups :
    (∀ p ∈ Tables.coreTypeBySize, p.2 ∈ Tables.pointGroups) ∧
    Tables.coreTypeSpecialNames.1 ∈ Tables.pointGroups ∧
    Tables.coreTypeSpecialNames.2 ∈ Tables.pointGroups ∧
    "z6" ∈ Tables.pointGroups ∧ "d6" ∈ Tables.pointGroups := by
  decide

/-- `core_type_by_size` is defined on exactly 1, 2, 3, 6, 8, 12, 24; 4 is not among them and is
    the size `core_type` handles before consulting the table; the enumeration bound of
    `construct_candidates` is 4 -/
theorem coreTypeBySize_domain :
    Tables.coreTypeBySize.map (·.1) = [1, 2, 3, 6, 8, 12, 24] ∧
    Tables.coreTypeSpecialSize = 4 ∧
    Tables.coreTypeSpecialSize ∉ Tables.coreTypeBySize.map (·.1) ∧
    Tables.candidateIndexBound = 4 := by
  decide

/-- the `panic!()` arm of the model of `core_type_by_size` is taken exactly outside the table -/
theorem coreTypeBySize_panics_iff (n : Nat) :
    coreTypeBySize n = .panic ↔ n ∉ [1, 2, 3, 6, 8, 12, 24] := by
  rw [← coreTypeBySize_domain.1]
  unfold coreTypeBySize
  cases h : Tables.coreTypeBySize.find? (fun p => p.1 == n) with
  | none =>
    simp only [true_iff]
    intro hm
    rw [List.mem_map] at hm
    obtain ⟨p, hp, hpn⟩ := hm
    have := List.find?_eq_none.mp h p hp
    simp [hpn] at this
  | some p =>
    simp only [reduceCtorEq, false_iff, Decidable.not_not]
    have hp := List.mem_of_find?_eq_some h
    have hn := List.find?_some h
    simp only [beq_iff_eq] at hn
    exact List.mem_map.mpr ⟨p, hp, hn⟩

/-- it never answers with an error value -/
theorem coreTypeBySize_ne_err (n : Nat) : coreTypeBySize n ≠ .err := by
  unfold coreTypeBySize
  split <;> simp

/-- for ALL tables: a name returned by the model of `core_type` is a point-group name -/
theorem coreType_in_pointGroups (ct : Table) (name : String) (h : coreType ct = .ok name) :
    name ∈ pointGroups := by
  unfold coreType at h
  split at h
  · split at h
    · cases h; exact coreType_names_in_pointGroups.2.1
    · cases h; exact coreType_names_in_pointGroups.2.2.1
    · cases h
    · cases h
  · unfold coreTypeBySize at h
    cases hf : Tables.coreTypeBySize.find? (fun p => p.1 == ct.len) with
    | none => rw [hf] at h; cases h
    | some p =>
      rw [hf] at h
      cases h
      exact coreType_names_in_pointGroups.1 p (List.mem_of_find?_eq_some hf)

/-- for ALL tables: the model of `core_type` panics only if the number of rows is none of
    1, 2, 3, 4, 6, 8, 12, 24 or a table access inside `is_fully_involutive` panics -/
theorem coreType_panics_only (ct : Table) (h : coreType ct = .panic) :
    ct.len ∉ [1, 2, 3, 4, 6, 8, 12, 24] ∨ isFullyInvolutive ct = .panic := by
  unfold coreType at h
  split at h
  · right
    split at h
    · cases h
    · cases h
    · cases h
    · rename_i hp; exact hp
  · left
    rename_i hne
    have hp := (coreTypeBySize_panics_iff ct.len).mp h
    rw [coreTypeBySize_domain.2.1] at hne
    simp only [List.mem_cons, List.mem_nil_iff, or_false, not_or] at hp ⊢
    omega

/-- the names are those of the eleven crystallographic rotation groups with their orders
    (C1 C2 C3 C4 D2 D3 C6 D4 D6 T O); the size table and the size-4 case agree with these orders;
    the set of orders is the admissible set of the Spec -/
theorem names_orders_consistent :
    SpecC15.pointGroupOrders.map (·.1) = Tables.pointGroups ∧
    (∀ p ∈ Tables.coreTypeBySize, SpecC15.pointGroupOrders.lookup p.2 = some p.1) ∧
    SpecC15.pointGroupOrders.lookup Tables.coreTypeSpecialNames.1 = some Tables.coreTypeSpecialSize ∧
    SpecC15.pointGroupOrders.lookup Tables.coreTypeSpecialNames.2 = some Tables.coreTypeSpecialSize ∧
    (∀ n, n ∈ SpecC15.pointGroupOrders.map (·.2) ↔ n ∈ SpecC15.admissibleOrders) ∧
    (∀ v, v ∈ [1, 2, 3, 4, 6] ↔ (1 ≤ v ∧ v ≤ Tables.crystMax ∧ v ≠ Tables.crystExcluded)) := by
  refine ⟨by decide, by decide, by decide, by decide, ?_, ?_⟩
  · intro n
    simp only [SpecC15.pointGroupOrders, SpecC15.admissibleOrders, List.map_cons, List.map_nil,
      List.mem_cons, List.mem_nil_iff, or_false]
    omega
  · intro v
    simp only [Tables.crystMax, Tables.crystExcluded, List.mem_cons, List.mem_nil_iff, or_false]
    omega

/-! ### 2. orders of transitive groups on at most four points -/

/-- **transitive_le4_orders.**  A subgroup of the symmetric group on `k ≤ 4` points that acts
    transitively has order 1, 2, 3, 4, 6, 8, 12 or 24 — the sizes on which `core_type` is
    defined.  (The core of a transitive coset table with `k` rows is the regular representation
    of the image of the group in `S_k`; that link is not formalised.) -/
theorem transitive_le4_orders (k : Nat) (hk : 0 < k) (hk4 : k ≤ Tables.candidateIndexBound)
    (G : Subgroup (Equiv.Perm (Fin k))) [MulAction.IsPretransitive G (Fin k)] :
    Nat.card G ∈ [1, 2, 3, 4, 6, 8, 12, 24] := by
  obtain ⟨h1, h2⟩ := transitive_order_dvd k hk G
  exact order_of_dvd k (Nat.card G) hk (by rw [coreTypeBySize_domain.2.2.2] at hk4; exact hk4) h1 h2

/-- non-vacuity: the whole symmetric group on 4 points is transitive -/
example : MulAction.IsPretransitive (⊤ : Subgroup (Equiv.Perm (Fin 4))) (Fin 4) :=
  ⟨fun x y => ⟨⟨Equiv.swap x y, Subgroup.mem_top _⟩, Equiv.swap_apply_left x y⟩⟩

/-! ### 3. `degree` and `flattens_all` -/

/-- **degree_spec.**  If the letters of `w` act on the rows `0..n-1` as permutations (every
    entry defined and in range, no two rows with the same image) then the model of `degree` —
    whose Rust original is an unbounded lazy iterator chain — returns within `n` rounds, and its
    value `k` is the least `k ≥ 1` with `0·w^k = 0`; in particular no `unwrap` fires. -/
theorem degree_spec (get : Nat → Int → Outcome (Option Nat)) (n : Nat) (w : List Int)
    (hn : 0 < n) (h : ActsOn get n w) :
    ∃ k, degreeOf get n w = .ok k ∧ 1 ≤ k ∧ k ≤ n ∧ iterTrace get w k 0 = .ok 0 ∧
      ∀ j, 1 ≤ j → j < k → iterTrace get w j 0 ≠ .ok 0 := by
  classical
  have hex : ∃ t, 1 ≤ t ∧ iterTrace get w t 0 = .ok 0 := by
    obtain ⟨t, h1, _, h3⟩ := iterTrace_returns h hn
    exact ⟨t, h1, h3⟩
  obtain ⟨t, ht1, htn, ht⟩ := iterTrace_returns h hn
  refine ⟨Nat.find hex, ?_, (Nat.find_spec hex).1, ?_, (Nat.find_spec hex).2, ?_⟩
  · unfold degreeOf
    exact degreeLoop_spec h hn (Nat.find hex) (Nat.find_spec hex).2
      (fun j hj1 hjk hj => Nat.find_min hex hjk ⟨hj1, hj⟩) n 0 0
      (by have := (Nat.find_spec hex).1; omega)
      (by have := Nat.find_min' hex ⟨ht1, ht⟩; omega) rfl
  · have := Nat.find_min' hex ⟨ht1, ht⟩; omega
  · intro j hj1 hjk hj
    exact Nat.find_min hex hjk ⟨hj1, hj⟩

/-- a decidable form of the hypothesis -/
def actsOnB (get : Nat → Int → Outcome (Option Nat)) (n : Nat) (w : List Int) : Bool :=
  w.all fun g => (List.range n).all fun r =>
    match get r g with
    | .ok (some r') =>
      decide (r' < n) && (List.range n).all fun r₂ => r₂ == r || decide (get r₂ g ≠ .ok (some r'))
    | _ => false

theorem actsOnB_sound (get : Nat → Int → Outcome (Option Nat)) (n : Nat) (w : List Int)
    (hb : actsOnB get n w = true) : ActsOn get n w := by
  unfold actsOnB at hb
  rw [List.all_eq_true] at hb
  constructor
  · intro r g hr hg
    have h1 := hb g hg
    rw [List.all_eq_true] at h1
    have h2 := h1 r (List.mem_range.mpr hr)
    split at h2
    · rename_i r' hget
      simp only [Bool.and_eq_true, decide_eq_true_eq] at h2
      exact ⟨r', h2.1, hget⟩
    · cases h2
  · intro r₁ r₂ g r' hr1 hr2 hg h1 h2
    have ha := hb g hg
    rw [List.all_eq_true] at ha
    have hb1 := ha r₁ (List.mem_range.mpr hr1)
    rw [h1] at hb1
    simp only [Bool.and_eq_true, decide_eq_true_eq] at hb1
    have hc := hb1.2
    rw [List.all_eq_true] at hc
    have hd := hc r₂ (List.mem_range.mpr hr2)
    simp only [Bool.or_eq_true, beq_iff_eq, decide_eq_true_eq] at hd
    rcases hd with hd | hd
    · exact hd.symm
    · exact absurd h2 hd

/-- the cyclic table of Z/3 on one generator: rows 0 → 1 → 2 → 0 -/
def z3Table : Table := Table.ofView 1 #[#[1, 2], #[2, 0], #[0, 1]]

/-- non-vacuity of `degree_spec` on a concrete `CosetTable` value: the hypothesis holds and the
    degree of the generator is 3, of its square 3, of its cube 1 -/
example : ActsOn z3Table.get z3Table.len [1] ∧ degree z3Table [1] = .ok 3 ∧
    degree z3Table [1, 1] = .ok 3 ∧ degree z3Table [1, 1, 1] = .ok 1 :=
  ⟨actsOnB_sound _ _ _ (by decide +kernel), by decide +kernel, by decide +kernel, by decide +kernel⟩

/-- `flattens_all` answers `true` exactly when every cone word has the stated degree, provided
    the degrees are computed (no panic): the short-circuit `all` -/
theorem flattensAll_true_iff (ct : Table) (cones : List (List Int × Nat)) :
    flattensAll ct cones = .ok true ↔ ∀ c ∈ cones, degree ct c.1 = .ok c.2 := by
  induction cones with
  | nil => simp [flattensAll]
  | cons c rest ih =>
    obtain ⟨wd, deg⟩ := c
    unfold flattensAll
    cases hd : degree ct wd with
    | ok k =>
      by_cases hk : k = deg
      · subst hk
        simp only [if_true, ih, List.mem_cons, forall_eq_or_imp, hd, true_and]
      · simp only [if_neg hk, Outcome.ok.injEq, Bool.false_eq_true, List.mem_cons,
          forall_eq_or_imp, hd, false_iff, not_and]
        intro h; exact absurd h hk
    | err => simp [hd]
    | panic => simp [hd]

example : flattensAll z3Table [([1], 3), ([1, 1, 1], 1)] = .ok true := by decide +kernel

/-! ### 4. what a returned pseudo-toroidal cover is -/

theorem firstTorusTable_some (rels : List (List Int)) :
    ∀ (ts : List Table) (t : Table), firstTorusTable rels ts = .ok (some t) →
      t ∈ ts ∧ stabilizerInvariants rels t = .ok [0, 0, 0]
  | [], t, h => by simp [firstTorusTable] at h
  | x :: rest, t, h => by
    unfold firstTorusTable at h
    split at h
    · rename_i inv hinv
      split at h
      · rename_i h0
        cases h
        exact ⟨List.mem_cons_self .., by rw [hinv, h0]⟩
      · obtain ⟨hm, hs⟩ := firstTorusTable_some rels rest t h
        exact ⟨List.mem_cons_of_mem _ hm, hs⟩
    · cases h
    · cases h

theorem groupLoop_some (rels : List (List Int)) (cands : Candidates) :
    ∀ (names : List String) (t : Table), groupLoop rels cands names = .ok (some t) →
      ∃ name ts, name ∈ names ∧ candGet cands name = .ok ts ∧ t ∈ ts ∧
        stabilizerInvariants rels t = .ok [0, 0, 0]
  | [], t, h => by simp [groupLoop] at h
  | tp :: rest, t, h => by
    unfold groupLoop at h
    split at h
    · rename_i ts hts
      split at h
      · rename_i t' ht'
        cases h
        obtain ⟨hm, hs⟩ := firstTorusTable_some rels ts t ht'
        exact ⟨tp, ts, List.mem_cons_self .., hts, hm, hs⟩
      · obtain ⟨name, ts', hn, hc, hm, hs⟩ := groupLoop_some rels cands rest t h
        exact ⟨name, ts', List.mem_cons_of_mem _ hn, hc, hm, hs⟩
      · cases h
      · cases h
    · cases h
    · cases h

/-- **ptc_result_is_cover_partial.**  For ALL symbols: if the model of `pseudo_toroidal_cover`
    returns `Some(c)` then the input is 3-dimensional and complete, and `c` is
    `cover_for_table(oc, t, edge_to_word)` where `oc` is the oriented cover of the input, the
    edge words are those of `fundamental_group(oc)`, and `t` is a candidate table filed under
    one of the point-group names whose stabiliser (model of `stabilizer` + `abelian_invariants`)
    has invariants `[0, 0, 0]`.
    With the hypotheses of C05's `cover_for_table_compat` on `oc`, the table and the edge words
    (inverse-consistent table, edge words mutually inverse or mirror involutions in the table — evaluated per explored input by the
    covering clauses of the Spec, not proved for the enumerators), `c` is a covering of `oc` with
    `t.len()` sheets: size, dimension, valid tables, projection commuting with every operation. -/
theorem ptc_result_is_cover_partial (s c : DSymData) (h : pseudoToroidalCover s = .ok (some c)) :
    s.dim = 3 ∧ s.isCompletePartial = true ∧
    ∃ oc fg cands t name ts,
      orientedCover s = .ok oc ∧ FG.fundamentalGroup oc = .ok fg ∧
      constructCandidates fg = .ok cands ∧ name ∈ pointGroups ∧ candGet cands name = .ok ts ∧ t ∈ ts ∧
      stabilizerInvariants fg.relators t = .ok [0, 0, 0] ∧
      Covers.coverForTable oc (tableData t) fg.edgeToWord = .ok c ∧
      (ValidTables oc → 1 ≤ oc.size → 1 ≤ oc.dim → 1 ≤ (tableData t).len →
        (tableData t).InvConsistent → Covers.EdgeWordsOk oc (tableData t) fg.edgeToWord →
        c.size = (tableData t).len * oc.size ∧ c.dim = oc.dim ∧ ValidTables c ∧
        ∀ i d, i ≤ oc.dim → 1 ≤ d → d ≤ (tableData t).len * oc.size →
          cproj oc.size (c.dset.opU i d) = oc.dset.opU i (cproj oc.size d)) := by
  unfold pseudoToroidalCover at h
  split at h
  · cases h
  · rename_i hdim
    split at h
    · cases h
    · rename_i hcomp
      refine ⟨Decidable.not_not.mp hdim, by simpa using hcomp, ?_⟩
      split at h
      · split at h
        · rename_i oc hoc
          split at h
          · rename_i fg hfg
            split at h
            · rename_i cands hcands
              split at h
              · rename_i t ht
                split at h
                · rename_i c' hc'
                  cases h
                  obtain ⟨name, ts, hn, hget, hm, hs⟩ := groupLoop_some fg.relators cands pointGroups t ht
                  refine ⟨oc, fg, cands, t, name, ts, hoc, hfg, hcands, hn, hget, hm, hs, hc', ?_⟩
                  intro hv hsz hd hlen hinv hedge
                  have hdef : Covers.allTracesDefined oc (tableData t) fg.edgeToWord = true := by
                    unfold Covers.coverForTable at hc'
                    split at hc'
                    · assumption
                    · cases hc'
                  obtain ⟨_, c'', hc'', h1, h2, h3, h4⟩ :=
                    C05.cover_for_table_compat oc hv hsz hd (tableData t) hlen fg.edgeToWord hinv hedge hdef
                  rw [hc'] at hc''
                  cases hc''
                  exact ⟨h1, h2, h3, h4⟩
                · cases h
                · cases h
              · cases h
              · cases h
              · cases h
            · cases h
            · cases h
          · cases h
          · cases h
        · cases h
        · cases h
      · cases h
      · cases h

/-! ### open (not theorems): the statements, for the record -/

/-- ○ `flattens_branchfree`: if a table that is a valid transitive permutation representation of
    the fundamental group of an oriented symbol flattens all cones (`degree = v` for every cone
    word), then `cover_for_table` has all branching numbers 1.  Evaluated per explored input by
    the Spec clause `cover-is-branch-free`. -/
def flattens_branchfree_statement : Prop :=
  ∀ (oc c : DSymData) (fg : FG.FundGroup) (t : Table),
    ValidTables oc → oc.view.isOriented = true → FG.fundamentalGroup oc = .ok fg →
    (tableData t).InvConsistent → flattensAll t fg.cones = .ok true →
    Covers.coverForTable oc (tableData t) fg.edgeToWord = .ok c →
    ∀ i d, i < c.dim → 1 ≤ d → d ≤ c.size → c.vPartial i (i + 1) d = .ok (some 1)

/-- ◐ existence and torus property (Spec clauses on every explored input):
    for every euclidean 2D symbol `toroidal_cover` returns; every returned (pseudo-)toroidal
    cover is oriented, branch-free with abelianisation Z^dim -/
def torus_cover_statement : Prop :=
  ∀ (s : DSymData), ValidTables s → s.dim = 2 → D2.isEuclidean ⟨s, .partialSym⟩ = .ok true →
    ∃ c, toroidalCover s = .ok c

end DSymVerif.C15
