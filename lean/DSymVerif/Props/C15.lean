/-
Property C15 — toroidal and pseudo-toroidal covers are branch-free tori.
Property theorems only.  They speak about the executable models `DSymVerif.D3.*`
(Model/Delaney3d.lean, tied to /repo/src/delaney3d.rs and delaney2d.rs by the differential
correspondence of every run) and about the GENERATED tables `DSymVerif.Tables.*` (re-extracted
from the source on every run, so a changed table re-checks or breaks these lemmas).

Proved (DESIGN §6 C15, phases 2–4).  There is NO fuel hypothesis any more: the models pass C12's
`searchFuel` to `coset_tables`, which provably exhausts the search tree (`D3.fuelOK`); the only
assumptions are a valid input symbol and, for the statements about π₁, a connected one:
* ✔ table lemmas over the generated constants (§1) and ○ `transitive_le4_orders` (§2);
* ✔ `degree_spec`, `flattensAll_true_iff` (§3);
* §4 `candidates_valid`, `degree_on_valid_tables`, `core_type_total`: every table of the
  pipeline is a valid transitive permutation representation (C11/C12/C13), `degree` means what
  `degree_spec` says on it, the `panic!()` arm of `core_type_by_size` is unreachable;
* §5 ○ `ptc_result_is_cover` (covering of the oriented cover and of the input),
  `ptc_result_is_oriented`, ○ **`flattens_branchfree`** and `ptc_result_is_branchfree`: a returned
  cover has branching number 1 on every adjacent 2-orbit AND on every non-adjacent index pair
  (`flattens_branchfree_far`), is a valid symbol, complete, has the degrees of its projection for
  all index pairs, and is connected if the oriented cover is;
* §6 `ptc_selected_subgroup_is_Z3_abelianised`, `ptc_selected_subgroup_of_orbifold_group`: the
  stabiliser of row 0 in the textbook orbifold group of the oriented cover has index = sheet
  number and is isomorphic to the presentation `stabilizer` returns, whose `abelian_invariants`
  model value is [0,0,0] (= the determinantal-divisor invariants of C14, for relators over the
  letters of the presentation).

* §6 `ptc_cover_group_presentation`: with C05's covering-space correspondence, the textbook
  orbifold group of the RETURNED COVER is isomorphic to that presentation (input
  connected): its abelian invariants are [0,0,0], and
  `ptc_cover_has_H1_Z3`: `Abelianization (TGroup cov) ≃* ℤ³` (C14 `abelianization_free_of_expected`).

* §8 the 2D sentence: `toroidal_cover_result_is_covering` (entry of `covers(oc, degree)`,
  covering of `oc` and of the input, oriented, v = 1 on all three index pairs at every chamber),
  `toroidal_cover_has_no_cones`, `toroidal_cover_is_a_torus_combinatorially` (curvature 0,
  χ = F − E + V = 0, `orbifold_symbol` = `o`), `toroidal_cover_group_is_finite_index_subgroup`
  (π₁(cov) ≅ stabiliser of index = sheets in π₁(oc)).

Not theorems (Spec clauses on every explored case, `open_obligations` in conf/C15.json):
existence for every euclidean symbol; numbering independence; 2D: π₁^ab ≅ ℤ² (classification of
surfaces).
-/
import DSymVerif.Proofs.Delaney3d
import DSymVerif.Proofs.Delaney3dOrders
import DSymVerif.Proofs.Delaney3dSelect
import DSymVerif.Proofs.Delaney3dOriented
import DSymVerif.Proofs.Delaney3dHolonomy
import DSymVerif.Proofs.Delaney3dBranch
import DSymVerif.Proofs.Delaney3dBranchFar
import DSymVerif.Proofs.Delaney3dReindex
import DSymVerif.Proofs.Delaney3dPipelineSize
import DSymVerif.Proofs.ToroidalCover
import DSymVerif.Proofs.TGroupIso
import DSymVerif.Proofs.Delaney3dNoPanic
import DSymVerif.Props.C05
import DSymVerif.Props.C09
import DSymVerif.Props.C11
import DSymVerif.Props.C13
import DSymVerif.Props.C14
import DSymVerif.Spec.C15
import Mathlib.GroupTheory.Abelianization.Defs

namespace DSymVerif.C15
open DSymVerif DSymVerif.DS DSymVerif.D3 DSymVerif.Cosets

/-! ### 1. constant tables (generated from the source) -/

/-- `point_groups()` lists eleven pairwise different names -/
theorem pointGroups_eleven_distinct : Tables.pointGroups.length = 11 ∧ Tables.pointGroups.Nodup := by
  decide

/-- every name in the size table, the two names of the size-4 case and the two literals pushed
    by the second loop of `construct_candidates` are point-group names (so `get_mut(..).unwrap()`
    finds its key) -/
theorem coreType_names_in_pointGroups :
    (∀ p ∈ Tables.coreTypeBySize, p.2 ∈ Tables.pointGroups) ∧
    Tables.coreTypeSpecialNames.1 ∈ Tables.pointGroups ∧
    Tables.coreTypeSpecialNames.2 ∈ Tables.pointGroups ∧
    "z6" ∈ Tables.pointGroups ∧ "d6" ∈ Tables.pointGroups := by
  decide

/-- `core_type_by_size` is defined on exactly 1, 2, 3, 6, 8, 12, 24; 4 is not among them and is
    the size `core_type` handles before consulting the table; the enumeration bound of
    `construct_candidates` is 4 -/
theorem coreTypeBySize_domain :
    Tables.coreTypeBySize.map (·.1) = [1, 2, 3, 6, 8, 12, 24] ∧
    Tables.coreTypeSpecialSize = 4 ∧
    Tables.coreTypeSpecialSize ∉ Tables.coreTypeBySize.map (·.1) ∧
    Tables.candidateIndexBound = 4 := by
  decide

/-- the `panic!()` arm of the model of `core_type_by_size` is taken exactly outside the table -/
theorem coreTypeBySize_panics_iff (n : Nat) :
    coreTypeBySize n = .panic ↔ n ∉ [1, 2, 3, 6, 8, 12, 24] := by
  rw [← coreTypeBySize_domain.1]
  unfold coreTypeBySize
  cases h : Tables.coreTypeBySize.find? (fun p => p.1 == n) with
  | none =>
    simp only [true_iff]
    intro hm
    rw [List.mem_map] at hm
    obtain ⟨p, hp, hpn⟩ := hm
    have := List.find?_eq_none.mp h p hp
    simp [hpn] at this
  | some p =>
    simp only [reduceCtorEq, false_iff, Decidable.not_not]
    have hp := List.mem_of_find?_eq_some h
    have hn := List.find?_some h
    simp only [beq_iff_eq] at hn
    exact List.mem_map.mpr ⟨p, hp, hn⟩

/-- it never answers with an error value -/
theorem coreTypeBySize_ne_err (n : Nat) : coreTypeBySize n ≠ .err := by
  unfold coreTypeBySize
  split <;> simp

/-- for ALL tables: a name returned by the model of `core_type` is a point-group name -/
theorem coreType_in_pointGroups (n : Nat) (ct : Tab) (name : String) (h : coreType n ct = .ok name) :
    name ∈ pointGroups := by
  unfold coreType at h
  split at h
  · split at h
    · cases h; exact coreType_names_in_pointGroups.2.1
    · cases h; exact coreType_names_in_pointGroups.2.2.1
    · cases h
    · cases h
  · unfold coreTypeBySize at h
    cases hf : Tables.coreTypeBySize.find? (fun p => p.1 == ct.size) with
    | none => rw [hf] at h; cases h
    | some p =>
      rw [hf] at h
      cases h
      exact coreType_names_in_pointGroups.1 p (List.mem_of_find?_eq_some hf)

/-- for ALL tables: the model of `core_type` panics only if the number of rows is none of
    1, 2, 3, 4, 6, 8, 12, 24 or a table access inside `is_fully_involutive` panics -/
theorem coreType_panics_only (n : Nat) (ct : Tab) (h : coreType n ct = .panic) :
    ct.size ∉ [1, 2, 3, 4, 6, 8, 12, 24] ∨ isFullyInvolutive n ct = .panic := by
  unfold coreType at h
  split at h
  · right
    split at h
    · cases h
    · cases h
    · cases h
    · rename_i hp; exact hp
  · left
    rename_i hne
    have hp := (coreTypeBySize_panics_iff ct.size).mp h
    rw [coreTypeBySize_domain.2.1] at hne
    simp only [List.mem_cons, List.mem_nil_iff, or_false, not_or] at hp ⊢
    omega

/-- the names are those of the eleven crystallographic rotation groups with their orders
    (C1 C2 C3 C4 D2 D3 C6 D4 D6 T O); the size table and the size-4 case agree with these orders;
    the set of orders is the admissible set of the Spec -/
theorem names_orders_consistent :
    SpecC15.pointGroupOrders.map (·.1) = Tables.pointGroups ∧
    (∀ p ∈ Tables.coreTypeBySize, SpecC15.pointGroupOrders.lookup p.2 = some p.1) ∧
    SpecC15.pointGroupOrders.lookup Tables.coreTypeSpecialNames.1 = some Tables.coreTypeSpecialSize ∧
    SpecC15.pointGroupOrders.lookup Tables.coreTypeSpecialNames.2 = some Tables.coreTypeSpecialSize ∧
    (∀ n, n ∈ SpecC15.pointGroupOrders.map (·.2) ↔ n ∈ SpecC15.admissibleOrders) ∧
    (∀ v, v ∈ [1, 2, 3, 4, 6] ↔ (1 ≤ v ∧ v ≤ Tables.crystMax ∧ v ≠ Tables.crystExcluded)) := by
  refine ⟨by decide, by decide, by decide, by decide, ?_, ?_⟩
  · intro n
    simp only [SpecC15.pointGroupOrders, SpecC15.admissibleOrders, List.map_cons, List.map_nil,
      List.mem_cons, List.mem_nil_iff, or_false]
    omega
  · intro v
    simp only [Tables.crystMax, Tables.crystExcluded, List.mem_cons, List.mem_nil_iff, or_false]
    omega

/-! ### 2. orders of transitive groups on at most four points -/

/-- **transitive_le4_orders.**  A subgroup of the symmetric group on `k ≤ 4` points that acts
    transitively has order 1, 2, 3, 4, 6, 8, 12 or 24 — the sizes on which `core_type` is
    defined.  (The core of a transitive coset table with `k` rows is the regular representation
    of the image of the group in `S_k`; that link is not formalised.) -/
theorem transitive_le4_orders (k : Nat) (hk : 0 < k) (hk4 : k ≤ Tables.candidateIndexBound)
    (G : Subgroup (Equiv.Perm (Fin k))) [MulAction.IsPretransitive G (Fin k)] :
    Nat.card G ∈ [1, 2, 3, 4, 6, 8, 12, 24] := by
  obtain ⟨h1, h2⟩ := transitive_order_dvd k hk G
  exact order_of_dvd k (Nat.card G) hk (by rw [coreTypeBySize_domain.2.2.2] at hk4; exact hk4) h1 h2

/-- non-vacuity: the whole symmetric group on 4 points is transitive -/
example : MulAction.IsPretransitive (⊤ : Subgroup (Equiv.Perm (Fin 4))) (Fin 4) :=
  ⟨fun x y => ⟨⟨Equiv.swap x y, Subgroup.mem_top _⟩, Equiv.swap_apply_left x y⟩⟩

/-! ### 3. `degree` and `flattens_all` -/

/-- **degree_spec.**  If the letters of `w` act on the rows `0..n-1` as permutations (every
    entry defined and in range, no two rows with the same image) then the model of `degree` —
    whose Rust original is an unbounded lazy iterator chain — returns within `n` rounds, and its
    value `k` is the least `k ≥ 1` with `0·w^k = 0`; in particular no `unwrap` fires. -/
theorem degree_spec (get : Nat → Int → Outcome (Option Nat)) (n : Nat) (w : List Int)
    (hn : 0 < n) (h : ActsOn get n w) :
    ∃ k, degreeOf get n w = .ok k ∧ 1 ≤ k ∧ k ≤ n ∧ iterTrace get w k 0 = .ok 0 ∧
      ∀ j, 1 ≤ j → j < k → iterTrace get w j 0 ≠ .ok 0 :=
  degreeOf_spec get n w hn h

/-- a decidable form of the hypothesis -/
def actsOnB (get : Nat → Int → Outcome (Option Nat)) (n : Nat) (w : List Int) : Bool :=
  w.all fun g => (List.range n).all fun r =>
    match get r g with
    | .ok (some r') =>
      decide (r' < n) && (List.range n).all fun r₂ => r₂ == r || decide (get r₂ g ≠ .ok (some r'))
    | _ => false

theorem actsOnB_sound (get : Nat → Int → Outcome (Option Nat)) (n : Nat) (w : List Int)
    (hb : actsOnB get n w = true) : ActsOn get n w := by
  unfold actsOnB at hb
  rw [List.all_eq_true] at hb
  constructor
  · intro r g hr hg
    have h1 := hb g hg
    rw [List.all_eq_true] at h1
    have h2 := h1 r (List.mem_range.mpr hr)
    split at h2
    · rename_i r' hget
      simp only [Bool.and_eq_true, decide_eq_true_eq] at h2
      exact ⟨r', h2.1, hget⟩
    · cases h2
  · intro r₁ r₂ g r' hr1 hr2 hg h1 h2
    have ha := hb g hg
    rw [List.all_eq_true] at ha
    have hb1 := ha r₁ (List.mem_range.mpr hr1)
    rw [h1] at hb1
    simp only [Bool.and_eq_true, decide_eq_true_eq] at hb1
    have hc := hb1.2
    rw [List.all_eq_true] at hc
    have hd := hc r₂ (List.mem_range.mpr hr2)
    simp only [Bool.or_eq_true, beq_iff_eq, decide_eq_true_eq] at hd
    rcases hd with hd | hd
    · exact hd.symm
    · exact absurd h2 hd

/-- the cyclic table of Z/3 on one generator, as a public view: rows 0 → 1 → 2 → 0 -/
def z3Table : Tab := #[#[1, 2], #[2, 0], #[0, 1]]

/-- non-vacuity of `degree_spec` on a concrete table: the hypothesis holds and the degree of the
    generator is 3, of its square 3, of its cube 1 -/
example : ActsOn (tbl 1 z3Table).get z3Table.size [1] ∧ degree 1 z3Table [1] = .ok 3 ∧
    degree 1 z3Table [1, 1] = .ok 3 ∧ degree 1 z3Table [1, 1, 1] = .ok 1 :=
  ⟨actsOnB_sound _ _ _ (by decide +kernel), by decide +kernel, by decide +kernel, by decide +kernel⟩

/-- `flattens_all` answers `true` exactly when every cone word has the stated degree, provided
    the degrees are computed (no panic): the short-circuit `all` -/
theorem flattensAll_true_iff (n : Nat) (ct : Tab) (cones : List (List Int × Nat)) :
    flattensAll n ct cones = .ok true ↔ ∀ c ∈ cones, degree n ct c.1 = .ok c.2 := by
  induction cones with
  | nil => simp [flattensAll]
  | cons c rest ih =>
    obtain ⟨wd, deg⟩ := c
    unfold flattensAll
    cases hd : degree n ct wd with
    | ok k =>
      by_cases hk : k = deg
      · subst hk
        simp only [if_true, ih, List.mem_cons, forall_eq_or_imp, hd, true_and]
      · simp only [if_neg hk, Outcome.ok.injEq, Bool.false_eq_true, List.mem_cons,
          forall_eq_or_imp, hd, false_iff, not_and]
        intro h; exact absurd h hk
    | err => simp [hd]
    | panic => simp [hd]

example : flattensAll 1 z3Table [([1], 3), ([1, 1, 1], 1)] = .ok true := by decide +kernel

/-! ### 4. the tables of the pipeline are valid permutation representations

`GroupOK fg` (Proofs/Delaney3dPipeline.lean) collects what is assumed of the presentation handed
to `construct_candidates`: relators and cone words over the letters `±1..±n` — proved for every
value the model of `fundamental_group` returns (C09 `fundamentalGroup_letters`,
`groupOK_of_fundamentalGroup`) — and the node budget of the model of `coset_tables` exhausting
the search tree (`FuelOK`, the hypothesis of C12's theorems — now a theorem, `D3.fuelOK`: the
model passes C12's `searchFuel`). -/

/-- **candidates_valid.**  Every table `construct_candidates` files under any point-group name —
    core tables of the tables of index ≤ 4 (C12 `extract_valid`, C13 `core_spec`) and
    intersections of two of them (C13 `intersection_spec`) — passes `validTable relators []`:
    complete, inverse-consistent, every relator closing at every row, transitive.  By C11's
    `validTable_action` it is a transitive permutation representation of ⟨1..n | relators⟩. -/
theorem candidates_valid (fg : FG.FundGroup) (hg : GroupOK fg) (cands : Candidates)
    (h : constructCandidates fg = .ok cands) :
    ∀ e ∈ cands, ∀ t ∈ e.2, SpecC11.validTable t fg.genToEdge.length fg.relators [] = true :=
  constructCandidates_valid fg hg cands h

/-- **degree_on_valid_tables.**  On every valid table — in particular on every core table,
    intersection table and candidate of the pipeline — and every word over the letters, `degree`
    returns (the iterator chain terminates, no `unwrap` fires) the least `k ≥ 1` with
    `0·w^k = 0`: the hypothesis of `degree_spec` holds.  Hence `flattens_all` returns as well. -/
theorem degree_on_valid_tables (n : Nat) (rels : List (List Int)) (t : Tab)
    (hv : SpecC11.validTable t n rels [] = true) :
    (∀ w : List Int, (∀ g ∈ w, g ∈ SpecC11.letters n) →
      ActsOn (tbl n t).get t.size w ∧
      ∃ k, degree n t w = .ok k ∧ 1 ≤ k ∧ k ≤ t.size ∧ iterTrace (tbl n t).get w k 0 = .ok 0 ∧
        ∀ j, 1 ≤ j → j < k → iterTrace (tbl n t).get w j 0 ≠ .ok 0) ∧
    (∀ cones : List (List Int × Nat), (∀ x ∈ cones, ∀ g ∈ x.1, g ∈ SpecC11.letters n) →
      ∃ b, flattensAll n t cones = .ok b) := by
  have hV := CosetP.valid_of_validTable hv
  exact ⟨fun w hw => ⟨actsOn_of_valid hV w hw, degree_valid hV w hw⟩, fun cones hc => flattensAll_ok hV cones hc⟩

/-- **core_type_total.**  The `panic!()` arm of `core_type_by_size` is unreachable in
    `construct_candidates`: every core table of the run is the core of a valid table with
    `k ≤ 4` rows; its rows are the elements of the permutation group the action generates on the
    `k` rows (C13 `core_spec`), a transitive subgroup of `S_k`, so their number is one of
    1, 2, 3, 4, 6, 8, 12, 24 (`transitive_le4_orders`), and `core_type` returns one of the eleven
    point-group names. -/
theorem core_type_total (fg : FG.FundGroup) (hg : GroupOK fg) (cts : List Tab)
    (h : coreTables fg.genToEdge.length
      (Cosets.cosetTables fg.genToEdge.length fg.relators Tables.candidateIndexBound (nodeFuel fg.genToEdge.length Tables.candidateIndexBound)) = .ok cts) :
    ∀ c ∈ cts, c.size ∈ [1, 2, 3, 4, 6, 8, 12, 24] ∧
      ∃ name, coreType fg.genToEdge.length c = .ok name ∧ name ∈ pointGroups := by
  intro c hc
  have hcore := constructCandidates_cores fg hg cts h c hc
  rw [coreTypeBySize_domain.2.2.2] at hcore
  obtain ⟨hsize, name, hname⟩ :=
    coreType_of_core hg.letters hcore coreTypeBySize_domain.1 coreTypeBySize_domain.2.1
  exact ⟨hsize, name, hname, coreType_in_pointGroups _ c name hname⟩

/-! ### 5. a returned pseudo-toroidal cover is a covering -/

/-- **ptc_result_is_cover.**  For every input with valid tables: whenever the model of
    `pseudo_toroidal_cover` returns `Some(cov)`, then with `oc` the oriented cover of the input (itself oriented, 3-dimensional,
    1 or 2 sheets) and `t` the selected candidate table — a valid table of the group —
    `cov = cover_for_table(oc, t, edge_to_word)` has `rows(t) · |oc|` chambers, dimension 3 and
    valid tables (in particular it is complete and every operation is an involution), the
    projection `d ↦ (d−1) mod |oc| + 1` onto the oriented cover commutes with every operation,
    and so does the composite projection `d ↦ (d−1) mod |input| + 1` onto the input.
    The hypotheses of C05's `cover_for_table_compat` are discharged: the candidate table is
    inverse-consistent (§4), and the two sides of every facet of `oc` carry mutually inverse edge
    words (C09 `edge_words_inverse`; `oc` has no mirrors: C05 `oriented_cover_oriented`). -/
theorem ptc_result_is_cover (s cov : DSymData) (hs : ValidTables s) (hsz : 1 ≤ s.size)
    (h : pseudoToroidalCover s = .ok (some cov)) :
    ∃ (oc : DSymData) (fg : FG.FundGroup) (t : Tab),
      orientedCover s = .ok oc ∧ ValidTables oc ∧ oc.view.isOriented = true ∧ oc.dim = 3 ∧
      oc.size = (if s.view.isOriented then 1 else 2) * s.size ∧
      FG.fundamentalGroup oc = .ok fg ∧
      SpecC11.validTable t fg.genToEdge.length fg.relators [] = true ∧
      t.size ∈ SpecC15.admissibleOrders ∧
      stabilizerInvariants fg.genToEdge.length fg.relators t = .ok [0, 0, 0] ∧
      Covers.coverForTable oc (tableData (tbl fg.genToEdge.length t)) fg.edgeToWord = .ok cov ∧
      cov.size = t.size * oc.size ∧ cov.dim = 3 ∧ ValidTables cov ∧
      (∀ i d, i ≤ 3 → 1 ≤ d → d ≤ cov.size →
        cproj oc.size (cov.dset.opU i d) = oc.dset.opU i (cproj oc.size d)) ∧
      (∀ i d, i ≤ 3 → 1 ≤ d → d ≤ cov.size →
        cproj s.size (cov.dset.opU i d) = s.dset.opU i (cproj s.size d)) := by
  obtain ⟨⟨oc, fg, cands, t, name, ts, dim3, _, hoc, hfg, hcands, _, hget, hmem, hinv, hcov⟩⟩ := ptc_run s cov h
  have hdim : 1 ≤ s.dim := by rw [dim3]; decide
  obtain ⟨oc', hoc', hori, hocdim, hocsize⟩ := C05.oriented_cover_oriented s hs hsz hdim
  have hoceq : oc = oc' := by
    have := hoc
    rw [hoc'] at this
    exact (Outcome.ok.inj this).symm
  subst hoceq
  -- valid tables of the oriented cover, and its projection onto the input
  have hboth : ValidTables oc ∧ ∀ i e, i ≤ s.dim → 1 ≤ e → e ≤ oc.size →
      cproj s.size (oc.dset.opU i e) = s.dset.opU i (cproj s.size e) := by
    obtain ⟨_, h1, h2⟩ := C05.oriented_cover_covering s hs hsz hdim
    cases ho : s.view.isOriented with
    | true =>
      have := h1 ho
      rw [hoc] at this
      have he : oc = s := Outcome.ok.inj this
      subst he
      refine ⟨hs, ?_⟩
      intro i e hi he1 he2
      have hr := hs.set.range i e hi he1 he2
      have hsd : oc.size = oc.dset.size := rfl
      rw [← hsd] at hr
      have hc1 : cproj oc.size e = e := by
        unfold cproj; rw [Nat.mod_eq_of_lt (by omega)]; omega
      have hc2 : cproj oc.size (oc.dset.opU i e) = oc.dset.opU i e := by
        unfold cproj; rw [Nat.mod_eq_of_lt (by omega)]; omega
      rw [hc1, hc2]
    | false =>
      obtain ⟨_, c, hc, hcs, _, hcv, hproj⟩ := h2 ho
      rw [hoc] at hc
      have he : oc = c := Outcome.ok.inj hc
      subst he
      exact ⟨hcv, fun i e hi he1 he2 => hproj i e hi he1 (by omega)⟩
  obtain ⟨hvoc, hprojoc⟩ := hboth
  have hG' := groupOK_of_fundamentalGroup hfg (fuelOK fg)
  -- the selected table is valid
  obtain ⟨e, he, hets⟩ := candGet_mem hget
  have hvt : SpecC11.validTable t fg.genToEdge.length fg.relators [] = true :=
    constructCandidates_valid fg hG' cands hcands e he t (by rw [hets]; exact hmem)
  have hV := CosetP.valid_of_validTable hvt
  have hrows : t.size ∈ SpecC15.admissibleOrders :=
    constructCandidates_sizes fg hG' coreTypeBySize_domain.1 coreTypeBySize_domain.2.1
      coreTypeBySize_domain.2.2.2 cands hcands e he t (by rw [hets]; exact hmem)
  have hocsz : 1 ≤ oc.size := by
    rw [hocsize]; split <;> omega
  have hocd : 1 ≤ oc.dim := by rw [hocdim]; exact hdim
  have hdef : Covers.allTracesDefined oc (tableData (tbl fg.genToEdge.length t)) fg.edgeToWord = true := by
    have hc := hcov
    unfold Covers.coverForTable at hc
    split at hc
    · assumption
    · cases hc
  obtain ⟨_, c'', hc'', h1, h2, h3, h4⟩ :=
    C05.cover_for_table_compat oc hvoc hocsz hocd (tableData (tbl fg.genToEdge.length t))
      (by rw [tableData_len]; exact hV.pos) fg.edgeToWord (tableData_invConsistent hV)
      (edgeWordsOk_of_oriented hvoc hori hfg _) hdef
  rw [hcov] at hc''
  have hce : cov = c'' := Outcome.ok.inj hc''
  subst hce
  rw [tableData_len] at h1 h4
  have hd3 : oc.dim = 3 := by rw [hocdim, dim3]
  refine ⟨oc, fg, t, hoc, hvoc, hori, hd3, hocsize, hfg, hvt, hrows, hinv, hcov, h1,
    by rw [h2, hd3], h3, ?_, ?_⟩
  · intro i d hi hd1 hd2
    exact h4 i d (by rw [hd3]; exact hi) hd1 (by rw [← h1]; exact hd2)
  · intro i d hi hd1 hd2
    have hA := h4 i d (by rw [hd3]; exact hi) hd1 (by rw [← h1]; exact hd2)
    have hr := cproj_range (d := d) hocsz
    have hB := hprojoc i (cproj oc.size d) (by rw [dim3]; exact hi) hr.1 hr.2
    have hk : 0 < (if s.view.isOriented then 1 else 2) := by split <;> omega
    rw [← cproj_cproj s.size (cov.dset.opU i d) _ hk, ← hocsize, hA, hB, hocsize, cproj_cproj s.size d _ hk]

/-- **ptc_result_is_oriented.**  A returned cover is oriented: no operation fixes a chamber (a loop
    would project to a loop of the oriented cover) and it is weakly oriented (the proper
    2-colouring of the oriented cover pulls back along the projection). -/
theorem ptc_result_is_oriented (s cov : DSymData) (hs : ValidTables s) (hsz : 1 ≤ s.size)
    (h : pseudoToroidalCover s = .ok (some cov)) : cov.view.isOriented = true := by
  obtain ⟨oc, _, _, _, hvoc, hori, hd3, hocsize, _, _, _, _, _, _, hcd, hvc, hproj, _⟩ :=
    ptc_result_is_cover s cov hs hsz h
  have hocsz : 1 ≤ oc.size := by rw [hocsize]; split <;> omega
  exact cover_of_oriented_is_oriented hvoc hvc hori hocsz (by rw [hcd, hd3])
    (fun i d hi h1 h2 => hproj i d (by rw [← hd3]; exact hi) h1 h2)

/-- **flattens_branchfree** (○ of DESIGN §6 C15, now proved).  Let `oc` be a valid symbol
    (`ValidSym`: valid tables, far operations commuting) all of whose degrees are positive, `fg`
    the value of `fundamental_group(oc)`, and `t` a valid, regular table (what every candidate of
    `construct_candidates` is: `constructCandidates_regular`) that flattens all cones
    (`flattens_all(t, fg.cones)`, what both loops test before filing a table).  Then
    `cov = cover_for_table(oc, t, edge_to_word)` has **branching number 1 on every adjacent
    2-orbit**: the orbit of every chamber `(sheet, b)` under `op_{i+1} ∘ op_i` has exactly the
    length `r(b)·v(b) = m(b)` of the degree of the base.  (Proof sketch in
    Proofs/Delaney3dBranch.lean: C05 monodromy covers, regularity = normality of the candidate
    subgroup, C09 orbit-word rotation lemmas, conjugation invariance of the order, `degree_spec`.) -/
theorem flattens_branchfree (oc cov : DSymData) (fg : FG.FundGroup) (t : Tab)
    (hs : ValidSym oc) (hsz : 1 ≤ oc.size) (hdim : 1 ≤ oc.dim)
    (hmpos : ∀ i b, i < oc.dim → 1 ≤ b → b ≤ oc.size → 1 ≤ oc.mVal i b)
    (hfg : FG.fundamentalGroup oc = .ok fg)
    (hvt : SpecC11.validTable t fg.genToEdge.length fg.relators [] = true)
    (hreg : Regular t fg.genToEdge.length fg.relators)
    (hflat : flattensAll fg.genToEdge.length t fg.cones = .ok true)
    (hcov : Covers.coverForTable oc (tableData (tbl fg.genToEdge.length t)) fg.edgeToWord = .ok cov) :
    ∀ i d, i < oc.dim → 1 ≤ d → d ≤ cov.size → cov.vPartial i (i + 1) d = .ok (some 1) := by
  have hV : CosetP.Valid t fg.nrGenerators fg.relators [] := CosetP.valid_of_validTable hvt
  have hσ := sheetMap_agrees hs hdim hfg hV
  have hcompat := CoversP.agrees_compat hσ hs.set
  obtain ⟨c, hc, hsize, _, _, hop, hdeg⟩ := cover_ok oc hs.toValidTables hsz hdim hV.pos hcompat
  have hdef : Covers.allTracesDefined oc (tableData (tbl fg.genToEdge.length t)) fg.edgeToWord = true := by
    have h := hcov
    unfold Covers.coverForTable at h
    split at h
    · assumption
    · cases h
  have hce : cov = c := by
    have h := hcov
    rw [Covers.coverForTable_eq_cover hdef, tableData_len] at h
    have hc' : cover oc t.size (Covers.sheetMap (tableData (tbl fg.genToEdge.length t)) fg.edgeToWord) = .ok c := hc
    rw [hc'] at h
    exact (Outcome.ok.inj h).symm
  subst hce
  intro i d hi hd1 hd2
  rw [hsize] at hd2
  obtain ⟨r, hr, _, hv, _⟩ := hdeg i d hi hd1 hd2
  have hp := cproj_range (d := d) hsz
  have hm := CoversP.mVal_eq_orb hs hi hp.1 hp.2
  have hpos := hmpos i _ hi hp.1 hp.2
  have hleast := cover_leastPeriod_flat hs hdim hfg hV hsz hreg hflat (c := cov.dset) hop hi hd1 hd2
    (by rw [← hm]; exact hpos)
  rw [← hm] at hleast
  have : r = oc.mVal i (cproj oc.size d) := hr.unique hleast
  rw [hv, this, Nat.div_self hpos]

/-- **flattens_branchfree_far** — the same for the NON-ADJACENT index pairs.  Under the hypotheses
    of `flattens_branchfree` (no positivity of degrees needed), the cover has branching number 1 on
    every pair `i + 1 < j`: the two operations never agree on a chamber.  (In the base a 2-orbit of
    a far pair with `op_i b = op_j b` is a cone of degree 2 of `fundamental_group`; the table
    flattens it, so the orbit of every chamber over `b` under `op_j ∘ op_i` has length
    `r·v = 2` — `cover_leastPeriod_flat_pair`, the argument of `flattens_branchfree` for an arbitrary
    pair — and `op_i x = op_j x` would give length 1.) -/
theorem flattens_branchfree_far (oc cov : DSymData) (fg : FG.FundGroup) (t : Tab)
    (hs : ValidSym oc) (hsz : 1 ≤ oc.size) (hdim : 1 ≤ oc.dim)
    (hfg : FG.fundamentalGroup oc = .ok fg)
    (hvt : SpecC11.validTable t fg.genToEdge.length fg.relators [] = true)
    (hreg : Regular t fg.genToEdge.length fg.relators)
    (hflat : flattensAll fg.genToEdge.length t fg.cones = .ok true)
    (hcov : Covers.coverForTable oc (tableData (tbl fg.genToEdge.length t)) fg.edgeToWord = .ok cov) :
    ∀ i j d, i + 1 < j → j ≤ oc.dim → 1 ≤ d → d ≤ cov.size →
      cov.vPartial i j d = .ok (some 1) ∧ cov.vPartial j i d = .ok (some 1) := by
  have hV : CosetP.Valid t fg.nrGenerators fg.relators [] := CosetP.valid_of_validTable hvt
  have hσ := sheetMap_agrees hs hdim hfg hV
  have hcompat := CoversP.agrees_compat hσ hs.set
  obtain ⟨c, hc, hsize, hcdim, hvc, hop, _⟩ := cover_ok oc hs.toValidTables hsz hdim hV.pos hcompat
  have hdef : Covers.allTracesDefined oc (tableData (tbl fg.genToEdge.length t)) fg.edgeToWord = true := by
    have h := hcov
    unfold Covers.coverForTable at h
    split at h
    · assumption
    · cases h
  have hce : cov = c := by
    have h := hcov
    rw [Covers.coverForTable_eq_cover hdef, tableData_len] at h
    have hc' : cover oc t.size (Covers.sheetMap (tableData (tbl fg.genToEdge.length t)) fg.edgeToWord) = .ok c := hc
    rw [hc'] at h
    exact (Outcome.ok.inj h).symm
  subst hce
  intro i j d hij hj hd1 hd2
  have hi : i ≤ oc.dim := by omega
  have hp := cproj_range (d := d) hsz
  have hd2' : d ≤ t.size * oc.size := by rw [← hsize]; exact hd2
  have h2 : FGP.orbR oc i j (cproj oc.size d) * FGP.orbV oc i j (cproj oc.size d) = 2 :=
    CoversP.orb_far (Or.inl hij) hi hj hp.1 hp.2
  have hleast := cover_leastPeriod_flat_pair hs hdim hfg hV hsz hreg hflat (c := cov.dset) hop
    (show i < j by omega) hj hd1 hd2' (by rw [h2]; decide)
  rw [h2] at hleast
  have hci : i ≤ cov.dim := by rw [hcdim]; exact hi
  have hcj : j ≤ cov.dim := by rw [hcdim]; exact hj
  have hne : cov.dset.opU i d ≠ cov.dset.opU j d := by
    intro he
    apply hleast.2.2 1 (le_refl 1) (by decide)
    show (cov.dset.comp i j)^[1] d = d
    show cov.dset.opU j (cov.dset.opU i d) = d
    rw [he]
    exact hvc.set.invol j d hcj hd1 hd2
  have hopne : cov.op i d ≠ cov.op j d := by
    rw [op_eq_opU hci hd1 hd2, op_eq_opU hcj hd1 hd2]
    intro he
    exact hne (Option.some.inj he)
  constructor
  · rw [cov.vPartial_far' (Or.inl hij) hci hcj hd1 hd2, if_neg hopne]
  · rw [cov.vPartial_far' (Or.inr hij) hcj hci hd1 hd2, if_neg (fun he => hopne he.symm)]

/-- the degrees of the oriented cover of a complete valid symbol are positive -/
theorem orientedCover_mVal_pos (s oc : DSymData) (hs : ValidSym s) (hsz : 1 ≤ s.size) (hdim : 1 ≤ s.dim)
    (hcompl : s.isCompletePartial = true) (hoc : orientedCover s = .ok oc) :
    ∀ i b, i < oc.dim → 1 ≤ b → b ≤ oc.size → 1 ≤ oc.mVal i b := by
  cases ho : s.view.isOriented with
  | true =>
    have := (C05.oriented_cover_covering s hs.toValidTables hsz hdim).2.1 ho
    rw [hoc] at this
    have he : oc = s := Outcome.ok.inj this
    subst he
    intro i b hi h1 h2
    exact CoversP.mVal_pos hs.toValidTables hcompl hi h1 h2
  | false =>
    obtain ⟨c, hc, hcs, hcd, hvc, _, hdeg, _⟩ := D2.oriCover_pkg hs hsz hdim ho
    rw [hoc] at hc
    have he : oc = c := Outcome.ok.inj hc
    subst he
    intro i b hi h1 h2
    have hi' : i < s.dim := by rw [← hcd]; exact hi
    have hm := (hdeg i b hi' h1 (by rw [← hcs]; exact h2)).2.2
    have hp := cproj_range (d := b) hsz
    rw [hvc.toValidTables.mPartial_adj hi h1 h2, hs.toValidTables.mPartial_adj hi' hp.1 hp.2] at hm
    have : oc.mVal i b = s.mVal i (cproj s.size b) := Option.some.inj (Outcome.ok.inj hm)
    rw [this]
    exact CoversP.mVal_pos hs.toValidTables hcompl hi' hp.1 hp.2

/-- **ptc_result_is_branchfree.**  For every valid symbol (`ValidSym`): a cover returned by the
    model of `pseudo_toroidal_cover` has branching number 1 on every adjacent 2-orbit
    (`flattens_branchfree` applied to the selected candidate, which is valid, regular and flattens
    all cones) and, second conjunct, **for EVERY pair of indices `i, j ≤ 3`** at every chamber — the
    non-adjacent pairs (0,2), (0,3), (1,3) by `flattens_branchfree_far`.  Moreover (C05 monodromy covers) it is a valid symbol again, complete, has at every
    chamber and for ALL index pairs the degree `m_ij` of its projection to the oriented cover, and
    is connected if the oriented cover is. -/
theorem ptc_result_is_branchfree (s cov : DSymData) (hs : ValidSym s) (hsz : 1 ≤ s.size)
    (h : pseudoToroidalCover s = .ok (some cov)) :
    (∀ i d, i < 3 → 1 ≤ d → d ≤ cov.size → cov.vPartial i (i + 1) d = .ok (some 1)) ∧
    (∀ i j d, i ≤ 3 → j ≤ 3 → 1 ≤ d → d ≤ cov.size → cov.vPartial i j d = .ok (some 1)) ∧
    ValidSym cov ∧ cov.isCompletePartial = true ∧
    ∃ oc, orientedCover s = .ok oc ∧
      (∀ i j d, i ≤ 3 → j ≤ 3 → 1 ≤ d → d ≤ cov.size →
        cov.mPartial i j d = oc.mPartial i j (cproj oc.size d)) ∧
      (oc.view.isConnected = true → cov.view.isConnected = true) := by
  obtain ⟨⟨oc, fg, cands, t, name, ts, dim3, hcompl, hoc, hfg, hcands, _, hget, hmem, _, hcov⟩⟩ := ptc_run s cov h
  have hdim : 1 ≤ s.dim := by rw [dim3]; decide
  have hsoc := orientedCover_validSym hs hsz hdim hoc
  obtain ⟨oc', hoc', _, hocdim, hocsize⟩ := C05.oriented_cover_oriented s hs.toValidTables hsz hdim
  have hoceq : oc = oc' := by
    have := hoc
    rw [hoc'] at this
    exact (Outcome.ok.inj this).symm
  subst hoceq
  have hocsz : 1 ≤ oc.size := by rw [hocsize]; split <;> omega
  have hd3 : oc.dim = 3 := by rw [hocdim, dim3]
  have hocd : 1 ≤ oc.dim := by rw [hd3]; decide
  have hG := groupOK_of_fundamentalGroup hfg (fuelOK fg)
  obtain ⟨e, he, hets⟩ := candGet_mem hget
  have hQ := constructCandidates_regular fg hG cands hcands e he t (by rw [hets]; exact hmem)
  have hflat := constructCandidates_flat fg cands hcands e he t (by rw [hets]; exact hmem)
  have hmpos := orientedCover_mVal_pos s oc hs hsz hdim hcompl hoc
  have hV : CosetP.Valid t fg.nrGenerators fg.relators [] := CosetP.valid_of_validTable hQ.1
  obtain ⟨hsize, hcd, hvc, _, hdeg, hcomp, hconn⟩ := coverForTable_mono hsoc hocd hfg hV hocsz hcov
  have hoccompl : oc.isCompletePartial = true := by
    apply D2.complete_of_vN hsoc.toValidTables
    intro i d hi h1 h2
    have := hmpos i d hi h1 h2
    unfold DSymData.mVal at this
    intro h0
    rw [h0, Nat.mul_zero] at this
    omega
  have hadj : ∀ i d, i < 3 → 1 ≤ d → d ≤ cov.size → cov.vPartial i (i + 1) d = .ok (some 1) := by
    intro i d hi h1 h2
    exact flattens_branchfree oc cov fg t hsoc hocsz hocd hmpos hfg hQ.1 hQ.2 hflat hcov i d
      (by rw [hd3]; exact hi) h1 h2
  refine ⟨hadj, ?_, hvc, hcomp hoccompl, oc, hoc, ?_, hconn⟩
  · intro i j d hi hj h1 h2
    have hcd3 : cov.dim = 3 := by rw [hcd, hd3]
    rcases Nat.lt_trichotomy i j with hlt | heq | hgt
    · by_cases ha : j = i + 1
      · subst ha; exact hadj i d (by omega) h1 h2
      · exact (flattens_branchfree_far oc cov fg t hsoc hocsz hocd hfg hQ.1 hQ.2 hflat hcov i j d
          (by omega) (by rw [hd3]; exact hj) h1 h2).1
    · subst heq
      exact cov.vPartial_diag (by rw [hcd3]; exact hi) h1 h2
    · by_cases ha : i = j + 1
      · subst ha
        rw [DSymData.vPartial_symm]
        exact hadj j d (by omega) h1 h2
      · exact (flattens_branchfree_far oc cov fg t hsoc hocsz hocd hfg hQ.1 hQ.2 hflat hcov j i d
          (by omega) (by rw [hd3]; exact hi) h1 h2).2
  · intro i j d hi hj h1 h2
    exact hdeg i j d (by rw [hd3]; exact hi) (by rw [hd3]; exact hj) h1 (by rw [← hsize]; exact h2)

/-- **ptc_sheet_number.**  The sheet number of a returned cover over the oriented cover is the
    number of rows of the selected candidate, one of 1, 2, 3, 4, 6, 8, 12, 24 — the orders of the
    eleven crystallographic rotation groups (`names_orders_consistent`): core tables have such a
    size (`core_type_total`), and the second loop files an intersection only with 6 (`z6`) or 12
    (`d6`) rows.  Over the input the sheet number is that or twice that. -/
theorem ptc_sheet_number (s cov : DSymData) (hs : ValidTables s) (hsz : 1 ≤ s.size)
    (h : pseudoToroidalCover s = .ok (some cov)) :
    ∃ (oc : DSymData) (k : Nat), orientedCover s = .ok oc ∧ cov.size = k * oc.size ∧
      k ∈ SpecC15.admissibleOrders ∧
      oc.size = (if s.view.isOriented then 1 else 2) * s.size := by
  obtain ⟨oc, _, t, hoc, _, _, _, hocsize, _, _, hk, _, _, hsize, _⟩ := ptc_result_is_cover s cov hs hsz h
  exact ⟨oc, t.size, hoc, hsize, hk, hocsize⟩

/-! ### 6. the selected subgroup abelianises to Z³ -/

/-- **ptc_selected_subgroup_is_Z3_abelianised.**  Whenever the model returns `Some(cov)`, the
    selection test has established the following about the group `G = ⟨1..n | relators⟩` that
    `fundamental_group` returned for the oriented cover (the orbifold group of `oc`: C09
    `presents_orbifold_group`, there written over ℕ-indexed generators; the re-indexing is
    Proofs/Delaney3dReindex.lean, used in `ptc_selected_subgroup_of_orbifold_group`): `G` acts transitively on the rows of the selected valid table `t`; the
    stabiliser `K` of row 0 has index `rows(t)` (the sheet number of `cov` over `oc`); the model of
    `stabilizer` returned a presentation `⟨gens | srels⟩` with an **injective** homomorphism onto
    `K` (C13 `stabilizer_presentation_iso`: `⟨gens | srels⟩ ≅ K`); and the model of
    `abelian_invariants` of that presentation is `[0, 0, 0]` — which is the determinantal-divisor
    definition of C14 (`abelian_invariants_correct`, unconditional since the BigInt repair): the
    relation matrix of the presentation of `K` has `gens − 3` invariant factors, all equal to 1,
    i.e. `K` abelianises to Z³.  (That `π₁(cov) ≅ K` — the covering-space correspondence — is proved
    below: `ptc_cover_group_is_selected_subgroup`, `ptc_cover_has_H1_Z3`; this theorem is the
    algebraic half, about the presentation only.) -/
theorem ptc_selected_subgroup_is_Z3_abelianised (s cov : DSymData) (hs : ValidTables s) (hsz : 1 ≤ s.size)
    (h : pseudoToroidalCover s = .ok (some cov)) :
    ∃ (oc : DSymData) (fg : FG.FundGroup) (t : Tab)
      (hv : SpecC11.validTable t fg.genToEdge.length fg.relators [] = true)
      (gens srels : List (List Int)),
      orientedCover s = .ok oc ∧ FG.fundamentalGroup oc = .ok fg ∧
      Covers.coverForTable oc (tableData (tbl fg.genToEdge.length t)) fg.edgeToWord = .ok cov ∧
      cov.size = t.size * oc.size ∧
      Stab.stabilizer 0 fg.relators (Cosets.Table.ofView fg.genToEdge.length t) = .ok (gens, srels) ∧
      Inv.abelianInvariants gens.length srels = .ok [0, 0, 0] ∧
      ((MulAction.stabilizer (Equiv.Perm (Fin t.size))
          (⟨0, (CosetP.valid_of_validTable hv).pos⟩ : Fin t.size)).comap
        (CosetP.actionHom (CosetP.valid_of_validTable hv))).index = t.size ∧
      (∃ f : PresentedGroup (CosetP.relSet gens.length srels) →*
            PresentedGroup (CosetP.relSet fg.genToEdge.length fg.relators),
        Function.Injective f ∧
        f.range = (MulAction.stabilizer (Equiv.Perm (Fin t.size))
            (⟨0, (CosetP.valid_of_validTable hv).pos⟩ : Fin t.size)).comap
          (CosetP.actionHom (CosetP.valid_of_validTable hv))) ∧
      SpecC14.expected gens.length srels = [0, 0, 0] := by
  obtain ⟨oc, fg, t, hoc, _, _, _, _, hfg, hvt, _, hinv, hcov, hsize, _⟩ := ptc_result_is_cover s cov hs hsz h
  have hV := CosetP.valid_of_validTable hvt
  unfold stabilizerInvariants at hinv
  split at hinv
  · rename_i gens srels hst
    refine ⟨oc, fg, t, hvt, gens, srels, hoc, hfg, hcov, hsize, hst, hinv, CosetP.index_stab0 hV, ?_, ?_⟩
    · obtain ⟨f, _, hrange, hinj⟩ :=
        C13.stabilizer_presentation_iso t fg.genToEdge.length fg.relators hvt 0 hV.pos gens srels hst
      exact ⟨f, hinj, hrange⟩
    · have hin : ∀ w ∈ srels, ∀ g ∈ w, Inv.InRange gens.length g :=
        fun w hw g hg => C13.stabilizer_relators_letters t fg.genToEdge.length fg.relators hvt 0 hV.pos
          gens srels hst w hw g hg
      have := C14.abelian_invariants_correct gens.length srels hin
      rw [hinv] at this
      exact (Outcome.ok.inj this).symm
  · cases hinv
  · cases hinv

/-- **ptc_selected_subgroup_of_orbifold_group** — (4) stated about the orbifold group itself.
    Let `TGroup oc` be the textbook orbifold fundamental group of the oriented cover (C09: one
    generator per chamber facet; pairing, spanning-tree and 2-orbit relators), which the value of
    `fundamental_group(oc)` presents (C09 `presents_orbifold_group`; the ℕ-indexed presentation of
    C09 and the `Fin n`-indexed one of C11/C13 are identified by `upHom` / `downHom`,
    Proofs/Delaney3dReindex.lean).  Whenever the model returns `Some(cov)`: `TGroup oc` acts on
    the rows of the selected table `t` by the monodromy representation `rhoT` (C05), transitively;
    the stabiliser `K ≤ TGroup oc` of row 0 has index `rows(t)` — the sheet number of `cov` over
    `oc` —; and the presentation `⟨gens | srels⟩` returned by the model of `stabilizer`, whose
    `abelian_invariants` model value is `[0, 0, 0]`, maps **isomorphically onto `K`**. -/
theorem ptc_selected_subgroup_of_orbifold_group (s cov : DSymData) (hs : ValidSym s) (hsz : 1 ≤ s.size)
    (h : pseudoToroidalCover s = .ok (some cov)) :
    ∃ (oc : DSymData) (fg : FG.FundGroup) (t : Tab) (hsoc : ValidSym oc) (hdim : 1 ≤ oc.dim)
      (hfg : FG.fundamentalGroup oc = .ok fg) (hV : CosetP.Valid t fg.nrGenerators fg.relators [])
      (gens srels : List (List Int)),
      orientedCover s = .ok oc ∧ cov.size = t.size * oc.size ∧
      Covers.coverForTable oc (tableData (tbl fg.nrGenerators t)) fg.edgeToWord = .ok cov ∧
      Stab.stabilizer 0 fg.relators (Cosets.Table.ofView fg.nrGenerators t) = .ok (gens, srels) ∧
      Inv.abelianInvariants gens.length srels = .ok [0, 0, 0] ∧
      ((MulAction.stabilizer (Equiv.Perm (Fin t.size)) (⟨0, hV.pos⟩ : Fin t.size)).comap
        (CoversP.rhoT hsoc hdim hfg hV)).index = t.size ∧
      ∃ fT : PresentedGroup (CosetP.relSet gens.length srels) →* FGP.TGroup oc,
        Function.Injective fT ∧
        fT.range = (MulAction.stabilizer (Equiv.Perm (Fin t.size)) (⟨0, hV.pos⟩ : Fin t.size)).comap
          (CoversP.rhoT hsoc hdim hfg hV) := by
  obtain ⟨oc, fg, t, hvt, gens, srels, hoc, hfg, hcov, hsize, hst, hinv, hidx, ⟨f, hinj, hrange⟩, _⟩ :=
    ptc_selected_subgroup_is_Z3_abelianised s cov hs.toValidTables hsz h
  obtain ⟨⟨_, _, _, _, _, _, dim3, _, hoc2, _⟩⟩ := ptc_run s cov h
  have hdims : 1 ≤ s.dim := by rw [dim3]; decide
  have hsoc := orientedCover_validSym hs hsz hdims hoc
  obtain ⟨oc', hoc', _, hocdim, _⟩ := C05.oriented_cover_oriented s hs.toValidTables hsz hdims
  have hocd : 1 ≤ oc.dim := by
    have : oc = oc' := by
      have := hoc
      rw [hoc'] at this
      exact (Outcome.ok.inj this).symm
    rw [this, hocdim]; exact hdims
  have hV : CosetP.Valid t fg.nrGenerators fg.relators [] := CosetP.valid_of_validTable hvt
  have hlet := (FGP.fundamentalGroup_letters oc fg hfg).1
  obtain ⟨h1, fT, h2, h3⟩ := transfer_stabiliser hlet hV (FGP.presIso hsoc hocd hfg) f hinj hrange hidx
  exact ⟨oc, fg, t, hsoc, hocd, hfg, hV, gens, srels, hoc, hsize, hcov, hst, hinv, h1, fT, h2, h3⟩

/-- **ptc_cover_group_is_selected_subgroup** — π₁ of the RETURNED COVER.
    Whenever the model returns `Some(cov)` for a valid connected D-symbol: the textbook orbifold fundamental group `TGroup cov` of the returned cover (C09) —
    and with it the group `MGroup f'` presented by the value `f'` of the model's own
    `fundamental_group(cov)` (C09 `returned_group_is_textbook_group`) — is **isomorphic to the
    selected subgroup `K`**: the stabiliser of row 0 of the monodromy action of `TGroup oc` on
    the rows of the selected table, of index `rows(t)` = sheet number of `cov` over `oc`; and
    hence to the presented group `⟨gens | srels⟩` the model of `stabilizer` returned for that
    table, on which the selection test `abelian_invariants == [0,0,0]` was evaluated.
    Composition of C05 `cover_group_iso_stabiliser_mono` (covering-space correspondence),
    `ptc_selected_subgroup_of_orbifold_group` (C13 `stabilizer_presentation_iso`, C09
    `presents_orbifold_group`, re-indexing), C14 `abelian_invariants_correct`. -/
theorem ptc_cover_group_is_selected_subgroup (s cov : DSymData) (hs : ValidSym s) (hsz : 1 ≤ s.size)
    (hconn : s.view.isConnected = true)
    (h : pseudoToroidalCover s = .ok (some cov)) :
    ∃ (oc : DSymData) (fg : FG.FundGroup) (t : Tab) (hsoc : ValidSym oc) (hdim : 1 ≤ oc.dim)
      (hfg : FG.fundamentalGroup oc = .ok fg) (hV : CosetP.Valid t fg.nrGenerators fg.relators [])
      (gens srels : List (List Int)),
      orientedCover s = .ok oc ∧ cov.size = t.size * oc.size ∧
      ((MulAction.stabilizer (Equiv.Perm (Fin t.size)) (⟨0, hV.pos⟩ : Fin t.size)).comap
        (CoversP.rhoT hsoc hdim hfg hV)).index = t.size ∧
      Nonempty (FGP.TGroup cov ≃*
        ((MulAction.stabilizer (Equiv.Perm (Fin t.size)) (⟨0, hV.pos⟩ : Fin t.size)).comap
          (CoversP.rhoT hsoc hdim hfg hV))) ∧
      Nonempty (FGP.TGroup cov ≃* PresentedGroup (CosetP.relSet gens.length srels)) ∧
      (∃ f', FG.fundamentalGroup cov = .ok f' ∧
        Nonempty (FGP.MGroup f' ≃* PresentedGroup (CosetP.relSet gens.length srels))) ∧
      Stab.stabilizer 0 fg.relators (Cosets.Table.ofView fg.nrGenerators t) = .ok (gens, srels) ∧
      Inv.abelianInvariants gens.length srels = .ok [0, 0, 0] ∧
      SpecC14.expected gens.length srels = [0, 0, 0] := by
  obtain ⟨oc, fg, t, hsoc, hdim, hfg, hV, gens, srels, hoc, hsize, hcov, hst, hinv, hidx, fT, hfTinj, hfTrange⟩ :=
    ptc_selected_subgroup_of_orbifold_group s cov hs hsz h
  obtain ⟨⟨_, _, _, _, _, _, dim3, _⟩⟩ := ptc_run s cov h
  have hocsz : 1 ≤ oc.size := by
    obtain ⟨oc', hoc', _, _, hocsize⟩ := C05.oriented_cover_oriented s hs.toValidTables hsz
      (by rw [dim3]; decide)
    have : oc = oc' := by
      have := hoc
      rw [hoc'] at this
      exact (Outcome.ok.inj this).symm
    rw [this, hocsize]; split <;> omega
  have hdef : Covers.allTracesDefined oc (tableData (tbl fg.nrGenerators t)) fg.edgeToWord = true := by
    have hc := hcov
    unfold Covers.coverForTable at hc
    split at hc
    · assumption
    · cases hc
  have hc : cover oc t.size (Covers.sheetMap (tableData (tbl fg.nrGenerators t)) fg.edgeToWord) = .ok cov := by
    rw [← hcov, Covers.coverForTable_eq_cover hdef, tableData_len]
  obtain ⟨hcover, φ, _, _, hφinj, hφrange⟩ :=
    CoversP.cover_group_iso_stabiliser_mono hsoc hocsz hdim
      (DS.orientedCover_connected s hs.toValidTables hsz (by rw [dim3]; decide) hconn hoc) hfg hV
      (sheetMap_agrees hsoc hdim hfg hV) hc
  have eK : FGP.TGroup cov ≃*
      ((MulAction.stabilizer (Equiv.Perm (Fin t.size)) (⟨0, hV.pos⟩ : Fin t.size)).comap
        (CoversP.rhoT hsoc hdim hfg hV)) :=
    (MonoidHom.ofInjective hφinj).trans (MulEquiv.subgroupCongr hφrange)
  have eP : FGP.TGroup cov ≃* PresentedGroup (CosetP.relSet gens.length srels) :=
    eK.trans ((MulEquiv.subgroupCongr hfTrange.symm).trans (MonoidHom.ofInjective hfTinj).symm)
  have hcd : 1 ≤ cov.dim := by rw [hcover.dim]; exact hdim
  obtain ⟨f', hf', ⟨eM⟩⟩ := C09.returned_group_is_textbook_group cov hcover.valid hcd
  refine ⟨oc, fg, t, hsoc, hdim, hfg, hV, gens, srels, hoc, hsize, hidx, ⟨eK⟩, ⟨eP⟩,
    ⟨f', hf', ⟨eM.trans eP⟩⟩, hst, hinv, ?_⟩
  have hin : ∀ w ∈ srels, ∀ g ∈ w, Inv.InRange gens.length g :=
    fun w hw g hg => C13.stabilizer_relators_letters t fg.nrGenerators fg.relators
      (RebaseP.validTable_of_valid hV) 0 hV.pos gens srels hst w hw g hg
  have := C14.abelian_invariants_correct gens.length srels hin
  rw [hinv] at this
  exact (Outcome.ok.inj this).symm

/-- **ptc_cover_has_H1_Z3.**  For a valid connected D-symbol: whenever the model
    of `pseudo_toroidal_cover` returns `Some(cov)`, **the abelianisation of the orbifold
    fundamental group of the returned cover is ℤ³** — as a group isomorphism in Mathlib's sense:
    `Abelianization (TGroup cov) ≃* Multiplicative (Fin 3 → ℤ)`, where `TGroup cov` is the textbook
    orbifold group of C09 (which the model's own `fundamental_group(cov)` presents).
    Chain: `TGroup cov ≃* K` (C05 covering-space correspondence) `≃* ⟨gens | srels⟩` (C13
    `stabilizer_presentation_iso`, C09 `presents_orbifold_group`, re-indexing); the selection test
    gives `abelian_invariants(gens, srels) = [0,0,0]`, which is `SpecC14.expected` (C14
    `abelian_invariants_correct`, C13 `stabilizer_relators_letters`), and a presentation with
    expected invariants `[0,0,0]` abelianises to ℤ³ (C14 `abelianization_free_of_expected`). -/
theorem ptc_cover_has_H1_Z3 (s cov : DSymData) (hs : ValidSym s) (hsz : 1 ≤ s.size)
    (hconn : s.view.isConnected = true)
    (h : pseudoToroidalCover s = .ok (some cov)) :
    Nonempty (Abelianization (FGP.TGroup cov) ≃* Multiplicative (Fin 3 → ℤ)) := by
  obtain ⟨_, fg, t, _, _, _, hV, gens, srels, _, _, _, _, ⟨eP⟩, _, hst, _, hexp⟩ :=
    ptc_cover_group_is_selected_subgroup s cov hs hsz hconn h
  have hin : ∀ w ∈ srels, ∀ g ∈ w, Inv.InRange gens.length g :=
    fun w hw g hg => C13.stabilizer_relators_letters t fg.nrGenerators fg.relators
      (RebaseP.validTable_of_valid hV) 0 hV.pos gens srels hst w hw g hg
  obtain ⟨eZ⟩ := C14.abelianization_free_of_expected gens.length 3 srels hin (by rw [hexp]; rfl)
  exact ⟨(MulEquiv.abelianizationCongr eP).trans eZ⟩

/-- the presentation form (corollary) -/
theorem ptc_cover_group_presentation (s cov : DSymData) (hs : ValidSym s) (hsz : 1 ≤ s.size)
    (hconn : s.view.isConnected = true)
    (h : pseudoToroidalCover s = .ok (some cov)) :
    ∃ (gens srels : List (List Int)),
      Inv.abelianInvariants gens.length srels = .ok [0, 0, 0] ∧
      SpecC14.expected gens.length srels = [0, 0, 0] ∧
      Nonempty (FGP.TGroup cov ≃* PresentedGroup (CosetP.relSet gens.length srels)) := by
  obtain ⟨_, _, _, _, _, _, _, gens, srels, _, _, _, _, heP, _, _, hinv, hexp⟩ :=
    ptc_cover_group_is_selected_subgroup s cov hs hsz hconn h
  exact ⟨gens, srels, hinv, hexp, heP⟩

/-! ### 7. the two conclusions as predicates (used by Props/C17) -/

/-- the conclusion of `ptc_result_is_cover` -/
def CoverFacts (s cov : DSymData) : Prop :=
  ∃ (oc : DSymData) (fg : FG.FundGroup) (t : Tab),
    orientedCover s = .ok oc ∧ ValidTables oc ∧ oc.view.isOriented = true ∧ oc.dim = 3 ∧
    oc.size = (if s.view.isOriented then 1 else 2) * s.size ∧
    FG.fundamentalGroup oc = .ok fg ∧
    SpecC11.validTable t fg.genToEdge.length fg.relators [] = true ∧
    t.size ∈ SpecC15.admissibleOrders ∧
    stabilizerInvariants fg.genToEdge.length fg.relators t = .ok [0, 0, 0] ∧
    Covers.coverForTable oc (tableData (tbl fg.genToEdge.length t)) fg.edgeToWord = .ok cov ∧
    cov.size = t.size * oc.size ∧ cov.dim = 3 ∧ ValidTables cov ∧
    (∀ i d, i ≤ 3 → 1 ≤ d → d ≤ cov.size →
      cproj oc.size (cov.dset.opU i d) = oc.dset.opU i (cproj oc.size d)) ∧
    (∀ i d, i ≤ 3 → 1 ≤ d → d ≤ cov.size →
      cproj s.size (cov.dset.opU i d) = s.dset.opU i (cproj s.size d))

/-- the conclusion of `ptc_selected_subgroup_is_Z3_abelianised` -/
def SubgroupFacts (s cov : DSymData) : Prop :=
  ∃ (oc : DSymData) (fg : FG.FundGroup) (t : Tab)
    (hv : SpecC11.validTable t fg.genToEdge.length fg.relators [] = true)
    (gens srels : List (List Int)),
    orientedCover s = .ok oc ∧ FG.fundamentalGroup oc = .ok fg ∧
    Covers.coverForTable oc (tableData (tbl fg.genToEdge.length t)) fg.edgeToWord = .ok cov ∧
    cov.size = t.size * oc.size ∧
    Stab.stabilizer 0 fg.relators (Cosets.Table.ofView fg.genToEdge.length t) = .ok (gens, srels) ∧
    Inv.abelianInvariants gens.length srels = .ok [0, 0, 0] ∧
    ((MulAction.stabilizer (Equiv.Perm (Fin t.size))
        (⟨0, (CosetP.valid_of_validTable hv).pos⟩ : Fin t.size)).comap
      (CosetP.actionHom (CosetP.valid_of_validTable hv))).index = t.size ∧
    (∃ f : PresentedGroup (CosetP.relSet gens.length srels) →*
          PresentedGroup (CosetP.relSet fg.genToEdge.length fg.relators),
      Function.Injective f ∧
      f.range = (MulAction.stabilizer (Equiv.Perm (Fin t.size))
          (⟨0, (CosetP.valid_of_validTable hv).pos⟩ : Fin t.size)).comap
        (CosetP.actionHom (CosetP.valid_of_validTable hv))) ∧
    SpecC14.expected gens.length srels = [0, 0, 0]

/-- both, for every returned cover -/
theorem ptc_certificate (s cov : DSymData) (hs : ValidTables s) (hsz : 1 ≤ s.size)
    (h : pseudoToroidalCover s = .ok (some cov)) : CoverFacts s cov ∧ SubgroupFacts s cov :=
  ⟨ptc_result_is_cover s cov hs hsz h, ptc_selected_subgroup_is_Z3_abelianised s cov hs hsz h⟩

/-! ### 7b. totality: the model of `pseudo_toroidal_cover` panics only on its three assertions -/

/-- the assertion loop on the branching numbers never runs out of fuel on a valid symbol: it
    answers or it is the assertion that fails -/
theorem crystLoop_ne_err (s : DSymData) (hs : ValidSym s) (i : Nat) (hi : i + 1 ≤ s.dim) :
    ∀ l : List Nat, (∀ d ∈ l, 1 ≤ d ∧ d ≤ s.size) → crystLoop s i l ≠ .err
  | [], _ => by unfold crystLoop; intro h; cases h
  | d :: rest, h => by
    have hd := h d (List.mem_cons_self ..)
    obtain ⟨b, hb⟩ := hs.vPartial_some (show i ≤ s.dim by omega) hi hd.1 hd.2
    unfold crystLoop
    rw [hb]
    simp only
    split
    · exact crystLoop_ne_err s hs i hi rest (fun d' hd' => h d' (List.mem_cons_of_mem _ hd'))
    · intro h'; cases h'

theorem crystCheck_ne_err (s : DSymData) (hs : ValidSym s) :
    ∀ l : List Nat, (∀ i ∈ l, i + 1 ≤ s.dim) → crystCheck s l ≠ .err
  | [], _ => by unfold crystCheck; intro h; cases h
  | i :: rest, h => by
    have hi := h i (List.mem_cons_self ..)
    have hne := crystLoop_ne_err s hs i hi (s.view.orbitReps2d i (i + 1))
      (fun d hd => (D2.orbitReps2d_ok hs.set (show i ≤ s.dim by omega) hi).range d hd)
    unfold crystCheck
    cases hc : crystLoop s i (s.view.orbitReps2d i (i + 1)) with
    | ok u =>
      simp only
      exact crystCheck_ne_err s hs rest (fun i' hi' => h i' (List.mem_cons_of_mem _ hi'))
    | err => exact absurd hc hne
    | panic => simp only; intro h'; cases h'

/-- **pseudo_toroidal_cover_total.**  On every valid D-symbol with at least one chamber the model
    of `pseudo_toroidal_cover` — `oriented_cover`, `fundamental_group`, `coset_tables`,
    `core_table`, `core_type`, `flattens_all`/`degree`, `intersection_table`, the candidate map,
    `stabilizer`, `abelian_invariants`, `cover_for_table`, all of them Lean models — **returns**
    (`Some(cov)` or `None`) whenever its three documented assertions hold: dimension 3, complete,
    every adjacent branching number `≤ 6` and `≠ 5`.  It never answers `.err` (no fuel of any
    stage runs out), and it panics ONLY if one of the three assertions fails: none of the
    `unwrap`s, map look-ups, the `panic!()` arm of `core_type_by_size`, the unbounded iterator of
    `degree` or the table constructions can fail.  (Assembly of C05 `oriented_cover_oriented`,
    C09 `fg_total`, C12 `search_never_panics` with `searchFuel`, C13 `core_total`,
    `intersection_total`, `stabilizer_total`, C14 `abelian_invariants_correct`, and §3–§5.) -/
theorem pseudo_toroidal_cover_total (s : DSymData) (hs : ValidSym s) (hsz : 1 ≤ s.size) :
    (s.dim = 3 → s.isCompletePartial = true → crystCheck s (List.range s.dim) = .ok () →
      ∃ r, pseudoToroidalCover s = .ok r) ∧
    pseudoToroidalCover s ≠ .err ∧
    (pseudoToroidalCover s = .panic →
      s.dim ≠ 3 ∨ s.isCompletePartial = false ∨ crystCheck s (List.range s.dim) = .panic) := by
  have main : s.dim = 3 → s.isCompletePartial = true → crystCheck s (List.range s.dim) = .ok () →
      ∃ r, pseudoToroidalCover s = .ok r := by
    intro hd3 hcompl hcr
    have hdim : 1 ≤ s.dim := by omega
    obtain ⟨oc, hoc, _, hocdim, hocsize⟩ := C05.oriented_cover_oriented s hs.toValidTables hsz hdim
    have hsoc := orientedCover_validSym hs hsz hdim hoc
    have hocsz : 1 ≤ oc.size := by rw [hocsize]; split <;> omega
    have hocd : 1 ≤ oc.dim := by rw [hocdim]; exact hdim
    obtain ⟨fg, hfg⟩ := (C09.fg_total oc hsoc).1
    have hG := groupOK_of_fundamentalGroup hfg (fuelOK fg)
    obtain ⟨cands, hcands, hn⟩ := constructCandidates_total fg hG
      (fun c name h => coreType_in_pointGroups _ c name h) coreTypeBySize_domain.1
      coreTypeBySize_domain.2.1 coreTypeBySize_domain.2.2.2
      coreType_names_in_pointGroups.2.2.2.1 coreType_names_in_pointGroups.2.2.2.2
    have hvalid := constructCandidates_valid fg hG cands hcands
    obtain ⟨r, hr⟩ := groupLoop_total (n := fg.genToEdge.length) (rels := fg.relators) hn hvalid
      pointGroups (fun x hx => hx)
    have hne : ¬ s.dim ≠ 3 := not_not.mpr hd3
    cases r with
    | none =>
      refine ⟨none, ?_⟩
      unfold pseudoToroidalCover
      rw [if_neg hne, hcompl]
      simp only [Bool.not_true, Bool.false_eq_true, if_false, hcr, hoc, hfg, hcands, hr]
    | some t =>
      obtain ⟨name, ts, _, hget, hmem, _⟩ := groupLoop_some _ _ cands pointGroups t hr
      obtain ⟨e, he, hets⟩ := candGet_mem hget
      have hvt := hvalid e he t (by rw [hets]; exact hmem)
      have hV : CosetP.Valid t fg.nrGenerators fg.relators [] := CosetP.valid_of_validTable hvt
      obtain ⟨c, hc⟩ := coverForTable_total hsoc hocsz hocd hfg hV
      have hc' : Covers.coverForTable oc (tableData (tbl fg.genToEdge.length t)) fg.edgeToWord = .ok c := hc
      refine ⟨some c, ?_⟩
      unfold pseudoToroidalCover
      rw [if_neg hne, hcompl]
      simp only [Bool.not_true, Bool.false_eq_true, if_false, hcr, hoc, hfg, hcands, hr, hc']
  have hcrne : s.dim = 3 → crystCheck s (List.range s.dim) ≠ .err := by
    intro _
    exact crystCheck_ne_err s hs _ (fun i hi => by have := List.mem_range.mp hi; omega)
  refine ⟨main, ?_, ?_⟩
  · intro herr
    by_cases hd3 : s.dim = 3
    · cases hcompl : s.isCompletePartial with
      | false =>
        unfold pseudoToroidalCover at herr
        rw [if_neg (not_not.mpr hd3), hcompl] at herr
        simp at herr
      | true =>
        cases hcr : crystCheck s (List.range s.dim) with
        | ok u =>
          obtain ⟨r, hr⟩ := main hd3 hcompl hcr
          rw [hr] at herr
          cases herr
        | err => exact hcrne hd3 hcr
        | panic =>
          unfold pseudoToroidalCover at herr
          rw [if_neg (not_not.mpr hd3), hcompl] at herr
          simp [hcr] at herr
    · unfold pseudoToroidalCover at herr
      rw [if_pos hd3] at herr
      cases herr
  · intro hp
    by_cases hd3 : s.dim = 3
    · right
      cases hcompl : s.isCompletePartial with
      | false => exact Or.inl rfl
      | true =>
        right
        cases hcr : crystCheck s (List.range s.dim) with
        | ok u =>
          obtain ⟨r, hr⟩ := main hd3 hcompl hcr
          rw [hr] at hp
          cases hp
        | err => exact absurd hcr (hcrne hd3)
        | panic => rfl
    · exact Or.inl hd3

/-! ### 8. the 2D sentence: `delaney2d::toroidal_cover`

The model `toroidalCover` is: assertions (dimension 2, `is_euclidean`), `oriented_cover`,
`degree` = largest branching number of the oriented cover (1 if there is none), the wired model of
C05's `covers(oc, degree)` (with C12's provably sufficient node budget), and the first entry all of
whose `orbit_types_2d` branching numbers are 1.  No fuel hypothesis; the input need not be
connected except for the statement about π₁ (the covering-space correspondence of C05). -/

/-- the three index pairs of a two-dimensional symbol, as `orbit_types_2d` visits them -/
def pairs2d : List (Nat × Nat) := [(0, 1), (0, 2), (1, 2)]

/-- **toroidal_cover_result_is_covering.**  Whenever the model of `toroidal_cover` returns `cov` for
    a valid symbol `s` (the run then established: dimension 2, complete, curvature 0):
    * `cov` is an entry of the model's `covers(oc, degree)`, `oc` the oriented cover of `s`,
      `degree` the largest branching number of `oc`;
    * it is a covering of `oc` in the sense of C05 (`IsCoverOf`: valid symbol on `n·|oc|` chambers,
      projection `d ↦ (d−1) mod |oc| + 1` commuting with every operation, degree `m_ij` of every
      chamber that of its projection for ALL `i, j`, complete, connected if `oc` is) with
      `n ≤ max degree 1` sheets — and composed with the covering `oc → s` (1 or 2 sheets) a
      covering of the INPUT `s` with `n` resp. `2n` sheets (connected if `s` is);
    * it is oriented: no operation fixes a chamber, and the chamber graph is bipartite;
    * **every branching number is 1**: `v_ij(x) = 1` for every chamber `x` and each of the index
      pairs (0,1), (0,2), (1,2) — the selection test `orbit_types_2d(cov).all(v == 1)` read off
      the model, extended from the orbit representatives to all chambers. -/
theorem toroidal_cover_result_is_covering (s cov : DSymData) (hs : ValidSym s) (hsz : 1 ≤ s.size)
    (h : toroidalCover s = .ok cov) :
    ∃ (oc : DSymData) (ts : List (Nat × Bool)) (cs : List DSymData) (n : Nat),
      s.dim = 2 ∧ s.isCompletePartial = true ∧
      orientedCover s = .ok oc ∧ D2.orbitTypes2d ⟨oc, .partialSym⟩ = .ok ts ∧
      covers oc (coverDegree ts) = .ok cs ∧ cov ∈ cs ∧
      CoversP.IsCoverOf oc cov n ∧ n ≤ max (coverDegree ts) 1 ∧
      CoversP.IsCoverOf s cov (n * (if s.view.isOriented then 1 else 2)) ∧
      cov.view.isOriented = true ∧
      (∀ i j x, (i, j) ∈ pairs2d → 1 ≤ x → x ≤ cov.size → cov.vPartial i j x = .ok (some 1)) := by
  obtain ⟨oc, ts, cs, fg, _, _, _, v, hv, _, hd2, g, hoc, goc, _, _, _, _, hcovs, hts, hcs, hmem, hcov, _,
    _, hle, hori, gc, hall⟩ := toroidalCover_facts hs hsz h
  exact ⟨oc, ts, cs, _, hd2, g.complete, hoc, hts, hcs, hmem, hcov, hle,
    IsCoverOf.trans hcovs hcov hsz, hori, fun i j x hp h1 h2 => all_v_one gc hall hp h1 h2⟩

/-- **toroidal_cover_has_no_cones.**  The model of `fundamental_group` applied to a returned
    toroidal cover returns (no panic) a presentation with an EMPTY cone list: by C09
    `cones_are_traced_words` the cones are exactly the 2-orbits (all pairs `i ≤ j`) with branching
    number > 1, and there is none. -/
theorem toroidal_cover_has_no_cones (s cov : DSymData) (hs : ValidSym s) (hsz : 1 ≤ s.size)
    (h : toroidalCover s = .ok cov) :
    ∃ f, FG.fundamentalGroup cov = .ok f ∧ f.cones = [] := by
  obtain ⟨_, _, _, _, _, _, _, _, _, _, _, _, _, _, _, _, _, _, _, _, _, _, _, _, _, _, _, gc, hall⟩ :=
    toroidalCover_facts hs hsz h
  have hcd : cov.dim = 2 := gc.dim
  obtain ⟨f, hf, _⟩ := C09.returned_group_is_textbook_group cov gc.valid (by omega)
  exact ⟨f, hf, no_cones gc.valid hcd (fun i j x hp h1 h2 => all_v_one gc hall hp h1 h2) hf⟩

/-- **toroidal_cover_is_a_torus_combinatorially.**  A returned toroidal cover is a valid complete
    2D symbol whose curvature is 0 (`sheets · K(s)`: C08 `curvature_orientedCover` and the chamber
    sum over the fibres of a degree-preserving covering), whose Euler characteristic
    `F − E + V` of the chamber triangulation (the model's `euler_characteristic`) is **0** — by
    C08 `curvature_euler_formula`, K = 2·χ − cone and corner terms, and there are neither cones
    nor corners —, and on which the model of `orbifold_symbol` answers exactly **`o`**: no cones,
    no boundary components (C08 `chi_even_closed_orientable`: an oriented symbol has none),
    orientable, one handle.  I.e. a closed orientable surface with χ = 0, tiled without
    branching.  No hypothesis "orbifold_symbol answers" is needed. -/
theorem toroidal_cover_is_a_torus_combinatorially (s cov : DSymData) (hs : ValidSym s) (hsz : 1 ≤ s.size)
    (h : toroidalCover s = .ok cov) :
    ValidSym cov ∧ cov.dim = 2 ∧ cov.isCompletePartial = true ∧ cov.view.isOriented = true ∧
    (∃ K, D2.curvature ⟨cov, .partialSym⟩ = .ok K ∧ K.toRat = 0) ∧
    D2.isEuclidean ⟨cov, .partialSym⟩ = .ok true ∧
    D2.eulerCharacteristic ⟨cov, .partialSym⟩ = 0 ∧
    D2.traceBoundary ⟨cov, .partialSym⟩ = .ok [] ∧
    D2.orbifoldSymbol ⟨cov, .partialSym⟩ =
      .ok { cones := [], bnds := [], orientable := true, count := 1 } := by
  obtain ⟨oc, _, _, _, _, _, _, _, _, K, _, _, _, goc, _, hocsz, hK, hK0, _, _, _, _, hcov, _, _, _, hori, gc,
    hall⟩ := toroidalCover_facts hs hsz h
  obtain ⟨_, ⟨K', hK', hK'0⟩, hchi, hsym⟩ :=
    flat_oriented_branchfree_is_torus goc hocsz hK hK0 hcov hori hall
  have hcd : cov.dim = 2 := gc.dim
  refine ⟨gc.valid, hcd, gc.complete, hori, ⟨K', hK', hK'0⟩, ?_, hchi,
    (C08.chi_even_closed_orientable cov gc.valid hcd hori .partialSym).2, hsym⟩
  rw [(C08.geometry_trichotomy ⟨cov, .partialSym⟩ K' hK').1]
  simp [hK'0]

/-- **toroidal_cover_group_is_finite_index_subgroup** — π₁ of the returned cover.  For a valid
    CONNECTED input: the textbook orbifold fundamental group `TGroup cov` of a returned toroidal
    cover (C09; the group the model's own `fundamental_group(cov)` presents, with no cones) embeds
    into the textbook orbifold group `TGroup oc` of the oriented cover of the input, **onto the
    stabiliser of row 0** of the monodromy action (C05 `rhoT`) of `TGroup oc` on the rows of the
    coset table the entry was built from — a subgroup of **index = number of sheets**
    (`|cov| = sheets · |oc|`, `sheets ≤ max degree 1`).  (C05 covering-space correspondence
    `cover_group_is_stabiliser`; C11/C12 index of the stabiliser of a valid table.)
    The last step of the sentence — such a group, being π₁ of a closed orientable surface with
    χ = 0, abelianises to ℤ² — is the classification of surfaces and is NOT a theorem here; it is
    the Spec clause `abelianisation-is-free-of-rank-dim` (integer elimination on the textbook
    presentation of the returned symbol), evaluated on every case. -/
theorem toroidal_cover_group_is_finite_index_subgroup (s cov : DSymData) (hs : ValidSym s)
    (hsz : 1 ≤ s.size) (hconn : s.view.isConnected = true) (h : toroidalCover s = .ok cov) :
    ∃ (oc : DSymData) (fg : FG.FundGroup) (tab : SpecC11.Tab) (hsoc : ValidSym oc) (hdim : 1 ≤ oc.dim)
      (hfg : FG.fundamentalGroup oc = .ok fg) (hV : CosetP.Valid tab fg.nrGenerators fg.relators []),
      orientedCover s = .ok oc ∧ cov.size = tab.size * oc.size ∧
      ((MulAction.stabilizer (Equiv.Perm (Fin tab.size)) (⟨0, hV.pos⟩ : Fin tab.size)).comap
        (CoversP.rhoT hsoc hdim hfg hV)).index = tab.size ∧
      (∃ φ : FGP.TGroup cov →* FGP.TGroup oc, Function.Injective φ ∧
        φ.range = (MulAction.stabilizer (Equiv.Perm (Fin tab.size)) (⟨0, hV.pos⟩ : Fin tab.size)).comap
          (CoversP.rhoT hsoc hdim hfg hV)) ∧
      Nonempty (FGP.TGroup cov ≃*
        ((MulAction.stabilizer (Equiv.Perm (Fin tab.size)) (⟨0, hV.pos⟩ : Fin tab.size)).comap
          (CoversP.rhoT hsoc hdim hfg hV))) ∧
      (∃ f', FG.fundamentalGroup cov = .ok f' ∧ f'.cones = [] ∧
        Nonempty (FGP.MGroup f' ≃* FGP.TGroup cov)) := by
  obtain ⟨oc, _, _, fg, hsoc, hdim, hfg, v, hv, _, _, _, hoc, _, _, hocsz, _, _, hcovs, _, _, _, hcov, hops,
    hidx, _, _, gc, hall⟩ := toroidalCover_facts hs hsz h
  have hocconn : oc.view.isConnected = true := hcovs.connected hconn
  obtain ⟨hindex, φ, hinj, hrange⟩ := covers_entry_group hsoc hocsz hdim hocconn hfg hv hcov hops hidx
  have hcd : cov.dim = 2 := gc.dim
  obtain ⟨f', hf', ⟨eM⟩⟩ := C09.returned_group_is_textbook_group cov gc.valid (by omega)
  exact ⟨oc, fg, _, hsoc, hdim, hfg, hv, hoc, hcov.size, hindex, ⟨φ, hinj, hrange⟩,
    ⟨(MonoidHom.ofInjective hinj).trans (MulEquiv.subgroupCongr hrange)⟩,
    f', hf', no_cones gc.valid hcd (fun i j x hp h1 h2 => all_v_one gc hall hp h1 h2) hf', ⟨eM⟩⟩

/-! ### 9. the oriented cover and the group of the INPUT

The π₁ statements of §6 and §8 are relative to the oriented cover `oc` of the input.  The oriented
double cover is not literally the cover of a coset table of `fundamental_group(s)`:
`partial_orientation` signs the chambers along its own traversal, `spanning_tree` uses the
traversal with reversed seeds, so the sheet map of `oriented_cover` may change the sheet across
a facet of the spanning tree.  But `oc` is a covering of `s` (any dimension), hence ISOMORPHIC
OVER `s` to an entry `c'` of the model's `covers(s, 2)` (C05 classification), whose group is a
stabiliser of index 1 or 2 in `TGroup s`; and isomorphic connected symbols have isomorphic
textbook groups (Proofs/TGroupIso.lean: the group does not depend on the numbering, although its
tree relators do).  So `TGroup oc` embeds into `TGroup s` with index 1 or 2, and every π₁
statement composes to one about the group of the input itself. -/

/-- **oriented_cover_is_covering.**  In every dimension ≥ 1 the oriented cover of a valid symbol is
    a covering of it in the sense of C05 (`IsCoverOf`: valid symbol, projection commuting with
    every operation, all degrees `m_ij` preserved, complete if `s` is, connected if `s` is), with
    one sheet if `s` is oriented and two otherwise. -/
theorem oriented_cover_is_covering (s oc : DSymData) (hs : ValidSym s) (hsz : 1 ≤ s.size)
    (hdim : 1 ≤ s.dim) (hoc : orientedCover s = .ok oc) :
    CoversP.IsCoverOf s oc (if s.view.isOriented then 1 else 2) := by
  have hsoc := orientedCover_validSym hs hsz hdim hoc
  have hcomplete : s.isCompletePartial = true → oc.isCompletePartial = true := by
    intro hcompl
    have hmpos := orientedCover_mVal_pos s oc hs hsz hdim hcompl hoc
    apply D2.complete_of_vN hsoc.toValidTables
    intro i d hi h1 h2
    have := hmpos i d hi h1 h2
    unfold DSymData.mVal at this
    intro h0
    rw [h0, Nat.mul_zero] at this
    omega
  have hconn : s.view.isConnected = true → oc.view.isConnected = true :=
    fun hc => C05.oriented_cover_connected s hs.toValidTables hsz hdim hc oc hoc
  cases ho : s.view.isOriented with
  | true =>
    have := (C05.oriented_cover_covering s hs.toValidTables hsz hdim).2.1 ho
    rw [hoc] at this
    have he : oc = s := Outcome.ok.inj this
    rw [he]
    simp only [if_true]
    have hsd : s.size = s.dset.size := rfl
    apply isCoverOf_of_adjacent (le_refl 1) (by omega) rfl hs hsz
    · intro i e hi he1 he2
      have hr := hs.set.range i e hi he1 (by omega)
      rw [← hsd] at hr
      have hc1 : cproj s.size e = e := by
        unfold cproj; rw [Nat.mod_eq_of_lt (by omega)]; omega
      have hc2 : cproj s.size (s.dset.opU i e) = s.dset.opU i e := by
        unfold cproj; rw [Nat.mod_eq_of_lt (by omega)]; omega
      rw [hc1, hc2]
    · intro i e hi he1 he2
      have hc1 : cproj s.size e = e := by
        unfold cproj; rw [Nat.mod_eq_of_lt (by omega)]; omega
      rw [hc1]
    · exact fun h => h
    · exact fun h => h
  | false =>
    obtain ⟨c, hc, hcs, hcd, _, hproj⟩ := ((C05.oriented_cover_covering s hs.toValidTables hsz hdim).2.2 ho).2
    obtain ⟨c2, hc2, _, _, _, hdeg⟩ := C05.oriented_cover_preserves_degrees s hs.toValidTables hsz hdim ho
    have e3 : c = oc := by rw [hoc] at hc; exact (Outcome.ok.inj hc).symm
    have e4 : c2 = oc := by rw [hoc] at hc2; exact (Outcome.ok.inj hc2).symm
    rw [e3] at hcs hcd hproj
    rw [e4] at hdeg
    simp only [Bool.false_eq_true, if_false]
    exact isCoverOf_of_adjacent (by decide) hcs hcd hsoc hsz hproj
      (fun i d hi h1 h2 => (hdeg i d hi h1 h2).2.2) hcomplete hconn

/-- **oriented_cover_is_table_cover_up_to_iso.**  For a connected valid symbol `s`: the oriented
    cover `oc` is isomorphic OVER `s` (`CoverIso`: a bijection of the chambers commuting with the
    projection and with every operation) to an entry `c'` of the model's `covers(s, 2)`; `c'` is
    the cover of a valid coset table of `fundamental_group(s)` with 1 (oriented `s`) or 2 rows, and
    its textbook group embeds into `TGroup s` ONTO the stabiliser of row 0 of the monodromy
    action, a subgroup of index 1 resp. 2 — the orientation subgroup.  (C05
    `covers_classifies_coverings`, `covers_classes_and_groups`.) -/
theorem oriented_cover_is_table_cover_up_to_iso (s oc : DSymData) (hs : ValidSym s) (hsz : 1 ≤ s.size)
    (hdim : 1 ≤ s.dim) (hconn : s.view.isConnected = true) (hoc : orientedCover s = .ok oc) :
    ∃ (c' : DSymData) (φ : Nat → Nat) (fg : FG.FundGroup) (hfg : FG.fundamentalGroup s = .ok fg)
      (v : List (List Int)) (hv : CosetP.Valid (CosetInvP.viewTab v) fg.nrGenerators fg.relators []),
      (∃ cs, Covers.coversAll s 2 = .ok cs ∧ c' ∈ cs) ∧
      c'.size = oc.size ∧ CoversP.CoverIso s oc c' oc.size φ ∧
      CoversP.IsCoverOf s c' (CosetInvP.viewTab v).size ∧
      (CosetInvP.viewTab v).size = (if s.view.isOriented then 1 else 2) ∧
      ((MulAction.stabilizer (Equiv.Perm (Fin (CosetInvP.viewTab v).size))
          (⟨0, hv.pos⟩ : Fin (CosetInvP.viewTab v).size)).comap
        (CoversP.rhoT hs hdim hfg hv)).index = (CosetInvP.viewTab v).size ∧
      ∃ ψ : FGP.TGroup c' →* FGP.TGroup s, Function.Injective ψ ∧
        ψ.range = (MulAction.stabilizer (Equiv.Perm (Fin (CosetInvP.viewTab v).size))
            (⟨0, hv.pos⟩ : Fin (CosetInvP.viewTab v).size)).comap (CoversP.rhoT hs hdim hfg hv) := by
  have hcovs := oriented_cover_is_covering s oc hs hsz hdim hoc
  have hk2 : (if s.view.isOriented then 1 else 2) ≤ 2 := by split <;> omega
  obtain ⟨fg, hfg, cs, vs, hcs, hall, _, _⟩ := C05.covers_classes_and_groups s hs hsz hdim hconn 2
  obtain ⟨cs', hcs', _, _, hcompl⟩ := C05.covers_classifies_coverings s hs hsz hdim hconn 2
  have hce : cs' = cs := by rw [hcs] at hcs'; exact (Outcome.ok.inj hcs').symm
  rw [hce] at hcompl
  obtain ⟨c', hc', φ, hsize, hiso⟩ := hcompl oc _ hcovs hk2
  obtain ⟨v, _, hv, hcov', _, hidx, _, ψ, hinj, hrange⟩ := forall₂_mem_right hall hc'
  have hrows : (CosetInvP.viewTab v).size = (if s.view.isOriented then 1 else 2) := by
    have h1 := hcov'.size
    rw [hsize, hcovs.size] at h1
    exact (Nat.eq_of_mul_eq_mul_right hsz h1).symm
  have hlet := (FGP.fundamentalGroup_letters s fg hfg).1
  obtain ⟨hindex, _⟩ := transfer_stabiliser hlet hv (FGP.presIso hs hdim hfg) (CosetP.stab0 hv).subtype
    (Subgroup.subtype_injective _) (by rw [Subgroup.range_subtype]; rfl) hidx
  exact ⟨c', φ, fg, hfg, v, hv, ⟨cs, hcs, hc'⟩, hsize, hiso, hcov', hrows, hindex, ψ, hinj, hrange⟩

/-- **oriented_cover_group_in_input_group.**  For a connected valid symbol `s` (dimension ≥ 1):
    the textbook orbifold group of the oriented cover embeds into the textbook orbifold group of
    `s` — `Ψ : TGroup oc →* TGroup s` injective — onto the stabiliser of row 0 of a valid coset
    table of `fundamental_group(s)` with 1 (oriented `s`) or 2 rows under the monodromy action:
    the **orientation subgroup**, of index 1 resp. 2. -/
theorem oriented_cover_group_in_input_group (s oc : DSymData) (hs : ValidSym s) (hsz : 1 ≤ s.size)
    (hdim : 1 ≤ s.dim) (hconn : s.view.isConnected = true) (hoc : orientedCover s = .ok oc) :
    ∃ Ψ : FGP.TGroup oc →* FGP.TGroup s, Function.Injective Ψ ∧
      Ψ.range.index = (if s.view.isOriented then 1 else 2) ∧
      ∃ (fg : FG.FundGroup) (hfg : FG.fundamentalGroup s = .ok fg) (v : List (List Int))
        (hv : CosetP.Valid (CosetInvP.viewTab v) fg.nrGenerators fg.relators []),
        (CosetInvP.viewTab v).size = (if s.view.isOriented then 1 else 2) ∧
        Ψ.range = (MulAction.stabilizer (Equiv.Perm (Fin (CosetInvP.viewTab v).size))
            (⟨0, hv.pos⟩ : Fin (CosetInvP.viewTab v).size)).comap (CoversP.rhoT hs hdim hfg hv) := by
  obtain ⟨c', φ, fg, hfg, v, hv, _, hsize, hiso, hcov', hrows, hindex, ψ, hinj, hrange⟩ :=
    oriented_cover_is_table_cover_up_to_iso s oc hs hsz hdim hconn hoc
  have hcovs := oriented_cover_is_covering s oc hs hsz hdim hoc
  obtain ⟨e⟩ := CoversP.tgroup_iso_of_coverIso hcovs hcov' hsize hiso hsz (hcovs.connected hconn)
    (hcov'.connected hconn)
  have hr : (ψ.comp e.toMonoidHom).range = ψ.range := by
    ext x
    constructor
    · rintro ⟨y, rfl⟩; exact ⟨e y, rfl⟩
    · rintro ⟨y, rfl⟩; exact ⟨e.symm y, by simp⟩
  refine ⟨ψ.comp e.toMonoidHom, hinj.comp e.injective, ?_, fg, hfg, v, hv, hrows, by rw [hr, hrange]⟩
  rw [hr, hrange, hindex, hrows]

/-- **ptc_cover_group_in_input_group** — π₁ of the returned 3D cover inside π₁ of the INPUT.  For a
    valid connected D-symbol `s`: whenever the model of `pseudo_toroidal_cover` returns
    `Some(cov)`, the textbook orbifold group of `cov` (abelianisation ℤ³: `ptc_cover_has_H1_Z3`)
    embeds into the textbook orbifold group of `s` itself as a subgroup of FINITE INDEX equal to
    the number of sheets of `cov` over `s`: `index · |s| = |cov|`. -/
theorem ptc_cover_group_in_input_group (s cov : DSymData) (hs : ValidSym s) (hsz : 1 ≤ s.size)
    (hconn : s.view.isConnected = true) (h : pseudoToroidalCover s = .ok (some cov)) :
    ∃ Φ : FGP.TGroup cov →* FGP.TGroup s, Function.Injective Φ ∧
      Φ.range.index * s.size = cov.size ∧ Φ.range.index ≠ 0 := by
  obtain ⟨oc, fg, t, hsoc, hdim, hfg, hV, gens, srels, hoc, hsize, hidx, ⟨eK⟩, _⟩ :=
    ptc_cover_group_is_selected_subgroup s cov hs hsz hconn h
  obtain ⟨⟨_, _, _, _, _, _, dim3, _⟩⟩ := ptc_run s cov h
  have hdims : 1 ≤ s.dim := by rw [dim3]; decide
  obtain ⟨Ψ, hΨ, hΨi, _⟩ := oriented_cover_group_in_input_group s oc hs hsz hdims hconn hoc
  have hcovs := oriented_cover_is_covering s oc hs hsz hdims hoc
  let φ : FGP.TGroup cov →* FGP.TGroup oc := (Subgroup.subtype _).comp eK.toMonoidHom
  have hφ : Function.Injective φ := (Subgroup.subtype_injective _).comp eK.injective
  have hφr : φ.range = (MulAction.stabilizer (Equiv.Perm (Fin t.size)) (⟨0, hV.pos⟩ : Fin t.size)).comap
      (CoversP.rhoT hsoc hdim hfg hV) := by
    ext x
    constructor
    · rintro ⟨y, rfl⟩; exact (eK y).2
    · intro hx; exact ⟨eK.symm ⟨x, hx⟩, by simp [φ]⟩
  obtain ⟨hinj, hindex⟩ := CoversP.embed_comp φ Ψ hφ hΨ
  refine ⟨Ψ.comp φ, hinj, ?_, ?_⟩
  · rw [hindex, hφr, hidx, hΨi, hsize, hcovs.size, Nat.mul_assoc]
  · rw [hindex, hφr, hidx, hΨi]
    have := hV.pos
    split <;> omega

/-- **toroidal_cover_group_in_input_group** — the same in 2D: π₁ of a returned toroidal cover is a
    subgroup of finite index = number of sheets of the orbifold group of the INPUT symbol. -/
theorem toroidal_cover_group_in_input_group (s cov : DSymData) (hs : ValidSym s) (hsz : 1 ≤ s.size)
    (hconn : s.view.isConnected = true) (h : toroidalCover s = .ok cov) :
    ∃ Φ : FGP.TGroup cov →* FGP.TGroup s, Function.Injective Φ ∧
      Φ.range.index * s.size = cov.size ∧ Φ.range.index ≠ 0 := by
  obtain ⟨oc, fg, tab, hsoc, hdim, hfg, hV, hoc, hsize, hidx, ⟨φ, hφ, hφr⟩, _⟩ :=
    toroidal_cover_group_is_finite_index_subgroup s cov hs hsz hconn h
  have hd2 := (toroidalCover_run h).dim2
  have hdims : 1 ≤ s.dim := by omega
  obtain ⟨Ψ, hΨ, hΨi, _⟩ := oriented_cover_group_in_input_group s oc hs hsz hdims hconn hoc
  have hcovs := oriented_cover_is_covering s oc hs hsz hdims hoc
  obtain ⟨hinj, hindex⟩ := CoversP.embed_comp φ Ψ hφ hΨ
  refine ⟨Ψ.comp φ, hinj, ?_, ?_⟩
  · rw [hindex, hφr, hidx, hΨi, hsize, hcovs.size, Nat.mul_assoc]
  · rw [hindex, hφr, hidx, hΨi]
    have := hV.pos
    split <;> omega

/-! ### 10. non-vacuity, kernel-checked -/

set_option maxRecDepth 100000 in
/-- **toroidal_cover_witness** — the hypotheses of §8 are satisfiable and the model does return.
    The one-chamber euclidean 2D symbol `*632` (`C08.exData`: all operations fix the chamber,
    m01 = 3, m12 = 6) is a valid connected symbol, and the model of `toroidal_cover` — evaluated BY
    THE KERNEL (`decide +kernel`: `oriented_cover`, `fundamental_group`, `coset_tables` up to index 6
    with `searchFuel`, `cover_for_table`, `orbit_types_2d`) — returns a cover with 12 chambers (the
    6-sheeted cover of the 2-chamber oriented cover).  So every theorem of §8 and the 2D half of §9
    applies to a concrete returned value.  (The analogous kernel evaluation of
    `pseudo_toroidal_cover` on the one-chamber cubic symbol does not go through: reduction gets
    stuck after minutes; conf/C15.json points to the differential cases instead.) -/
theorem toroidal_cover_witness :
    ValidSym C08.exData ∧ 1 ≤ C08.exData.size ∧ C08.exData.view.isConnected = true ∧
    ∃ cov, toroidalCover C08.exData = .ok cov ∧ cov.size = 12 := by
  refine ⟨C08.exData_valid, by decide +kernel, by decide +kernel, ?_⟩
  have h : (match toroidalCover C08.exData with | .ok c => c.size == 12 | _ => false) = true := by
    decide +kernel
  cases hc : toroidalCover C08.exData with
  | ok c =>
    rw [hc] at h
    exact ⟨c, rfl, by simpa using h⟩
  | err => rw [hc] at h; cases h
  | panic => rw [hc] at h; cases h

/-! ### open (not theorems): the statements, for the record -/

/-- ◐ existence and torus property (Spec clauses on every explored input):
    for every euclidean 2D symbol `toroidal_cover` returns; every returned (pseudo-)toroidal
    cover is oriented, branch-free with abelianisation Z^dim -/
def torus_cover_statement : Prop :=
  ∀ (s : DSymData), ValidTables s → s.dim = 2 → D2.isEuclidean ⟨s, .partialSym⟩ = .ok true →
    ∃ c, toroidalCover s = .ok c

end DSymVerif.C15
