/-
Property C04 — minimal image is the unique smallest quotient; automorphisms are exact.

  "The minimal image of a connected D-symbol is a symbol onto which the input maps by a
   chamber map that commutes with all operations and preserves all degrees; it admits no
   proper quotient of that kind, its size equals the number of classes of the coarsest
   degree-respecting congruence, and the minimality test is true exactly when that number
   equals the symbol's size.  A symbol and each of its covers have isomorphic minimal
   images.  The automorphism list of a connected symbol is exactly the set of
   operation-commuting, degree-preserving self-bijections, and morphism search returns a
   valid morphism whenever one with the requested base image exists and None otherwise."

Property theorems only.  They speak about the executable model `DSymVerif.Mor.*`
(Model/Morphism.lean: `morphism` — the function after the `fix:` commit for defect D3 —,
`automorphisms`, `foldUF`, `isMinimalUF`, `minimalImage`; tied to src/dsets.rs, src/derived.rs by
the differential check) for ALL views `MV` (size, dim, `op`, adjacent degrees `m`), no bound on
the size.  `Partition<usize>` is the exact union–find model of property C20 (`UF` =
`Part.GPart`: interning, path compression, union by rank, the code's representatives);
`minimalImage` is defined on it.  Sections 4–6 are stated on the abstract class-table
semantics (`Part`, `fold`, `isMinimal`, `foldAll`); section 13 proves for ALL inputs that the
union–find functions simulate it (`fold_uf_simulates`, `is_minimal_uf_eq`,
`minimal_partition_uf`), so every statement of sections 4–6 is a statement about the functions
that are compared with the code, and no observable depends on which representative `find`
returns beyond what the model computes exactly.

Vocabulary (definitions in Proofs/Morphism*.lean, namespace `DSymVerif.Mor`):
  `gv f d`          entry d of a returned vector, 0 = unassigned
  `OpPos b`         operations never return chamber 0;  `OpRange a`: they return chambers 1..size
  `Complete b n`    operations 0..n are defined on 1..size;  `Invol a`: each undoes itself
  `Connected a`     every chamber 1..size is reachable from chamber 1
  `IsMor a b g`     g commutes with every operation and preserves every degree on 1..|a|
  `InRange a b g`   g maps 1..|a| into 1..|b|
  `OpClosed s c`, `DegResp s c`   the class function c : Nat → Nat is a congruence / respects degrees
  `Part`, `p.find`                class table of a `Partition<usize>` and its class function (abstract semantics)
  `UF`, `ufFind`, `ufUnite`       the union–find of partitions.rs (C20 model) as `fold`/`minimal_image` use it
  `grep g x`                      the representative `find` answers for key x (C20, Proofs/PartitionGen.lean)
  `Sim g p`                       `g` is a well-formed union–find (C20 `GWF`) with the classes of the table `p`
All four structural hypotheses hold for the model's view of every D-symbol whose stored table
is a complete family of involutions (`view_hypotheses`), and `Connected` is what the property
quantifies over.

Proved here: soundness, completeness, uniqueness and termination of the morphism search;
exactness of the automorphism list; `fold` computes the generated congruence and answers
`None` exactly when no degree-respecting congruence contains the pair; `is_minimal` is true
exactly when no proper degree-respecting congruence exists; the partition from which
`minimal_image` builds its quotient is the coarsest degree-respecting congruence.
Sections 7–8 tie `Connected` to the library's `is_connected()` and prove the property's
statements about `minimal_image` itself for every valid connected symbol (`ValidSym`, C02/C03):
`minimal_image_spec` (returns a valid symbol, the class-numbering map is a surjective morphism
whose kernel is the coarsest congruence, the result has no proper quotient and is minimal),
`minimal_image_unique` (any other minimal quotient is isomorphic to it) and `cover_invariance`
(a symbol and its covers have isomorphic minimal images, hence equal canonical forms).
Section 9 proves that the Spec's partition-refinement oracle computes the same coarsest
congruence (`spec_refinement_correct`, `spec_classes_eq_minimal_image_size`).
Section 10 (`driver_decoding_agrees`) shows that every explored case that passes the driver's
domain clause satisfies the hypotheses of all theorems and that the driver's Spec view describes the
symbol the model computes with; section 11 gives cover invariance without side hypotheses for the
covers the library builds (C05 `IsCoverOf` coverings, `covers::covers`, `oriented_cover`).
-/
import DSymVerif.Proofs.MorphismDriver
import DSymVerif.Proofs.MorphismAudit
import DSymVerif.Proofs.MorphismCovers
import DSymVerif.Props.C03
import DSymVerif.Props.C05

namespace DSymVerif.C04
open DSymVerif DSymVerif.Mor DSymVerif.DS DSymVerif.DS.CanonP DSymVerif.SpecC04P

/-! ## 0. the hypotheses are those of the model's D-symbols; example instances -/

/-- the view `ofSym` of a stored D-symbol whose table is a complete family of involutions on
    1..size satisfies every structural hypothesis used below -/
theorem view_hypotheses (ds : DSymData) (hr : TableRange ds.dset) (hi : TableInvol ds.dset) :
    OpRange (ofSym ds) ∧ OpPos (ofSym ds) ∧ Complete (ofSym ds) (ofSym ds).dim ∧ Invol (ofSym ds) :=
  ofSym_valid ds hr hi

example : OpRange Mor.ex2 ∧ OpPos Mor.ex2 ∧ Complete Mor.ex2 Mor.ex2.dim ∧ Invol Mor.ex2 ∧ Connected Mor.ex2 :=
  ⟨ex2_opRange, ex2_opPos, ex2_complete, ex2_invol, ex2_connected⟩

/-! ## 1. morphism search (repaired function): sound, complete, unique, terminating -/

/-- soundness on every assigned chamber (the queue-loop invariant): the returned vector has
    the requested base image, and every chamber d it assigned has the degrees of its image and
    commutes with every operation defined on both sides -/
theorem morphism_sound (a b : MV) (hb : OpPos b) (e : Nat) (he : e ≠ 0) (f : Array Nat)
    (h : morphism a b e = .ok f) :
    f.size = a.size + 1 ∧ gv f 1 = e ∧
    ∀ d, gv f d ≠ 0 →
      degreesMatch2 a b d (gv f d) = true ∧
      ∀ i, i ≤ a.dim → ∀ di ei, a.op i d = some di → b.op i (gv f d) = some ei → gv f di = ei :=
  morphism_sound' a b hb e he f h

example : morphism Mor.ex2 Mor.ex2 2 = .ok #[0, 2, 1] := by decide
example := morphism_sound Mor.ex2 Mor.ex2 ex2_opPos 2 (by decide) _ (by decide : morphism Mor.ex2 Mor.ex2 2 = .ok #[0, 2, 1])

/-- soundness, total form: from a connected source into a complete target the returned vector
    is a morphism (total on 1..|a|, into 1..|b|) with the requested base image -/
theorem morphism_sound_total (a b : MV) (hb : OpPos b) (hc : Complete b a.dim)
    (hconn : Connected a) (e : Nat) (he1 : 1 ≤ e) (he2 : e ≤ b.size) (f : Array Nat)
    (h : morphism a b e = .ok f) :
    f.size = a.size + 1 ∧ gv f 1 = e ∧ InRange a b (gv f) ∧ IsMor a b (gv f) :=
  morphism_isMor a b hb hc hconn e he1 he2 f h

example := morphism_sound_total Mor.ex2 Mor.ex2 ex2_opPos ex2_complete ex2_connected 2 (by decide) (by decide) _
  (by decide : morphism Mor.ex2 Mor.ex2 2 = .ok #[0, 2, 1])

/-- the search never panics (no index out of range, the loop terminates within the fuel) -/
theorem morphism_terminates (a b : MV) (ha : OpRange a) (hb : OpPos b) (h1 : 1 ≤ a.size)
    (e : Nat) (he : e ≠ 0) : morphism a b e ≠ .panic :=
  morphism_no_panic a b ha hb h1 e he

example := morphism_terminates Mor.ex2 Mor.ex2 ex2_opRange ex2_opPos (by decide) 1 (by decide)

/-- completeness (forced extension): if a morphism `g` exists, the search with base image
    `g 1` returns it -/
theorem morphism_complete (a b : MV) (ha : OpRange a) (hb : OpPos b) (hc : Complete b a.dim)
    (hconn : Connected a) (h1 : 1 ≤ a.size) (g : Nat → Nat) (hg : IsMor a b g)
    (hr : InRange a b g) :
    ∃ f, morphism a b (g 1) = .ok f ∧ ∀ d, 1 ≤ d → d ≤ a.size → gv f d = g d :=
  morphism_finds a b ha hb hc hconn h1 g hg hr

example := morphism_complete Mor.ex2 Mor.ex2 ex2_opRange ex2_opPos ex2_complete ex2_connected (by decide)
  (fun d => d) ex2_idMor (fun _ h1 h2 => ⟨h1, h2⟩)

/-- … even without connectivity or completeness the answer is never `None` and agrees with `g`
    on every chamber it assigned -/
theorem morphism_complete_partial (a b : MV) (ha : OpRange a) (hb : OpPos b) (h1 : 1 ≤ a.size)
    (g : Nat → Nat) (hg : IsMor a b g) (hg0 : g 1 ≠ 0) :
    ∃ f, morphism a b (g 1) = .ok f ∧ ∀ d, gv f d ≠ 0 → gv f d = g d :=
  morphism_complete' a b ha hb h1 g hg hg0

example := morphism_complete_partial Mor.ex2 Mor.ex2 ex2_opRange ex2_opPos (by decide) (fun d => d) ex2_idMor
  (by decide)

/-- `Some` exactly when a morphism with the requested base image exists … -/
theorem morphism_some_iff (a b : MV) (ha : OpRange a) (hb : OpPos b) (hc : Complete b a.dim)
    (hconn : Connected a) (h1 : 1 ≤ a.size) (e : Nat) (he1 : 1 ≤ e) (he2 : e ≤ b.size) :
    (∃ f, morphism a b e = .ok f) ↔ ∃ g, IsMor a b g ∧ InRange a b g ∧ g 1 = e :=
  morphism_ok_iff a b ha hb hc hconn h1 e he1 he2

/-- … and `None` otherwise -/
theorem morphism_none_iff (a b : MV) (ha : OpRange a) (hb : OpPos b) (hc : Complete b a.dim)
    (hconn : Connected a) (h1 : 1 ≤ a.size) (e : Nat) (he1 : 1 ≤ e) (he2 : e ≤ b.size) :
    morphism a b e = .err ↔ ¬ ∃ g, IsMor a b g ∧ InRange a b g ∧ g 1 = e :=
  morphism_err_iff a b ha hb hc hconn h1 e he1 he2

example : (∃ f, morphism Mor.ex2 Mor.ex2 1 = .ok f) :=
  (morphism_some_iff Mor.ex2 Mor.ex2 ex2_opRange ex2_opPos ex2_complete ex2_connected (by decide) 1
    (by decide) (by decide)).2
    ⟨fun d => d, ⟨fun _ _ _ => by simp [degreesMatch2], fun d _ _ i _ di ei h1 h2 => by rw [h1] at h2; cases h2; rfl⟩,
      fun d h1 h2 => ⟨h1, h2⟩, rfl⟩

example := morphism_none_iff Mor.ex2 Mor.ex2 ex2_opRange ex2_opPos ex2_complete ex2_connected (by decide) 2
  (by decide) (by decide)

/-- a morphism of a connected source is determined by its base image -/
theorem morphism_unique (a b : MV) (ha : OpRange a) (hb : OpPos b) (hc : Complete b a.dim)
    (hconn : Connected a) (h1 : 1 ≤ a.size) (g g' : Nat → Nat) (hg : IsMor a b g)
    (hg' : IsMor a b g') (hr : InRange a b g) (hr' : InRange a b g') (h : g 1 = g' 1) :
    ∀ d, 1 ≤ d → d ≤ a.size → g d = g' d :=
  Mor.morphism_unique a b ha hb hc hconn h1 g g' hg hg' hr hr' h

example := morphism_unique Mor.ex2 Mor.ex2 ex2_opRange ex2_opPos ex2_complete ex2_connected (by decide)
  (fun d => d) (fun d => d) ex2_idMor ex2_idMor (fun _ h1 h2 => ⟨h1, h2⟩) (fun _ h1 h2 => ⟨h1, h2⟩) rfl

/-! ## 2. defect D3 (pinned function) as checked examples -/

/-- the pinned `morphism` accepts the D-set symmetry 1↔2, 3↔4, 5↔6, 7↔8 of the D3 symbol
    although chambers 7 and 8 have different degrees; the repaired one answers `None` -/
theorem d3_pinned_accepts_wrong_map :
    morphismPinned d3 d3 2 = .ok #[0, 2, 1, 4, 3, 6, 5, 8, 7] ∧
    degreesMatch2 d3 d3 7 8 = false ∧
    morphism d3 d3 2 = .err := by decide

theorem d3_automorphisms :
    automorphismsPinned d3 = .ok [#[0, 1, 2, 3, 4, 5, 6, 7, 8], #[0, 2, 1, 4, 3, 6, 5, 8, 7]] ∧
    automorphisms d3 = .ok [#[0, 1, 2, 3, 4, 5, 6, 7, 8]] := by decide

/-! ## 3. automorphisms -/

/-- `automorphisms()` of a connected complete D-set / D-symbol returns (no panic) a list `L`
    such that
    * every listed vector is an operation-commuting degree-preserving self-map of 1..size that is
      injective and surjective,
    * every operation-commuting degree-preserving self-map (in particular every such bijection)
      is listed,
    * the list is ordered by strictly ascending base image (so nothing is listed twice). -/
theorem automorphisms_eq (a : MV) (ha : OpRange a) (hc : Complete a a.dim) (hinv : Invol a)
    (hconn : Connected a) (h1 : 1 ≤ a.size) :
    ∃ L, automorphisms a = .ok L ∧
      (∀ f, f ∈ L → f.size = a.size + 1 ∧ InRange a a (gv f) ∧ IsMor a a (gv f) ∧
        (∀ x y, 1 ≤ x → x ≤ a.size → 1 ≤ y → y ≤ a.size → gv f x = gv f y → x = y) ∧
        (∀ d, 1 ≤ d → d ≤ a.size → ∃ x, 1 ≤ x ∧ x ≤ a.size ∧ gv f x = d)) ∧
      (∀ g, IsMor a a g → InRange a a g →
        ∃ f, f ∈ L ∧ ∀ d, 1 ≤ d → d ≤ a.size → gv f d = g d) ∧
      (L.map (fun f => gv f 1)).Sublist a.elements := by
  obtain ⟨L, hL, h1', h2', h3'⟩ := automorphisms_spec a ha hc hconn h1
  refine ⟨L, hL, fun f hf => ?_, h2', h3'⟩
  obtain ⟨hs, hr, hm⟩ := h1' f hf
  exact ⟨hs, hr, hm, endo_injective a ha hc hinv hconn h1 (gv f) hm hr,
    endo_surjective a ha hc hinv hconn h1 (gv f) hm hr⟩

example : automorphisms Mor.ex2 = .ok [#[0, 1, 2], #[0, 2, 1]] := by decide
example := automorphisms_eq Mor.ex2 ex2_opRange ex2_complete ex2_invol ex2_connected (by decide)

/-! ## 4. fold -/

/-- `fold(p0, d, e) = Some(q)`: q contains p0 and the pair (d, e), is closed under all
    operations if p0 is, and respects degrees if p0 does -/
theorem fold_congruence (s : MV) (hr : OpRange s) (hc : Complete s s.dim) (p0 q : Part)
    (d e : Nat) (hd1 : 1 ≤ d) (hd2 : d ≤ s.size) (he1 : 1 ≤ e) (he2 : e ≤ s.size)
    (h : fold s p0 d e = .ok q) :
    (∀ x y, p0 x = p0 y → q x = q y) ∧ q d = q e ∧
    (OpClosed s p0.find → OpClosed s q.find) ∧ (DegResp s p0.find → DegResp s q.find) :=
  fold_congruence' s hr hc p0 q d e hd1 hd2 he1 he2 h

example : (fold Mor.ex2 Part.new 1 2).isOk = true := by decide
example : ∃ q, fold Mor.ex2 Part.new 1 2 = .ok q ∧ q 1 = q 2 := by
  have hok : (fold Mor.ex2 Part.new 1 2).isOk = true := by decide
  cases h : fold Mor.ex2 Part.new 1 2 with
  | ok q =>
    exact ⟨q, rfl, (fold_congruence Mor.ex2 ex2_opRange ex2_complete Part.new q 1 2 (by decide) (by decide)
      (by decide) (by decide) h).2.1⟩
  | err => rw [h] at hok; cases hok
  | panic => rw [h] at hok; cases hok

/-- … and it is the least such partition: it lies below every operation-closed partition that
    contains p0 and the pair -/
theorem fold_least (s : MV) (hr : OpRange s) (p0 q : Part) (c : Nat → Nat) (d e : Nat)
    (hd1 : 1 ≤ d) (hd2 : d ≤ s.size) (he1 : 1 ≤ e) (he2 : e ≤ s.size)
    (hcc : OpClosed s c) (hc0 : ∀ x y, p0 x = p0 y → c x = c y) (hcde : c d = c e)
    (h : fold s p0 d e = .ok q) : ∀ x y, q x = q y → c x = c y :=
  Mor.fold_least s hr p0 q c d e hd1 hd2 he1 he2 hcc hc0 hcde h

example : True := by
  have hok : (fold Mor.ex2 Part.new 1 2).isOk = true := by decide
  cases h : fold Mor.ex2 Part.new 1 2 with
  | ok q =>
    have := fold_least Mor.ex2 ex2_opRange Part.new q (fun _ => 0) 1 2 (by decide) (by decide)
      (by decide) (by decide) (fun _ _ _ _ _ _ _ _ _ _ _ _ _ => rfl) (fun _ _ _ => rfl) rfl h
    trivial
  | err => rw [h] at hok; cases hok
  | panic => rw [h] at hok; cases hok

/-- `fold` answers `Some` exactly when some degree-respecting operation-closed partition
    contains p0 and the pair (p0 itself being one); it never panics -/
theorem fold_some_iff (s : MV) (hr : OpRange s) (hc : Complete s s.dim) (p0 : Part)
    (hp0 : OpClosed s p0.find) (hp0d : DegResp s p0.find) (d e : Nat)
    (hd1 : 1 ≤ d) (hd2 : d ≤ s.size) (he1 : 1 ≤ e) (he2 : e ≤ s.size) :
    (∃ q, fold s p0 d e = .ok q) ↔
      ∃ c : Nat → Nat, OpClosed s c ∧ DegResp s c ∧ (∀ x y, p0 x = p0 y → c x = c y) ∧ c d = c e := by
  constructor
  · rintro ⟨q, hq⟩
    have r := fold_congruence' s hr hc p0 q d e hd1 hd2 he1 he2 hq
    exact ⟨q.find, r.2.2.1 hp0, r.2.2.2 hp0d, r.1, r.2.1⟩
  · rintro ⟨c, hcc, hcd, hc0, hcde⟩
    have ne := fold_ne_err s hr p0 c d e hd1 hd2 he1 he2 hcc hcd hc0 hcde
    have np := fold_no_panic s hr p0 d e hd1 hd2 he1 he2
    cases hres : fold s p0 d e with
    | ok q => exact ⟨q, rfl⟩
    | err => exact (ne hres).elim
    | panic => exact (np hres).elim

example := fold_some_iff Mor.ex2 ex2_opRange ex2_complete Part.new (opClosed_new Mor.ex2) (degResp_new Mor.ex2) 1 2
  (by decide) (by decide) (by decide) (by decide)

/-! ## 5. the minimality test -/

/-- `is_minimal()` returns, and it is true exactly when no degree-respecting operation-closed
    partition puts chamber 1 into one class with another chamber -/
theorem is_minimal_iff (s : MV) (hr : OpRange s) (hc : Complete s s.dim) (h1 : 1 ≤ s.size) :
    ∃ b, isMinimal s = .ok b ∧
      (b = true ↔ ¬ ∃ (d : Nat) (c : Nat → Nat), 2 ≤ d ∧ d ≤ s.size ∧ OpClosed s c ∧ DegResp s c ∧ c 1 = c d) := by
  obtain ⟨b, hb⟩ := isMinimal_total s hr h1
  exact ⟨b, hb, isMinimal_spec s hr hc h1 b hb⟩

example := is_minimal_iff Mor.ex2 ex2_opRange ex2_complete (by decide)
example : isMinimal Mor.ex2 = .ok false := by decide
example : isMinimal d3 = .ok true := by decide

/-- … and, for a connected symbol with involutive operations, exactly when EVERY degree-respecting
    congruence is trivial (the coarsest one has as many classes as there are chambers: no proper
    quotient exists) -/
theorem is_minimal_iff_no_proper_quotient (s : MV) (hr : OpRange s) (hc : Complete s s.dim)
    (hinv : Invol s) (hconn : Connected s) (h1 : 1 ≤ s.size) :
    isMinimal s = .ok true ↔
      ∀ c : Nat → Nat, OpClosed s c → DegResp s c →
        ∀ x y, 1 ≤ x → x ≤ s.size → 1 ≤ y → y ≤ s.size → c x = c y → x = y := by
  obtain ⟨b, hb, hiff⟩ := is_minimal_iff s hr hc h1
  constructor
  · intro h c hcc hcd x y hx1 hx2 hy1 hy2 hxy
    rw [hb] at h
    cases h
    have hno := hiff.1 rfl
    apply cong_trivial_of_class_one s hr hc hinv hconn c hcc ?_ x y ⟨hx1, hx2⟩ ⟨hy1, hy2⟩ hxy
    intro d hd hcd1
    by_cases hd1 : d = 1
    · exact hd1
    · exact (hno ⟨d, c, by have := hd.1; omega, hd.2, hcc, hcd, hcd1⟩).elim
  · intro h
    have : b = true := hiff.2 (by
      rintro ⟨d, c, hd1, hd2, hcc, hcd, h1d⟩
      have := h c hcc hcd 1 d (Nat.le_refl 1) h1 (by omega) hd2 h1d
      omega)
    rw [hb, this]

example := is_minimal_iff_no_proper_quotient Mor.ex2 ex2_opRange ex2_complete ex2_invol ex2_connected (by decide)

/-! ## 6. the partition behind `minimal_image` -/

/-- the partition from which `minimal_image` builds its quotient,
    `(2..=size).fold(Partition::new(), |p, d| ds.fold(&p, 1, d).unwrap_or(p))`, is computed without
    panic and is the COARSEST degree-respecting congruence of a connected symbol: it is a
    degree-respecting congruence and contains every other one.  (Its classes are the chambers of
    the minimal image, so the size of the minimal image is the number of classes of the coarsest
    degree-respecting congruence: `minimal_image_spec` in section 8 proves the renumbering /
    `build_set` / `build_sym_using_ms` step.) -/
theorem minimal_partition_coarsest (s : MV) (hr : OpRange s) (hc : Complete s s.dim)
    (hinv : Invol s) (hconn : Connected s) (h1 : 1 ≤ s.size) :
    ∃ q, foldAll s (s.elements.drop 1) Part.new = .ok q ∧
      OpClosed s q.find ∧ DegResp s q.find ∧
      ∀ c : Nat → Nat, OpClosed s c → DegResp s c →
        ∀ x y, 1 ≤ x → x ≤ s.size → 1 ≤ y → y ≤ s.size → c x = c y → q x = q y := by
  obtain ⟨q, hq, hcg, hmax⟩ := foldAll_coarsest s hr hc hinv hconn h1
  exact ⟨q, hq, hcg.closed, hcg.deg, fun c hcc hcd x y hx1 hx2 hy1 hy2 hxy =>
    hmax c ⟨hcc, hcd⟩ x y ⟨hx1, hx2⟩ ⟨hy1, hy2⟩ hxy⟩

example := minimal_partition_coarsest Mor.ex2 ex2_opRange ex2_complete ex2_invol ex2_connected (by decide)

/-! ## 7. `Connected` is `is_connected()` -/

/-- the connectivity hypothesis of all the theorems above is what the library's `is_connected()`
    computes (C02 `traversal_complete` / C03 `conn_iff_isConnected`) -/
theorem connected_iff_isConnected (ds : DSymData) (h : ValidSet ds.dset) :
    Connected (ofSym ds) ↔ ds.view.isConnected = true :=
  Mor.connected_iff_isConnected ds h

/-- … and the structural hypotheses hold for every valid symbol -/
theorem valid_hypotheses (ds : DSymData) (h : ValidSym ds) :
    OpRange (ofSym ds) ∧ OpPos (ofSym ds) ∧ Complete (ofSym ds) (ofSym ds).dim ∧ Invol (ofSym ds) :=
  ofSym_validSet ds h.set

example : ValidSym C03.ex1 ∧ C03.ex1.view.isConnected = true :=
  ⟨C03.ex1_valid, (C03.conn_iff_isConnected C03.ex1_valid.set).1 C03.ex1_conn⟩

/-- the exactness of the automorphism list, for a valid symbol that `is_connected()` -/
theorem automorphisms_eq_sym (ds : DSymData) (hs : ValidSym ds) (hsz : 1 ≤ ds.size)
    (hconn : ds.view.isConnected = true) :
    ∃ L, automorphisms (ofSym ds) = .ok L ∧
      (∀ f, f ∈ L → f.size = ds.size + 1 ∧ InRange (ofSym ds) (ofSym ds) (gv f) ∧
        IsMor (ofSym ds) (ofSym ds) (gv f) ∧
        (∀ x y, 1 ≤ x → x ≤ ds.size → 1 ≤ y → y ≤ ds.size → gv f x = gv f y → x = y) ∧
        (∀ d, 1 ≤ d → d ≤ ds.size → ∃ x, 1 ≤ x ∧ x ≤ ds.size ∧ gv f x = d)) ∧
      (∀ g, IsMor (ofSym ds) (ofSym ds) g → InRange (ofSym ds) (ofSym ds) g →
        ∃ f, f ∈ L ∧ ∀ d, 1 ≤ d → d ≤ ds.size → gv f d = g d) ∧
      (L.map (fun f => gv f 1)).Sublist (ofSym ds).elements := by
  obtain ⟨hR, _, hC, hI⟩ := ofSym_validSet ds hs.set
  exact automorphisms_eq (ofSym ds) hR hC hI ((Mor.connected_iff_isConnected ds hs.set).2 hconn) hsz

example := automorphisms_eq_sym C03.ex1 C03.ex1_valid (by decide)
  ((C03.conn_iff_isConnected C03.ex1_valid.set).1 C03.ex1_conn)

/-- morphism search between valid symbols of one dimension, source `is_connected()`: `Some` exactly
    when a morphism with the requested base image exists, `None` otherwise -/
theorem morphism_some_iff_sym (a b : DSymData) (ha : ValidSym a) (hb : ValidSym b) (hsa : 1 ≤ a.size)
    (hd : b.dim = a.dim) (hconn : a.view.isConnected = true) (e : Nat) (he1 : 1 ≤ e) (he2 : e ≤ b.size) :
    ((∃ f, morphism (ofSym a) (ofSym b) e = .ok f) ↔
      ∃ g, IsMor (ofSym a) (ofSym b) g ∧ InRange (ofSym a) (ofSym b) g ∧ g 1 = e) ∧
    (morphism (ofSym a) (ofSym b) e = .err ↔
      ¬ ∃ g, IsMor (ofSym a) (ofSym b) g ∧ InRange (ofSym a) (ofSym b) g ∧ g 1 = e) := by
  obtain ⟨hRa, _, _, _⟩ := ofSym_validSet a ha.set
  obtain ⟨_, hPb, hCb, _⟩ := ofSym_validSet b hb.set
  have hCb' : Complete (ofSym b) (ofSym a).dim := by
    have : (ofSym a).dim = (ofSym b).dim := hd.symm
    rw [this]; exact hCb
  have hc := (Mor.connected_iff_isConnected a ha.set).2 hconn
  exact ⟨morphism_some_iff (ofSym a) (ofSym b) hRa hPb hCb' hc hsa e he1 he2,
    morphism_none_iff (ofSym a) (ofSym b) hRa hPb hCb' hc hsa e he1 he2⟩

example := morphism_some_iff_sym C03.ex1 C03.ex1 C03.ex1_valid C03.ex1_valid (by decide) rfl
  ((C03.conn_iff_isConnected C03.ex1_valid.set).1 C03.ex1_conn) 1 (by decide) (by decide)

/-- **base images outside 1..|b|**: `morphism(a, b, e)` with `e = 0` or `e > |b|` answers `None`
    (no panic) — the first dequeued pair fails the degree comparison, `a.m(0,1,1)` being `Some` and
    `b.m(0,1,e)` being `None`.  (The pinned function answered `Some` here: defect D3.)  Together with
    `morphism_some_iff_sym` this covers EVERY base image. -/
theorem morphism_base_image_out_of_range (a b : DSymData) (ha : ValidSym a) (hsz : 1 ≤ a.size)
    (hdim : 1 ≤ a.dim) (e : Nat) (he : e < 1 ∨ b.size < e) :
    morphism (ofSym a) (ofSym b) e = .err :=
  morphism_out_of_range a b ha.toValidTables hsz hdim e he

example := morphism_base_image_out_of_range C03.ex1 C03.ex1 C03.ex1_valid (by decide) (by decide) 0
  (Or.inl (by decide))
example : morphism (ofSym C03.ex1) (ofSym C03.ex1) 2 = .err := by decide

/-- **count form of the minimality test — "the minimality test is true exactly when that number
    equals the symbol's size"**: `is_minimal()` is true exactly when the minimal image (one chamber
    per class of the coarsest degree-respecting congruence, `minimal_image_spec`) has as many
    chambers as the symbol -/
theorem is_minimal_iff_class_count (ds : DSymData) (hs : ValidSym ds) (hsz : 1 ≤ ds.size)
    (hdim : 1 ≤ ds.dim) (hconn : ds.view.isConnected = true) :
    ∃ c, minimalImage ds = .ok c ∧ (isMinimal (ofSym ds) = .ok true ↔ c.size = ds.size) :=
  isMinimal_iff_size ds hs hsz hdim ((Mor.connected_iff_isConnected ds hs.set).2 hconn)

/-! ## 8. the property for `minimal_image` -/

/-- **minimal_image_spec — "The minimal image of a connected D-symbol is a symbol onto which the
    input maps by a chamber map that commutes with all operations and preserves all degrees; it
    admits no proper quotient of that kind, its size equals the number of classes of the coarsest
    degree-respecting congruence, and the minimality test is true exactly when …"**

    For every valid connected symbol `ds` (any size, any dimension ≥ 1) the model of
    `minimal_image` returns (no panic) a valid connected symbol `c` and there is a chamber map `π`
    with
    * `π` is a morphism `ds → c` (commutes with every operation, preserves every degree), maps
      1..|ds| ONTO 1..|c|, and `π 1 = 1`;
    * the kernel of `π` is the coarsest degree-respecting congruence `Q` of `ds`: `Q` is a
      degree-respecting congruence, contains every other one, and `π d = π d' ⇔ Q d = Q d'` — so
      the chambers of `c` are in bijection with the classes of `Q` (|c| = number of classes);
    * `c` has no proper quotient (every degree-respecting congruence of `c` is trivial), and
      `is_minimal()` is true on `c`. -/
theorem minimal_image_spec (ds : DSymData) (hs : ValidSym ds) (hsz : 1 ≤ ds.size) (hdim : 1 ≤ ds.dim)
    (hconn : ds.view.isConnected = true) :
    ∃ c π Q, minimalImage ds = .ok c ∧ ValidSym c ∧ 1 ≤ c.size ∧ c.dim = ds.dim ∧
      c.view.isConnected = true ∧
      IsMor (ofSym ds) (ofSym c) π ∧ InRange (ofSym ds) (ofSym c) π ∧
      (∀ k, 1 ≤ k → k ≤ c.size → ∃ d, 1 ≤ d ∧ d ≤ ds.size ∧ π d = k) ∧ π 1 = 1 ∧
      OpClosed (ofSym ds) Q ∧ DegResp (ofSym ds) Q ∧
      (∀ P : Nat → Nat, OpClosed (ofSym ds) P → DegResp (ofSym ds) P →
        ∀ x y, 1 ≤ x → x ≤ ds.size → 1 ≤ y → y ≤ ds.size → P x = P y → Q x = Q y) ∧
      (∀ d d', 1 ≤ d → d ≤ ds.size → 1 ≤ d' → d' ≤ ds.size → (π d = π d' ↔ Q d = Q d')) ∧
      NoProperQuotient c ∧ isMinimal (ofSym c) = .ok true := by
  have hc0 := (Mor.connected_iff_isConnected ds hs.set).2 hconn
  obtain ⟨c, π, Q, hc, hcv, hcs, hcd, hπ, hπs, hπ1, hQ, hker, hcc, hmin, hism⟩ :=
    minimalImage_full ds hs hsz hdim hc0
  obtain ⟨hm, hr⟩ := hπ.isMor hs.toValidTables hcv.toValidTables
  exact ⟨c, π, Q, hc, hcv, hcs, hcd, (Mor.connected_iff_isConnected c hcv.set).1 hcc, hm, hr, hπs, hπ1,
    hQ.cong.closed, hQ.cong.deg,
    fun P hP1 hP2 x y hx1 hx2 hy1 hy2 hxy => hQ.max P ⟨hP1, hP2⟩ x y ⟨hx1, hx2⟩ ⟨hy1, hy2⟩ hxy,
    hker, hmin, hism⟩

example := minimal_image_spec C03.ex1 C03.ex1_valid (by decide) (by decide)
  ((C03.conn_iff_isConnected C03.ex1_valid.set).1 C03.ex1_conn)

/-- **uniqueness of the smallest quotient**: every symbol `c'` without proper quotient onto which
    `ds` maps by a surjective morphism is isomorphic (C03 `IsIso`) to `minimal_image(ds)` -/
theorem minimal_image_unique (ds c' : DSymData) (σ : Nat → Nat) (hs : ValidSym ds) (hsz : 1 ≤ ds.size)
    (hdim : 1 ≤ ds.dim) (hconn : ds.view.isConnected = true) (hc' : ValidTables c')
    (hd : c'.dim = ds.dim) (hσ : IsMor (ofSym ds) (ofSym c') σ) (hσr : InRange (ofSym ds) (ofSym c') σ)
    (hσs : ∀ k, 1 ≤ k → k ≤ c'.size → ∃ d, 1 ≤ d ∧ d ≤ ds.size ∧ σ d = k)
    (hmin : NoProperQuotient c') :
    ∃ c g, minimalImage ds = .ok c ∧ IsIso g c' c := by
  have hc0 := (Mor.connected_iff_isConnected ds hs.set).2 hconn
  obtain ⟨c, π, Q, hc, hcv, _, _, hπ, hπs, _, hQ, hker, _⟩ := minimalImage_full ds hs hsz hdim hc0
  obtain ⟨g, hg⟩ := minimal_quotient_unique hs.toValidTables hcv.toValidTables hc' hπ hπs hQ hker
    (SymMor.of_isMor hs.toValidTables hc' hd hσ hσr) hσs hmin
  exact ⟨c, g, hc, hg⟩

example : NoProperQuotient C03.ex1 := fun _ _ _ k k' hk1 hk2 hk1' hk2' _ => by
  have h1 : k ≤ 1 := hk2
  have h2 : k' ≤ 1 := hk2'
  omega

/-- **cover_invariance — "A symbol and each of its covers have isomorphic minimal images."**
    If the valid connected symbol `a` maps onto the valid connected symbol `b` by a morphism (a
    cover is such a symbol, see `cover_invariance_cover`), then `minimal_image(a)` and
    `minimal_image(b)` are isomorphic — and therefore have the same canonical form (C03). -/
theorem cover_invariance (a b : DSymData) (φ : Nat → Nat) (ha : ValidSym a) (hb : ValidSym b)
    (hsa : 1 ≤ a.size) (hda : 1 ≤ a.dim) (hsb : 1 ≤ b.size) (hd : b.dim = a.dim)
    (hca : a.view.isConnected = true) (hcb : b.view.isConnected = true)
    (hφ : IsMor (ofSym a) (ofSym b) φ) (hφr : InRange (ofSym a) (ofSym b) φ)
    (hφs : ∀ k, 1 ≤ k → k ≤ b.size → ∃ d, 1 ≤ d ∧ d ≤ a.size ∧ φ d = k) :
    ∃ qa qb g, minimalImage a = .ok qa ∧ minimalImage b = .ok qb ∧ IsIso g qb qa ∧
      canonical qb = canonical qa := by
  have hca' := (Mor.connected_iff_isConnected a ha.set).2 hca
  have hcb' := (Mor.connected_iff_isConnected b hb.set).2 hcb
  have hdb : 1 ≤ b.dim := by rw [hd]; exact hda
  have hφm := SymMor.of_isMor ha.toValidTables hb.toValidTables hd hφ hφr
  obtain ⟨qa, qb, g, hqa, hqb, hg⟩ :=
    minimalImage_of_morphism ha hb hsa hda hsb hca' hcb' hφm hφs
  obtain ⟨qa', _, _, hqa', hqav, hqas, hqad, _, _, _, _, _, hqac, _⟩ := minimalImage_full a ha hsa hda hca'
  obtain ⟨qb', _, _, hqb', hqbv, hqbs, hqbd, _, _, _, _, _, hqbc, _⟩ := minimalImage_full b hb hsb hdb hcb'
  rw [hqa] at hqa'; cases hqa'
  rw [hqb] at hqb'; cases hqb'
  refine ⟨qa, qb, g, hqa, hqb, hg, ?_⟩
  exact (C03.canonical_complete hqbv hqav hqbs (by rw [hqbd]; exact hdb) hqas (by rw [hqad]; exact hda)
    ((Mor.connected_iff_conn qb hqbv.set).1 hqbc) ((Mor.connected_iff_conn qa hqav.set).1 hqac)).2 ⟨g, hg⟩

example := cover_invariance C03.ex1 C03.ex1 (fun d => d) C03.ex1_valid C03.ex1_valid (by decide) (by decide)
  (by decide) rfl ((C03.conn_iff_isConnected C03.ex1_valid.set).1 C03.ex1_conn)
  ((C03.conn_iff_isConnected C03.ex1_valid.set).1 C03.ex1_conn)
  ((SymMor.id C03.ex1).isMor C03.ex1_valid.toValidTables C03.ex1_valid.toValidTables).1
  ((SymMor.id C03.ex1).isMor C03.ex1_valid.toValidTables C03.ex1_valid.toValidTables).2
  (fun k h1 h2 => ⟨k, h1, h2, rfl⟩)

/-- the outputs of `derived::cover` are such symbols: when the degrees are preserved (C05
    `cover_is_covering`: the orbit lengths of the cover divide the degrees of the base), the
    projection is a surjective morphism, so the cover and the base have isomorphic minimal images -/
theorem cover_invariance_cover (s cv : DSymData) (n : Nat) (σ : Nat → Nat → Nat → Nat)
    (hs : ValidSym s) (hsz : 1 ≤ s.size) (hdim : 1 ≤ s.dim) (hn : 1 ≤ n)
    (hσ : SheetCompat s.dset n σ) (hcv : cover s n σ = .ok cv)
    (hdeg : ∀ i d, i < s.dim → 1 ≤ d → d ≤ n * s.size →
      cv.mPartial i (i + 1) d = s.mPartial i (i + 1) (cproj s.size d))
    (hfar : FarCommute cv.dset)
    (hcs : s.view.isConnected = true) (hcc : cv.view.isConnected = true) :
    ∃ qc qs g, minimalImage cv = .ok qc ∧ minimalImage s = .ok qs ∧ IsIso g qs qc ∧
      canonical qs = canonical qc := by
  obtain ⟨hct, hsize, hm, hsurj⟩ :=
    cover_symMor s hs.toValidTables hsz hdim n hn σ hσ cv hcv hdeg
  have hcvv : ValidSym cv := ⟨hct, hfar⟩
  obtain ⟨hmm, hmr⟩ := hm.isMor hct hs.toValidTables
  have hcsz : 1 ≤ cv.size := by
    rw [hsize]
    calc 1 ≤ s.size := hsz
      _ = 1 * s.size := (Nat.one_mul _).symm
      _ ≤ n * s.size := Nat.mul_le_mul_right _ hn
  exact cover_invariance cv s (cproj s.size) hcvv hs hcsz (by rw [← hm.dim]; exact hdim) hsz hm.dim
    hcc hcs hmm hmr hsurj

/-! ## 9. the Spec's oracle is the same number -/

/-- **spec_refinement_correct**: the Spec's Moore-style partition refinement (Spec/C04.lean
    `coarsest`: start from the classes of equal degree tuples, split by the classes of the operation
    images until the number of classes stops growing) returns the COARSEST partition of 1..size
    that respects the degree tuples and is closed under the operations (`SCong`); its labels are
    class minima, and `classes s` counts them -/
theorem spec_refinement_correct (s : SpecC04.S) (hv : s.valid = true) :
    SCong s (fun d => (SpecC04.coarsest s).getD d 0) ∧
    (∀ c : Nat → Nat, SCong s c → ∀ d d', 1 ≤ d → d ≤ s.size → 1 ≤ d' → d' ≤ s.size →
      c d = c d' → (SpecC04.coarsest s).getD d 0 = (SpecC04.coarsest s).getD d' 0) ∧
    Canon s.size (fun d => (SpecC04.coarsest s).getD d 0) ∧
    SpecC04.classes s = (reps s.size (fun d => (SpecC04.coarsest s).getD d 0)).card :=
  coarsest_spec s (opsInRange_of_valid s hv)

/-- Spec tables for the one-chamber symbol of dimension 2 with v = 3, 3 (non-vacuity) -/
def specOne : SpecC04.S :=
  { size := 1, dim := 2, op := fun i d => if i ≤ 2 ∧ d = 1 then 1 else 0,
    v := fun i d => if i < 2 ∧ d = 1 then 3 else 0 }

example : specOne.valid = true ∧ SpecC04.classes specOne = 1 := by decide

/-- … and it is the number the theorems speak about: for Spec tables that describe a valid connected
    symbol `ds` (same operations, same degrees), `classes s` is the number of chambers of
    `minimal_image(ds)` — the Spec clause `result-size-eq-number-of-coarsest-congruence-classes`
    and `minimal_image_spec` agree -/
theorem spec_classes_eq_minimal_image_size (s : SpecC04.S) (ds : DSymData) (h : SpecAgrees s ds)
    (hs : ValidSym ds) (hsz : 1 ≤ ds.size) (hdim : 1 ≤ ds.dim) (hconn : ds.view.isConnected = true) :
    ∃ c, minimalImage ds = .ok c ∧ SpecC04.classes s = c.size :=
  classes_eq_size s ds h hs hsz hdim ((Mor.connected_iff_isConnected ds hs.set).2 hconn)

/-- the Spec's degree `orbitLen · v` is the model's `m(i,i+1,·)` whenever the Spec tables carry the
    stored operations and branching numbers -/
theorem spec_degree_is_model_degree (s : SpecC04.S) (ds : DSymData) (hv : ValidTables ds)
    (hsize : s.size = ds.size) (hdim : s.dim = ds.dim)
    (hop : ∀ i d, i ≤ ds.dim → 1 ≤ d → d ≤ ds.size → s.op i d = ds.dset.opU i d)
    (hvv : ∀ i d, i < ds.dim → 1 ≤ d → d ≤ ds.size → s.v i d = ds.orbitVs.getD (ds.ixAt i d) 0) :
    SpecAgrees s ds :=
  specAgrees_of_tables s ds hv hsize hdim hop hvv

/-- Spec tables of `C03.ex1` (one chamber, branching numbers as stored) -/
def specEx1 : SpecC04.S :=
  { size := 1, dim := 2, op := fun i d => C03.ex1.dset.opU i d,
    v := fun i d => C03.ex1.orbitVs.getD (C03.ex1.ixAt i d) 0 }

example : SpecAgrees specEx1 C03.ex1 :=
  spec_degree_is_model_degree specEx1 C03.ex1 C03.ex1_valid.toValidTables rfl rfl
    (fun _ _ _ _ _ => rfl) (fun _ _ _ _ _ => rfl)

example := spec_classes_eq_minimal_image_size specEx1 C03.ex1
  (spec_degree_is_model_degree specEx1 C03.ex1 C03.ex1_valid.toValidTables rfl rfl
    (fun _ _ _ _ _ => rfl) (fun _ _ _ _ _ => rfl))
  C03.ex1_valid (by decide) (by decide) ((C03.conn_iff_isConnected C03.ex1_valid.set).1 C03.ex1_conn)

/-! ## 10. every explored case is inside the theorems: the driver's decoding -/

/-- **driver_decoding_agrees**: for every transmitted table that passes the driver's clause
    `…-in-domain-of-the-theorems` (`DrvC04View.inDomain` = C03's `SpecC03.inDomain`), the driver's
    decoder `RawSym.toSym` returns a valid symbol `ds` with `is_connected()`, size ≥ 1, dim ≥ 1
    (C03 `decode_raw_valid`), and the driver's Spec view `specS` of the same tables describes that
    very symbol: same operations, same degrees (`SpecAgrees`; C03 `agrees_tables` +
    `spec_degree_is_model_degree`).  So every theorem of this file applies to every explored case
    without a side hypothesis. -/
theorem driver_decoding_agrees (r : DSymVerif.Proto.RawSym) (h : DrvC04View.inDomain r = true) :
    ∃ ds, r.toSym = .ok ds ∧ ValidSym ds ∧ 1 ≤ ds.size ∧ 1 ≤ ds.dim ∧
      ds.view.isConnected = true ∧ SpecAgrees (DrvC04View.specS r) ds :=
  driver_decoding r h

example : ∃ r : DSymVerif.Proto.RawSym, DrvC04View.inDomain r = true :=
  ⟨{ size := 1, dim := 2, op := #[1, 1, 1], v := #[0, 0] }, by decide⟩

/-- … in particular the number the Spec clause `result-size-eq-number-of-coarsest-congruence-classes`
    compares with the implementation is the size of the model's minimal image, on every in-domain
    case -/
theorem driver_minimg_case (r : DSymVerif.Proto.RawSym) (h : DrvC04View.inDomain r = true) :
    ∃ ds c, r.toSym = .ok ds ∧ minimalImage ds = .ok c ∧
      SpecC04.classes (DrvC04View.specS r) = c.size := by
  obtain ⟨ds, hds, hv, hsz, hdim, hconn, hag⟩ := driver_decoding r h
  obtain ⟨c, hc, hcl⟩ := spec_classes_eq_minimal_image_size _ ds hag hv hsz hdim hconn
  exact ⟨ds, c, hds, hc, hcl⟩

/-! ## 11. cover invariance for the covers the library builds -/

section
open DSymVerif.Covers DSymVerif.FG DSymVerif.Cosets DSymVerif.LowIndexP

/-- every covering in the sense of C05 (`IsCoverOf`: the conclusion of `C05.table_cover_is_covering`,
    `subgroup_cover_is_covering`, `finite_universal_cover_is_covering`; it includes commuting far
    operations, degree preservation and connectedness with no premise) has the minimal image of its
    base, up to isomorphism -/
theorem cover_invariance_covering (ds c : DSymData) (n : Nat) (hs : ValidSym ds) (hsz : 1 ≤ ds.size)
    (hdim : 1 ≤ ds.dim) (hconn : ds.view.isConnected = true) (h : CoversP.IsCoverOf ds c n) :
    ∃ qc qs g, minimalImage c = .ok qc ∧ minimalImage ds = .ok qs ∧ IsIso g qs qc :=
  minimalImage_isCoverOf hs hsz hdim hconn h

/-- **cover_invariance_table_cover**: every symbol in the list returned by `covers::covers(ds, k)`
    (model `Covers.covers`, enough fuel for the coset-table search) has the minimal image of `ds`
    up to isomorphism — no hypothesis on degrees or far operations (C05
    `table_cover_is_covering`) -/
theorem cover_invariance_table_cover (ds : DSymData) (hs : ValidSym ds) (hsz : 1 ≤ ds.size)
    (hdim : 1 ≤ ds.dim) (hconn : ds.view.isConnected = true) (k fuel : Nat) :
    ∃ f, fundamentalGroup ds = .ok f ∧
      ((BT.dfs (btProblem f.nrGenerators (expandedRelatorSet f.relators) k) (height k)
          (.ok (Cosets.Table.new f.nrGenerators))).length ≤ fuel →
        ∃ cs, Covers.covers ds k fuel = .ok cs ∧
          ∀ c, c ∈ cs → ∃ qc qs g, minimalImage c = .ok qc ∧ minimalImage ds = .ok qs ∧ IsIso g qs qc) := by
  obtain ⟨f, hf, hrest⟩ := C05.table_cover_is_covering ds hs hsz hdim k fuel
  refine ⟨f, hf, fun hfuel => ?_⟩
  obtain ⟨cs, hcs, hall⟩ := hrest hfuel
  refine ⟨cs, hcs, fun c hc => ?_⟩
  obtain ⟨_, _, t, _, _, hcov, _⟩ := CoversP.forall₂_mem_right hall c hc
  exact minimalImage_isCoverOf hs hsz hdim hconn hcov

end

/-- **cover_invariance_oriented_cover**: `oriented_cover(s)` returns, and its result has the minimal
    image of `s` up to isomorphism — no hypothesis on degrees, far operations or connectedness of
    the cover (C05 `orientedCover_degrees`, `orientedCover_validSym`, `oriented_cover_connected`) -/
theorem cover_invariance_oriented_cover (s : DSymData) (hs : ValidSym s) (hsz : 1 ≤ s.size)
    (hdim : 1 ≤ s.dim) (hconn : s.view.isConnected = true) :
    ∃ c qc qs g, orientedCover s = .ok c ∧ minimalImage c = .ok qc ∧ minimalImage s = .ok qs ∧
      IsIso g qs qc := by
  obtain ⟨c, hc, hrest⟩ := minimalImage_orientedCover s hs hsz hdim hconn
  obtain ⟨qc, qs, g, h1, h2, h3⟩ :=
    hrest (C05.oriented_cover_connected s hs.toValidTables hsz hdim hconn c hc)
  exact ⟨c, qc, qs, g, hc, h1, h2, h3⟩

example := cover_invariance_oriented_cover C03.ex1 C03.ex1_valid (by decide) (by decide)
  ((C03.conn_iff_isConnected C03.ex1_valid.set).1 C03.ex1_conn)
example := cover_invariance_table_cover C03.ex1 C03.ex1_valid (by decide) (by decide)
  ((C03.conn_iff_isConnected C03.ex1_valid.set).1 C03.ex1_conn) 2 1000

/-! ## 12. non-vacuity beyond one chamber: a two-chamber symbol with a symmetry

`two`: chambers 1, 2; operations 0 and 1 swap them, operation 2 fixes both; all branching numbers
equal.  It is valid and connected, has the non-trivial automorphism 1 ↔ 2, is NOT minimal, and its
minimal image has one chamber — so the hypotheses and the conclusions of the theorems of sections
7–11 are exercised on a case where the quotient map is not injective (kernel-checked). -/

def two : DSymData := DSymData.ofSimple DS.ex2

theorem two_valid : ValidSym two := DS.ex2_validSym

theorem two_connected : two.view.isConnected = true := by decide +kernel

example : automorphisms (ofSym two) = .ok [#[0, 1, 2], #[0, 2, 1]] := by decide +kernel
example : isMinimal (ofSym two) = .ok false := by decide +kernel
example : (match minimalImage two with | .ok c => c.size | _ => 0) = 1 := by decide +kernel
example : morphism (ofSym two) (ofSym two) 2 = .ok #[0, 2, 1] := by decide +kernel
example : morphism (ofSym two) (ofSym two) 3 = .err := by decide +kernel

example := minimal_image_spec two two_valid (by decide) (by decide) two_connected
example := is_minimal_iff_class_count two two_valid (by decide) (by decide) two_connected
example := automorphisms_eq_sym two two_valid (by decide) two_connected
example := morphism_some_iff_sym two two two_valid two_valid (by decide) rfl two_connected 2
  (by decide) (by decide)
example := morphism_base_image_out_of_range two two two_valid (by decide) (by decide) 3
  (Or.inr (by decide))
example := cover_invariance two two (fun d => d) two_valid two_valid (by decide) (by decide) (by decide)
  rfl two_connected two_connected
  ((SymMor.id two).isMor two_valid.toValidTables two_valid.toValidTables).1
  ((SymMor.id two).isMor two_valid.toValidTables two_valid.toValidTables).2
  (fun k h1 h2 => ⟨k, h1, h2, rfl⟩)
example := cover_invariance_oriented_cover two two_valid (by decide) (by decide) two_connected
example := cover_invariance_table_cover two two_valid (by decide) (by decide) two_connected 2 1000

/-- the transmitted tables of `two` -/
def rawTwo : DSymVerif.Proto.RawSym := { size := 2, dim := 2, op := #[2, 2, 1, 1, 1, 2], v := #[0, 0, 0, 0] }

example : DrvC04View.inDomain rawTwo = true := by decide +kernel
example : SpecC04.classes (DrvC04View.specS rawTwo) = 1 := by decide +kernel
example := driver_decoding_agrees rawTwo (by decide +kernel)
example := driver_minimg_case rawTwo (by decide +kernel)
example : (DrvC04View.specS rawTwo).valid = true := by decide +kernel
example := spec_refinement_correct (DrvC04View.specS rawTwo) (by decide +kernel)

/-! ## 13. `Partition<usize>` exactly: the union–find of partitions.rs under `fold`, `is_minimal`, `minimal_image`

The functions compared with the code (`foldUF`, `isMinimalUF`, `foldAllUF`, `numberLoopUF`,
`minimalImage`) run on the union–find model of property C20 — `find` with interning and path
compression, union by rank, the representative the code returns.  For ALL inputs (no validity
hypothesis on the D-set, any partition reached so far) they give the answers of the class-table
semantics of sections 4–6 and a partition with the same classes; this replaces the former prose
argument that observables do not depend on the choice of representative. -/

section
open DSymVerif.PartP (GWF grep)

/-- `Partition::new()`: well formed, every key its own class -/
theorem uf_new_sim : Sim UF.new Part.new ∧ ∀ z, grep UF.new z = z := ⟨Sim.new, grep_new⟩

/-- `p.find(&a)` on a union–find with the classes of `p`: returns (no panic, the root walk
    terminates) the representative `grep g a`, which is a member of the class of `a` and is its
    own representative; the new state (interning, path compression) has the same representatives -/
theorem uf_find_spec {g : UF} {p : Part} (h : Sim g p) (a : Nat) :
    ∃ g', ufFind g a = .ok (g', grep g a) ∧ Sim g' p ∧ (∀ z, grep g' z = grep g z) ∧
      p (grep g a) = p a ∧ grep g (grep g a) = grep g a := by
  obtain ⟨g', h1, h2, h3⟩ := h.find a
  exact ⟨g', h1, h2, h3, (h.ker _ _).1 (DSymVerif.PartP.grep_idem h.wf a),
    DSymVerif.PartP.grep_idem h.wf a⟩

/-- `p.unite(&a, &b)`: returns (no panic) a union–find with the classes of the relabelled table -/
theorem uf_unite_spec {g : UF} {p : Part} (h : Sim g p) (a b : Nat) :
    ∃ g', ufUnite g a b = .ok g' ∧ Sim g' (p.unite a b) := h.unite a b

/-- **fold_uf_simulates**: `fold` on the union–find answers `Some` / `None` / (never, see
    `fold_some_iff`) panic exactly as `fold` on the class table does, and the returned partitions
    have the same classes — for every view `s`, every partition and every pair, valid or not -/
theorem fold_uf_simulates (s : MV) {g : UF} {p : Part} (h : Sim g p) (d e : Nat) :
    (∀ q, fold s p d e = .ok q → ∃ g', foldUF s g d e = .ok g' ∧ Sim g' q) ∧
    (fold s p d e = .err → foldUF s g d e = .err) ∧
    (fold s p d e = .panic → foldUF s g d e = .panic) := by
  have hs := foldUF_sim s h d e
  refine ⟨fun q hq => ?_, fun hq => ?_, fun hq => ?_⟩
  · rw [hq] at hs; exact hs.ok_right
  · rw [hq] at hs; exact hs.err_right
  · rw [hq] at hs; exact hs.panic_right

example : ∃ g', foldUF Mor.ex2 UF.new 1 2 = .ok g' := by
  have hok : (fold Mor.ex2 Part.new 1 2).isOk = true := by decide
  cases h : fold Mor.ex2 Part.new 1 2 with
  | ok q => obtain ⟨g', hg, _⟩ := (fold_uf_simulates Mor.ex2 Sim.new 1 2).1 q h; exact ⟨g', hg⟩
  | err => rw [h] at hok; cases hok
  | panic => rw [h] at hok; cases hok

/-- `fold` on the union–find, in its own terms: on a partition `g0` that is a degree-respecting
    congruence it answers `Some(g)` exactly when some degree-respecting congruence contains `g0`
    and the pair, it never panics, and `g` is then the LEAST operation-closed partition containing
    `g0` and the pair — same representative ⇔ same class of the generated congruence -/
theorem fold_uf_some_iff (s : MV) (hr : OpRange s) (hc : Complete s s.dim) {g0 : UF} {p0 : Part}
    (h0 : Sim g0 p0) (hp0 : OpClosed s (grep g0)) (hp0d : DegResp s (grep g0)) (d e : Nat)
    (hd1 : 1 ≤ d) (hd2 : d ≤ s.size) (he1 : 1 ≤ e) (he2 : e ≤ s.size) :
    foldUF s g0 d e ≠ .panic ∧
    ((∃ g, foldUF s g0 d e = .ok g) ↔
      ∃ c : Nat → Nat, OpClosed s c ∧ DegResp s c ∧ (∀ x y, grep g0 x = grep g0 y → c x = c y) ∧ c d = c e) ∧
    ∀ g, foldUF s g0 d e = .ok g →
      GWF g ∧ (∀ x y, grep g0 x = grep g0 y → grep g x = grep g y) ∧ grep g d = grep g e ∧
      OpClosed s (grep g) ∧ DegResp s (grep g) ∧
      ∀ c : Nat → Nat, OpClosed s c → (∀ x y, grep g0 x = grep g0 y → c x = c y) → c d = c e →
        ∀ x y, grep g x = grep g y → c x = c y := by
  have cl0 : OpClosed s p0.find := fun x y hx1 hx2 hy1 hy2 hxy i hi xi yi hxi hyi =>
    (h0.ker _ _).1 (hp0 x y hx1 hx2 hy1 hy2 ((h0.ker _ _).2 hxy) i hi xi yi hxi hyi)
  have dg0 : DegResp s p0.find := fun x y hxy => hp0d x y ((h0.ker _ _).2 hxy)
  have sim := fold_uf_simulates s h0 d e
  have hiff := fold_some_iff s hr hc p0 cl0 dg0 d e hd1 hd2 he1 he2
  have np := fold_no_panic s hr p0 d e hd1 hd2 he1 he2
  refine ⟨fun hp => ?_, ⟨fun ⟨g, hg⟩ => ?_, fun ⟨c, hcc, hcd, hc0, hcde⟩ => ?_⟩, fun g hg => ?_⟩
  · cases hf : fold s p0 d e with
    | ok q => obtain ⟨g', hg', _⟩ := sim.1 q hf; rw [hg'] at hp; cases hp
    | err => rw [sim.2.1 hf] at hp; cases hp
    | panic => exact np hf
  · cases hf : fold s p0 d e with
    | ok q =>
      obtain ⟨c, h1, h2, h3, h4⟩ := hiff.1 ⟨q, hf⟩
      exact ⟨c, h1, h2, fun x y hxy => h3 x y ((h0.ker _ _).1 hxy), h4⟩
    | err => rw [sim.2.1 hf] at hg; cases hg
    | panic => exact (np hf).elim
  · obtain ⟨q, hq⟩ := hiff.2 ⟨c, hcc, hcd, fun x y hxy => hc0 x y ((h0.ker _ _).2 hxy), hcde⟩
    obtain ⟨g, hg, _⟩ := sim.1 q hq
    exact ⟨g, hg⟩
  · cases hf : fold s p0 d e with
    | ok q =>
      obtain ⟨g', hg', hsim⟩ := sim.1 q hf
      rw [hg] at hg'; cases hg'
      obtain ⟨hincl, hde, hcl, hdg⟩ := fold_congruence s hr hc p0 q d e hd1 hd2 he1 he2 hf
      refine ⟨hsim.wf, fun x y hxy => (hsim.ker _ _).2 (hincl x y ((h0.ker _ _).1 hxy)),
        (hsim.ker _ _).2 hde, ?_, ?_, fun c hcc hc0 hcde x y hxy => ?_⟩
      · intro x y hx1 hx2 hy1 hy2 hxy i hi xi yi hxi hyi
        exact (hsim.ker _ _).2 (hcl cl0 x y hx1 hx2 hy1 hy2 ((hsim.ker _ _).1 hxy) i hi xi yi hxi hyi)
      · intro x y hxy
        exact hdg dg0 x y ((hsim.ker _ _).1 hxy)
      · exact fold_least s hr p0 q c d e hd1 hd2 he1 he2 hcc
          (fun x y hxy => hc0 x y ((h0.ker _ _).2 hxy)) hcde hf x y ((hsim.ker _ _).1 hxy)
    | err => rw [sim.2.1 hf] at hg; cases hg
    | panic => exact (np hf).elim

example := fold_uf_some_iff Mor.ex2 ex2_opRange ex2_complete Sim.new
  (fun x y hx1 hx2 hy1 hy2 hxy i hi xi yi hxi hyi => by
    rw [grep_new] at hxy ⊢; rw [grep_new]; subst hxy; rw [hxi] at hyi; exact Option.some.inj hyi)
  (fun x y hxy => by rw [grep_new, grep_new] at hxy; subst hxy; exact degreesMatch_refl _ _)
  1 2 (by decide) (by decide) (by decide) (by decide)

/-- **is_minimal_uf_eq**: `is_minimal()` on the union–find is `is_minimal()` on the class table —
    the same Boolean (or panic) for every view; `is_minimal_iff`,
    `is_minimal_iff_no_proper_quotient`, `is_minimal_iff_class_count` are statements about it -/
theorem is_minimal_uf_eq (s : MV) : isMinimalUF s = isMinimal s := isMinimalUF_eq s

example : isMinimalUF Mor.ex2 = .ok false := by decide
example : isMinimalUF d3 = .ok true := by decide

/-- the count form, on the function that is compared with the code -/
theorem is_minimal_uf_iff_class_count (ds : DSymData) (hs : ValidSym ds) (hsz : 1 ≤ ds.size)
    (hdim : 1 ≤ ds.dim) (hconn : ds.view.isConnected = true) :
    ∃ c, minimalImage ds = .ok c ∧ (isMinimalUF (ofSym ds) = .ok true ↔ c.size = ds.size) := by
  rw [is_minimal_uf_eq]
  exact is_minimal_iff_class_count ds hs hsz hdim hconn

example := is_minimal_uf_iff_class_count two two_valid (by decide) (by decide) two_connected

/-- **minimal_partition_uf**: the union–find from which `minimal_image` builds its quotient,
    `(2..=size).fold(Partition::new(), |p, d| ds.fold(&p, 1, d).unwrap_or(p))`, is computed without
    panic; it is well formed, has the classes of the class-table partition of
    `minimal_partition_coarsest` — so "same representative" is the COARSEST degree-respecting
    congruence of a connected symbol — and the representative of a chamber is a chamber -/
theorem minimal_partition_uf (s : MV) (hr : OpRange s) (hc : Complete s s.dim)
    (hinv : Invol s) (hconn : Connected s) (h1 : 1 ≤ s.size) :
    ∃ g q, foldAllUF s (s.elements.drop 1) UF.new = .ok g ∧
      foldAll s (s.elements.drop 1) Part.new = .ok q ∧ Sim g q ∧
      (∀ x, 1 ≤ x → x ≤ s.size → 1 ≤ grep g x ∧ grep g x ≤ s.size) ∧
      OpClosed s (grep g) ∧ DegResp s (grep g) ∧
      ∀ c : Nat → Nat, OpClosed s c → DegResp s c →
        ∀ x y, 1 ≤ x → x ≤ s.size → 1 ≤ y → y ≤ s.size → c x = c y → grep g x = grep g y := by
  obtain ⟨q, hq, hcl, hdg, hmax⟩ := minimal_partition_coarsest s hr hc hinv hconn h1
  have hsim := foldAllUF_sim s (s.elements.drop 1) UF.new Part.new Sim.new
  rw [hq] at hsim
  obtain ⟨g, hg, hgq⟩ := hsim.ok_right
  have hds : ∀ d, d ∈ s.elements.drop 1 → InR s d := fun d hd => by
    have := (mem_elements_drop s d).1 hd
    exact ⟨by omega, this.2⟩
  obtain ⟨_, hgr⟩ := foldAllUF_range s hr h1 _ UF.new g hds DSymVerif.PartP.gwf_new (GR.new _) hg
  refine ⟨g, q, hg, hq, hgq, fun x hx1 hx2 => hgr x ⟨hx1, hx2⟩, ?_, ?_, ?_⟩
  · intro x y hx1 hx2 hy1 hy2 hxy i hi xi yi hxi hyi
    exact (hgq.ker _ _).2 (hcl x y hx1 hx2 hy1 hy2 ((hgq.ker _ _).1 hxy) i hi xi yi hxi hyi)
  · intro x y hxy
    exact hdg x y ((hgq.ker _ _).1 hxy)
  · intro c hcc hcd x y hx1 hx2 hy1 hy2 hxy
    exact (hgq.ker _ _).2 (hmax c hcc hcd x y hx1 hx2 hy1 hy2 hxy)

example := minimal_partition_uf Mor.ex2 ex2_opRange ex2_complete ex2_invol ex2_connected (by decide)

/-- **number_loop_uf_eq**: the numbering loop of `minimal_image` reads the union–find through `find`
    only: on a well-formed union–find it is the numbering loop on the table
    `x ↦ find(x)` (x = 0..n) of its representatives, whatever path compression does in between.
    (`minimal_image_spec` is proved through this: `src2img` numbers the classes in order of first
    occurrence, `img2src` holds the code's representative of each class.) -/
theorem number_loop_uf_eq (n : Nat) (ds : List Nat) (g : UF) (st : NumState) (wf : GWF g)
    (hds : ∀ d, d ∈ ds → d ≤ n) :
    numberLoopUF g ds st = numberLoop (tableOf n (grep g)) ds st :=
  numberLoopUF_eq n ds g g st wf (fun _ => rfl) hds

example := number_loop_uf_eq 2 [1, 2] UF.new
  { src2img := Array.replicate 3 0, img2src := Array.replicate 3 0, next := 1 }
  DSymVerif.PartP.gwf_new (by decide)

end

end DSymVerif.C04
