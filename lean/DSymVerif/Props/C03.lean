/-
Property C03 — canonical form is a complete isomorphism invariant.

  "The canonical form of a connected D-symbol is isomorphic to the input and is a fixed point
   of canonicalisation.  Two connected D-symbols have equal canonical forms if and only if
   they are isomorphic; in particular every renumbering of the chambers of a symbol yields the
   same canonical form."

Property theorems only.  They speak about the executable model `DSymVerif.DS.*` of
Model/Canonical.lean (`traversalCode`, `compareCodes`, `minimalTraversalCode`, `rebuild`,
`canonical`; tied to dsyms.rs / derived.rs by the differential check), for ALL symbols — no
bound on size or dimension.

Vocabulary (Proofs/DSetBasic.lean, Proofs/Canonical*.lean):
  `ValidSym s`          s is a D-symbol as the library builds it (complete involutive D-set,
                        commuting far operations, orbit tables = collect_orbits)
  `CanonP.PermOn n m`   the `Vec` m (length n+1) restricted to 1..n is an injection into 1..n
  `CanonP.IsIso f a b`  f is an isomorphism a → b: a bijection of the chambers that commutes
                        with every operation and preserves every adjacent branching number
  `CanonP.Renum φ s s'` the view s' is the view s renumbered by the injective map φ
  `CanonP.OutRel r x y` the outcomes x, y are of the same kind (ok / err / panic) and, when
                        both are ok, related by r
  `CanonP.Conn a`       every chamber of a is reachable from chamber 1 (= `is_connected()`)

Main results (section 5), for every connected valid symbol of any size and dimension ≥ 1:
  `canonical_isomorphic`  canonical a = ok c, c valid, a ≅ c
  `canonical_idempotent`  canonical c = ok c
  `canonical_renumber`    a ≅ b (in particular b a renumbering of a) ⇒ canonical b = canonical a
  `canonical_complete`    canonical a = canonical b ⇔ a ≅ b
They rest on C02's `traversal_sound` / `traversal_complete` (Props/C02.lean) for the `Traversal`
iterator and on `collectOrbits_rows` (Proofs/DSetCollect.lean) for `collect_orbits`.
-/
import DSymVerif.Proofs.CanonicalSpec

namespace DSymVerif.C03
open DSymVerif DSymVerif.DS DSymVerif.DS.CanonP

/-! ## 1. the canonical form is isomorphic to the input -/

/-- ✔ **rebuild_iso**: if the chamber map `m` is a bijection of 1..size then the construction
    at the end of `canonical` (`img2src`, `build_set`, `build_sym_using_vs`) does not panic and
    returns a valid symbol that is isomorphic to `s` by that very map: operations conjugated,
    branching numbers transported. -/
theorem rebuild_iso {s : DSymData} (h : ValidSym s) (hsize : 1 ≤ s.size) (hdim : 1 ≤ s.dim)
    {m : Array Nat} (hm : PermOn s.size m) :
    ∃ c, DS.rebuild s m = .ok c ∧ ValidSym c ∧ IsIso (fun d => m.getD d 0) s c :=
  rebuild_isIso h hsize hdim hm

/-- a valid one-chamber symbol of dimension 2, for the non-vacuity examples -/
def ex1 : DSymData := DSymData.ofSimple { size := 1, dim := 2, op := #[1, 1, 1] }

theorem ex1_valid : ValidSym ex1 := by
  apply ValidSym.ofSimple
  · refine ⟨by decide, ?_, ?_⟩
    · intro i d hi h1 h2
      have hd : d = 1 := by have : d ≤ 1 := h2; omega
      have : i = 0 ∨ i = 1 ∨ i = 2 := by have : i ≤ 2 := hi; omega
      subst hd; rcases this with rfl | rfl | rfl <;> decide
    · intro i d hi h1 h2
      have hd : d = 1 := by have : d ≤ 1 := h2; omega
      have : i = 0 ∨ i = 1 ∨ i = 2 := by have : i ≤ 2 := hi; omega
      subst hd; rcases this with rfl | rfl | rfl <;> decide
  · intro i j d hij hj h1 h2
    have hd : d = 1 := by have : d ≤ 1 := h2; omega
    have : i = 0 ∧ j = 2 := by have : j ≤ 2 := hj; omega
    obtain ⟨rfl, rfl⟩ := this
    subst hd; decide

theorem ex1_perm : PermOn ex1.size #[0, 1] := by
  refine ⟨by decide, ?_, ?_⟩
  · intro d h1 h2
    have hd : d = 1 := by have : d ≤ 1 := h2; omega
    subst hd; decide
  · intro d e h1 h2 h3 h4 _
    have : d ≤ 1 := h2
    have : e ≤ 1 := h4
    omega

example : ∃ s m, ValidSym s ∧ 1 ≤ s.size ∧ 1 ≤ s.dim ∧ PermOn s.size m :=
  ⟨ex1, #[0, 1], ex1_valid, by decide, by decide, ex1_perm⟩

/-- "the canonical form is isomorphic to the input" whenever the element map of the minimal
    traversal is a bijection of the chambers (the Spec evaluates this on every explored case;
    for connected symbols it is the completeness of the traversal, C02). -/
theorem canonical_iso {s : DSymData} (h : ValidSym s) (hsize : 1 ≤ s.size) (hdim : 1 ≤ s.dim)
    {best : Code} (hbest : minimalTraversalCode s = .ok best) (hm : PermOn s.size best.map) :
    ∃ c, canonical s = .ok c ∧ ValidSym c ∧ IsIso (fun d => best.map.getD d 0) s c := by
  obtain ⟨c, hc, hv, hi⟩ := rebuild_iso h hsize hdim hm
  refine ⟨c, ?_, hv, hi⟩
  unfold canonical
  rw [hbest]
  exact hc

example : ∃ s best, ValidSym s ∧ 1 ≤ s.size ∧ 1 ≤ s.dim ∧ minimalTraversalCode s = .ok best ∧
    PermOn s.size best.map :=
  ⟨ex1, ⟨[-1, 1, 0, 0, 0, 1, 1, 1, 1, 1, 2, 1, 1], #[0, 1]⟩, ex1_valid, by decide, by decide,
    by decide, ex1_perm⟩

/-! ## 2. equivariance of the traversal and of its code under renumbering -/

/-- one `next()` of the `Traversal` iterator commutes with an injective renumbering `φ` of the
    chambers: the renumbered state over the renumbered view yields the renumbered item and
    the renumbered successor state (or ends alike). -/
theorem travNext_equivariant {φ : Nat → Nat} {s s' : View} (R : Renum φ s s') (idx : List Nat)
    (fuel : Nat) (st : View.TravState) :
    View.travNext s' idx fuel (mapState φ st) =
      (View.travNext s idx fuel st).map (fun r => (mapItem φ r.1, mapState φ r.2)) :=
  travNext_equiv R idx fuel st

/-- the whole traversal of the renumbered view from the renumbered seeds is the renumbered
    traversal -/
theorem traversal_equivariant {φ : Nat → Nat} {s s' : View} (R : Renum φ s s') (idx seeds : List Nat) :
    s'.traversal idx (seeds.map φ) = (s.traversal idx seeds).map (mapItem φ) :=
  traversal_equiv R idx seeds

/-- ✔ **traversalCode_equivariant**: for an isomorphism `f : a → b` (in particular for every
    renumbering of `a`), `TraversalCode::new(b, f seed)` and `TraversalCode::new(a, seed)`
    produce the same code, and their element maps correspond: `map_b (f d) = map_a d`.
    (They also panic alike.) -/
theorem traversalCode_equivariant {f : Nat → Nat} {a b : DSymData} (ha : ValidSet a.dset)
    (iso : IsIso f a b) {seed : Nat} (h1 : 1 ≤ seed) (h2 : seed ≤ a.size) :
    OutRel (fun c c' => c'.code = c.code ∧ c'.map.size = c.map.size ∧
        ∀ d, 1 ≤ d → d ≤ a.size → c'.map.getD (f d) 0 = c.map.getD d 0)
      (traversalCode a seed) (traversalCode b (f seed)) :=
  traversalCode_equiv ha iso h1 h2

example : ∃ (f : Nat → Nat) (a b : DSymData) (seed : Nat), ValidSet a.dset ∧ IsIso f a b ∧
    1 ≤ seed ∧ seed ≤ a.size := by
  refine ⟨id, ex1, ex1, 1, ex1_valid.set, ⟨rfl, rfl, ?_, ?_, ?_, ?_⟩, by decide, by decide⟩
  · intro d h1 h2; exact ⟨h1, h2⟩
  · intro d e _ _ _ _ h; exact h
  · intro i d _ _ _; show ex1.op i d = (ex1.op i d).map id; rw [Option.map_id]; rfl
  · intro i d _ _ _; rfl

/-- corresponding chamber maps rebuild the same symbol: for an isomorphism `f : a → b` and
    chamber maps with `m' (f d) = m d` the tail of `canonical` returns literally the same symbol
    for `(b, m')` as for `(a, m)` — so `canonical b = canonical a` as soon as the two minimal
    traversals start at corresponding seeds. -/
theorem rebuild_corresponding_maps {f : Nat → Nat} {a b : DSymData} (ha : ValidSym a)
    (iso : IsIso f a b) {m m' : Array Nat} (hm : PermOn a.size m) (hm' : PermOn b.size m')
    (hmm : ∀ d, 1 ≤ d → d ≤ a.size → m'.getD (f d) 0 = m.getD d 0) :
    DS.rebuild b m' = DS.rebuild a m :=
  rebuild_iso_eq ha iso hm hm' hmm

/-! ## 3. `compare_codes` and `minimal_traversal_code` -/

/-- on codes of equal length `compare_codes` does not panic and its sign is the lexicographic
    order on integer lists -/
theorem compareCodes_lex (x y : List Int) (h : x.length = y.length) :
    ∃ c, compareCodes x y = .ok c ∧ (c < 0 ↔ x < y) ∧ (c = 0 ↔ x = y) :=
  compareCodes_eqlen x y h

example : compareCodes [0, 1, 2] [0, 2, 1] = .ok (-1) := by decide

/-- when all seeds have codes `C d` of one length, `minimal_traversal_code` returns the exhausted
    `TraversalCode` of one of the seeds, and no seed has a lexicographically smaller code -/
theorem minimalTraversalCode_least {s : DSymData} (hsize : 1 ≤ s.size) {C : Nat → Code} {L : Nat}
    (hC : ∀ d, 1 ≤ d → d ≤ s.size → traversalCode s d = .ok (C d) ∧ (C d).code.length = L) :
    ∃ r, minimalTraversalCode s = .ok r ∧ (∃ d, 1 ≤ d ∧ d ≤ s.size ∧ r = C d) ∧
      ∀ d, 1 ≤ d → d ≤ s.size → r.code ≤ (C d).code :=
  minimalTraversalCode_spec hsize hC

/-! ## 4. every seed of a connected symbol is good; the code determines the symbol

`Conn a`                : every chamber is reachable from chamber 1 (= `is_connected()`, see
                          `conn_iff_isConnected`);
`AllSeedsGood a`        : every seed's `TraversalCode` returns, its element map is a bijection of
                          the chambers, and all the codes have one length;
`CodeDeterminesSymbol a`: two seeds of `a` with equal codes rebuild equal symbols. -/

/-- connectedness in the sense of these theorems is what the library's `is_connected()` computes -/
theorem conn_iff_isConnected {a : DSymData} (ha : ValidSet a.dset) :
    Conn a ↔ a.view.isConnected = true :=
  CanonP.conn_iff_isConnected ha

theorem ex1_conn : Conn ex1 := by
  intro d h1 h2
  have hd : d = 1 := by have : d ≤ 1 := h2; omega
  subst hd
  exact View.Reach.refl 1

/-- on a connected valid symbol every seed's `TraversalCode` returns without panic, numbers all
    chambers bijectively, and all the codes have one length — so `compare_codes` never hits its
    `unwrap()` and is the lexicographic comparison (uses C02 `traversal_sound` /
    `traversal_complete`) -/
theorem seeds_good {a : DSymData} (ha : ValidSym a) (hsize : 1 ≤ a.size) (hc : Conn a) :
    AllSeedsGood a :=
  allSeedsGood ha hsize hc

example : ∃ a, ValidSym a ∧ 1 ≤ a.size ∧ Conn a := ⟨ex1, ex1_valid, by decide, ex1_conn⟩

/-- on a connected valid symbol the code lists every operation entry and every branching number
    of the renumbered symbol: two seeds with equal codes rebuild literally the same symbol -/
theorem code_determines_symbol {a : DSymData} (ha : ValidSym a) (hc : Conn a) :
    CodeDeterminesSymbol a :=
  codeDeterminesSymbol ha hc

/-! ## 5. the property -/

/-- **"The canonical form of a connected D-symbol is isomorphic to the input"**: `canonical`
    returns (no panic), its result is a valid symbol, and the element map of the minimal
    traversal is an isomorphism onto it. -/
theorem canonical_isomorphic {a : DSymData} (ha : ValidSym a) (hsize : 1 ≤ a.size) (hdim : 1 ≤ a.dim)
    (hc : Conn a) : ∃ c m, canonical a = .ok c ∧ ValidSym c ∧ IsIso m a c :=
  canonical_ok_iso ha hsize hdim (allSeedsGood ha hsize hc)

example : ∃ a, ValidSym a ∧ 1 ≤ a.size ∧ 1 ≤ a.dim ∧ Conn a :=
  ⟨ex1, ex1_valid, by decide, by decide, ex1_conn⟩

/-- ✔ **canonical_renumber — "every renumbering of the chambers of a symbol yields the same
    canonical form"**, and more generally every symbol `b` isomorphic to `a` has literally the
    same canonical form. -/
theorem canonical_renumber {f : Nat → Nat} {a b : DSymData} (ha : ValidSym a) (hsize : 1 ≤ a.size)
    (hc : Conn a) (iso : IsIso f a b) : canonical b = canonical a :=
  canonical_eq_of_iso ha hsize iso (allSeedsGood ha hsize hc) (codeDeterminesSymbol ha hc)

example : ∃ (f : Nat → Nat) (a b : DSymData), ValidSym a ∧ 1 ≤ a.size ∧ Conn a ∧ IsIso f a b := by
  refine ⟨id, ex1, ex1, ex1_valid, by decide, ex1_conn, ⟨rfl, rfl, ?_, ?_, ?_, ?_⟩⟩
  · intro d h1 h2; exact ⟨h1, h2⟩
  · intro d e _ _ _ _ h; exact h
  · intro i d _ _ _; show ex1.op i d = (ex1.op i d).map id; rw [Option.map_id]; rfl
  · intro i d _ _ _; rfl

/-- ✔ **"… and is a fixed point of canonicalisation"** -/
theorem canonical_idempotent {a c : DSymData} (ha : ValidSym a) (hsize : 1 ≤ a.size) (hdim : 1 ≤ a.dim)
    (hc : Conn a) (hcan : canonical a = .ok c) : canonical c = .ok c :=
  canonical_idem_of ha hsize hdim (allSeedsGood ha hsize hc) (codeDeterminesSymbol ha hc) hcan

example : ∃ c, canonical ex1 = .ok c := ⟨_, (canonical_isomorphic ex1_valid (by decide) (by decide) ex1_conn).choose_spec.choose_spec.1⟩

/-- ✔ **"Two connected D-symbols have equal canonical forms if and only if they are
    isomorphic"** — the canonical form is a complete isomorphism invariant. -/
theorem canonical_complete {a b : DSymData} (ha : ValidSym a) (hb : ValidSym b)
    (hsa : 1 ≤ a.size) (hda : 1 ≤ a.dim) (hsb : 1 ≤ b.size) (hdb : 1 ≤ b.dim)
    (hca : Conn a) (hcb : Conn b) :
    canonical a = canonical b ↔ ∃ f, IsIso f a b :=
  canonical_eq_iff_iso ha hb hsa hda hsb hdb (allSeedsGood ha hsa hca) (codeDeterminesSymbol ha hca)
    (allSeedsGood hb hsb hcb)

example : ∃ a b, ValidSym a ∧ ValidSym b ∧ 1 ≤ a.size ∧ 1 ≤ a.dim ∧ 1 ≤ b.size ∧ 1 ≤ b.dim ∧
    Conn a ∧ Conn b :=
  ⟨ex1, ex1, ex1_valid, ex1_valid, by decide, by decide, by decide, by decide, ex1_conn, ex1_conn⟩

/-- the canonical form of a connected symbol is again a connected valid symbol of the same
    size and dimension (so all of the above applies to it) -/
theorem canonical_connected {a c : DSymData} (ha : ValidSym a) (hsize : 1 ≤ a.size) (hdim : 1 ≤ a.dim)
    (hc : Conn a) (hcan : canonical a = .ok c) :
    ValidSym c ∧ c.size = a.size ∧ c.dim = a.dim ∧ Conn c := by
  obtain ⟨c', m, h1, h2, iso⟩ := canonical_isomorphic ha hsize hdim hc
  rw [hcan] at h1; cases h1
  have hP : c.view.PInvol := by rw [c.view_eq]; exact h2.set.pinvol
  exact ⟨h2, iso.size, iso.dim, Conn.iso ha.set iso hc hP⟩

/-! ## 6. the hypotheses hold for every symbol the library builds from valid tables -/

/-- **Every in-domain input satisfies the hypotheses of the theorems above.**  From tables
    `op`, `v` of a complete D-symbol (operations are involutions of 1..size, far operations
    commute, branching numbers constant along the two operations of their index pair)
    `build_set` + `build_sym_using_vs` (the way the harness, the parser and all constructors
    of derived.rs obtain a `PartialDSym`) return, without panic, a `ValidSym` with exactly
    these operations and branching numbers. -/
theorem input_valid {size dim : Nat} {op v : Nat → Nat → Nat} (hsize : 1 ≤ size) (hdim : 1 ≤ dim)
    (hrange : ∀ i d, i ≤ dim → 1 ≤ d → d ≤ size → 1 ≤ op i d ∧ op i d ≤ size)
    (hinvol : ∀ i d, i ≤ dim → 1 ≤ d → d ≤ size → op i (op i d) = d)
    (hfar : ∀ i j d, i + 1 < j → j ≤ dim → 1 ≤ d → d ≤ size → op j (op i d) = op i (op j d))
    (hv : ∀ i d, i < dim → 1 ≤ d → d ≤ size → v i (op i d) = v i d ∧ v i (op (i + 1) d) = v i d) :
    ∃ s, ofTables size dim op v = .ok s ∧ ValidSym s ∧ s.size = size ∧ s.dim = dim ∧
      (∀ i d, i ≤ dim → 1 ≤ d → d ≤ size → s.op i d = some (op i d)) ∧
      (∀ i d, i < dim → 1 ≤ d → d ≤ size → s.vAdj i d = some (v i d)) :=
  ofTables_valid hsize hdim hrange hinvol hfar hv

example : ∃ (size dim : Nat) (op v : Nat → Nat → Nat), 1 ≤ size ∧ 1 ≤ dim ∧
    (∀ i d, i ≤ dim → 1 ≤ d → d ≤ size → 1 ≤ op i d ∧ op i d ≤ size) ∧
    (∀ i d, i ≤ dim → 1 ≤ d → d ≤ size → op i (op i d) = d) ∧
    (∀ i j d, i + 1 < j → j ≤ dim → 1 ≤ d → d ≤ size → op j (op i d) = op i (op j d)) ∧
    (∀ i d, i < dim → 1 ≤ d → d ≤ size → v i (op i d) = v i d ∧ v i (op (i + 1) d) = v i d) :=
  ⟨5, 3, fun _ d => d, fun _ _ => 3, by decide, by decide, fun _ _ _ h1 h2 => ⟨h1, h2⟩,
    fun _ _ _ _ _ => rfl, fun _ _ _ _ _ _ _ => rfl, fun _ _ _ _ _ => ⟨rfl, rfl⟩⟩

/-! ## 7. a concrete instance, evaluated by the kernel -/

/-- `<1.1:3:1 2 3,3 2,2 3:…>` with all branching numbers unset … -/
def ex3 : DSymData := DSymData.ofSimple { size := 3, dim := 2, op := #[1, 3, 2, 2, 2, 1, 3, 1, 3] }
/-- … and its renumbering 1 → 2 → 3 → 1 -/
def ex3r : DSymData := DSymData.ofSimple { size := 3, dim := 2, op := #[1, 2, 1, 2, 1, 3, 3, 3, 2] }

example : canonical ex3r = canonical ex3 := by decide +kernel
example : (canonical ex3).bind canonical = canonical ex3 := by decide +kernel
example : (minimalTraversalCode ex3).toOption.map (·.map) = some #[0, 2, 1, 3] := by decide +kernel

/-! ## 8. the Spec (Spec/C03.lean) means what the theorems say

`SymAgrees a s`  the Spec's tables `a : SpecC03.Sym` and the model symbol `s : DSymData` describe
                 the same symbol: same size and dimension, `s.op i d = some (a.opAt i d)`,
                 `s.vAdj i d = some (a.vAt i d)` on all chambers.
`SymIso g a b`   the definition of an isomorphism on the Spec's tables. -/

open DSymVerif.SpecC03 in
/-- **decoding (stable name `DSymVerif.C03.decode_valid`)**: tables that pass the Spec's `inDomain`
    (dim ≥ 1, involutions of 1..size, far operations commute, branching numbers on orbits,
    connected) are decoded by `ofTables` — the body of the drivers' `RawSym.toSym`, i.e. the
    library's `build_set` + `build_sym_using_vs` — without panic into a `ValidSym` that is connected
    and describes the same symbol as the Spec's view of the tables.  So every case whose
    `input-in-domain` clause holds satisfies the hypotheses of all theorems of this file. -/
theorem decode_valid {a : SpecC03.Sym} (h : SpecC03.inDomain a = true) :
    ∃ s, ofTables a.size a.dim a.opAt a.vAt = .ok s ∧ ValidSym s ∧ 1 ≤ s.size ∧ 1 ≤ s.dim ∧
      Conn s ∧ SymAgrees a s :=
  CanonP.decode_valid h

/-- a one-chamber in-domain table (the tables of `ex1`) -/
def specEx1 : SpecC03.Sym := { size := 1, dim := 2, op := #[1, 1, 1], v := #[0, 0] }

example : SpecC03.inDomain specEx1 = true := by decide

/-- the same for the driver's decoder applied to transmitted tables -/
theorem decode_raw_valid (r : DSymVerif.Proto.RawSym) (h : SpecC03.inDomain (rawToSpec r) = true) :
    ∃ s, r.toSym = .ok s ∧ ValidSym s ∧ 1 ≤ s.size ∧ 1 ≤ s.dim ∧ Conn s ∧ SymAgrees (rawToSpec r) s :=
  CanonP.decode_raw_valid r h

example : ∃ r : DSymVerif.Proto.RawSym, SpecC03.inDomain (rawToSpec r) = true :=
  ⟨{ size := 1, dim := 2, op := #[1, 1, 1], v := #[0, 0] }, by decide⟩

/-- what agreement gives in terms of the stored tables (the form `C04.spec_degree_is_model_degree`
    asks for): the raw operation table and the per-orbit branching table are the Spec's tables -/
theorem agrees_tables {a : SpecC03.Sym} {s : DSymData} (h : SymAgrees a s) (hv : ValidTables s) :
    s.size = a.size ∧ s.dim = a.dim ∧
    (∀ i d, i ≤ s.dim → 1 ≤ d → d ≤ s.size → a.opAt i d = s.dset.opU i d) ∧
    (∀ i d, i < s.dim → 1 ≤ d → d ≤ s.size → a.vAt i d = s.orbitVs.getD (s.ixAt i d) 0) :=
  ⟨h.size, h.dim,
    fun i d hi h1 h2 => (h.opU (by rw [← h.dim]; exact hi) h1 (by rw [← h.size]; exact h2)).symm,
    fun i d hi h1 h2 => (h.orbitVs hv (by rw [← h.dim]; exact hi) h1 (by rw [← h.size]; exact h2)).symm⟩

example : ∃ a s, SymAgrees a s ∧ ValidTables s :=
  let ⟨s, _, hv, _, _, _, hag⟩ := decode_valid (a := specEx1) (by decide)
  ⟨specEx1, s, hag, hv.toValidTables⟩

/-- **meaning of `SpecC03.isIso`**: the Boolean is the definition of an isomorphism
    (`isBijection` = injection of 1..n into 1..n, commutation with every operation, preservation
    of every adjacent branching number), i.e. `IsIso` on the symbols the tables describe -/
theorem spec_isIso_meaning {a b : SpecC03.Sym} {sa sb : DSymData} (ha : SymAgrees a sa)
    (hb : SymAgrees b sb) (f : Array Nat) :
    (SpecC03.isIso f a b = true ↔ SymIso (fun d => f.getD d 0) a b) ∧
    (SpecC03.isIso f a b = true ↔ IsIso (fun d => f.getD d 0) sa sb) :=
  ⟨isIso_iff f a b, (isIso_iff f a b).trans (symIso_iff_isIso ha hb _)⟩

/-- `SpecC03.isBijection n f` says yes exactly for the injections of 1..n into 1..n (bijections,
    by `surj_of_inj`) -/
theorem spec_isBijection_meaning (n : Nat) (f : Array Nat) : SpecC03.isBijection n f = true ↔
    (∀ d, 1 ≤ d → d ≤ n → 1 ≤ f.getD d 0 ∧ f.getD d 0 ≤ n) ∧
    (∀ d e, 1 ≤ d → d ≤ n → 1 ≤ e → e ≤ n → f.getD d 0 = f.getD e 0 → d = e) :=
  isBijection_iff n f

/-- soundness of the brute-force search: whatever `findIso` returns is an isomorphism
    (for all tables, no hypothesis) -/
theorem spec_findIso_sound {a b : SpecC03.Sym} {f : Array Nat} (h : SpecC03.findIso a b = some f) :
    SpecC03.isIso f a b = true :=
  findIso_sound h

example : SpecC03.findIso specEx1 specEx1 = some #[0, 1] := by decide

/-- completeness of the brute-force search: for a well-formed connected source, if any
    isomorphism exists the search returns one (the extension from the image of chamber 1 is
    forced) -/
theorem spec_findIso_complete {a b : SpecC03.Sym} {g : Nat → Nat} (hw : a.wellFormed = true)
    (hc : a.connected = true) (iso : SymIso g a b) : SpecC03.findIso a b ≠ none := by
  have := findIso_complete ((wellFormed_iff a).1 hw) (connected_sound hc) iso
  intro hn; rw [hn] at this; cases this

example : ∃ (a b : SpecC03.Sym) (g : Nat → Nat), a.wellFormed = true ∧ a.connected = true ∧ SymIso g a b :=
  ⟨specEx1, specEx1, fun d => (#[0, 1] : Array Nat).getD d 0, by decide, by decide,
    (isIso_iff #[0, 1] specEx1 specEx1).1 (by decide)⟩

/-- **`SpecC03.isomorphic` decides isomorphism** on the domain: for in-domain tables `a`, any
    tables `b`, and model symbols describing them -/
theorem spec_isomorphic_decides {a b : SpecC03.Sym} {sa sb : DSymData}
    (hd : SpecC03.inDomain a = true) (ha : SymAgrees a sa) (hb : SymAgrees b sb) :
    SpecC03.isomorphic a b = true ↔ ∃ g, IsIso g sa sb :=
  isomorphic_iff hd ha hb

/-- the Spec clause "canonical forms equal ⇔ brute-force isomorphic" is, for the model, a
    corollary of `canonical_complete`: on in-domain tables the brute-force verdict is equality
    of the model's canonical forms of the decoded symbols -/
theorem spec_separation_is_canonical_complete {a b : SpecC03.Sym}
    (hda : SpecC03.inDomain a = true) (hdb : SpecC03.inDomain b = true) :
    ∃ sa sb, ofTables a.size a.dim a.opAt a.vAt = .ok sa ∧ ofTables b.size b.dim b.opAt b.vAt = .ok sb ∧
      (SpecC03.isomorphic a b = true ↔ canonical sa = canonical sb) := by
  obtain ⟨sa, ea, hva, hsa, hdma, hca, haa⟩ := decode_valid hda
  obtain ⟨sb, eb, hvb, hsb, hdmb, hcb, hbb⟩ := decode_valid hdb
  refine ⟨sa, sb, ea, eb, ?_⟩
  rw [spec_isomorphic_decides hda haa hbb]
  exact (canonical_complete hva hvb hsa hdma hsb hdmb hca hcb).symm

example : SpecC03.inDomain specEx1 = true ∧ SpecC03.inDomain specEx1 = true := by decide

/-! ## 9. the hypotheses and conclusions on a three-chamber symbol with a non-trivial renumbering

`t3`  = `<1.1:3:1 2 3,3 2,2 3:…>` with v01 = 3 on the orbit {1,3}, 4 on {2}, v12 = 1;
`t3r` = `t3` renumbered by 1 → 2 → 3 → 1;
`t3x` = the same D-set with v01 exchanged (4 on {1,3}, 3 on {2}) — not isomorphic to `t3`.
All facts are evaluated by the kernel. -/

def t3 : SpecC03.Sym := { size := 3, dim := 2, op := #[1, 3, 2, 2, 2, 1, 3, 1, 3], v := #[3, 4, 3, 1, 1, 1] }
def t3r : SpecC03.Sym := { size := 3, dim := 2, op := #[1, 2, 1, 2, 1, 3, 3, 3, 2], v := #[3, 3, 4, 1, 1, 1] }
def t3x : SpecC03.Sym := { size := 3, dim := 2, op := #[1, 3, 2, 2, 2, 1, 3, 1, 3], v := #[4, 3, 4, 1, 1, 1] }

theorem t3_inDomain : SpecC03.inDomain t3 = true ∧ SpecC03.inDomain t3r = true ∧
    SpecC03.inDomain t3x = true := by decide +kernel

theorem t3_renumbering : SpecC03.isIso #[0, 2, 3, 1] t3 t3r = true ∧
    SpecC03.renumber t3 #[0, 2, 3, 1] = t3r := by decide +kernel

/-- the hypotheses of `canonical_isomorphic`, `canonical_idempotent`, `canonical_renumber` and
    `canonical_complete` are satisfied by three-chamber symbols with a non-identity isomorphism -/
example : ∃ (f : Nat → Nat) (a b : DSymData), ValidSym a ∧ ValidSym b ∧ 1 ≤ a.size ∧ 1 ≤ a.dim ∧
    1 ≤ b.size ∧ 1 ≤ b.dim ∧ Conn a ∧ Conn b ∧ IsIso f a b ∧ f 1 = 2 ∧ a.size = 3 := by
  obtain ⟨a, _, hva, hsa, hda, hca, haa⟩ := decode_valid t3_inDomain.1
  obtain ⟨b, _, hvb, hsb, hdb, hcb, hbb⟩ := decode_valid t3_inDomain.2.1
  exact ⟨_, a, b, hva, hvb, hsa, hda, hsb, hdb, hca, hcb,
    ((spec_isIso_meaning haa hbb #[0, 2, 3, 1]).2).1 t3_renumbering.1, rfl, haa.size⟩

/-- … and on them the conclusions, computed: the renumbered symbol has the same canonical form,
    the canonical form is a fixed point … -/
example :
    (ofTables 3 2 t3r.opAt t3r.vAt).bind canonical = (ofTables 3 2 t3.opAt t3.vAt).bind canonical ∧
    ((ofTables 3 2 t3.opAt t3.vAt).bind canonical).bind canonical =
      (ofTables 3 2 t3.opAt t3.vAt).bind canonical ∧
    ((ofTables 3 2 t3.opAt t3.vAt).bind canonical).isOk = true := by decide +kernel

/-- … while the non-isomorphic symbol on the same D-set has a different canonical form, and the
    Spec's search says "not isomorphic" — by `spec_isomorphic_decides` there is no isomorphism -/
example :
    (ofTables 3 2 t3x.opAt t3x.vAt).bind canonical ≠ (ofTables 3 2 t3.opAt t3.vAt).bind canonical ∧
    SpecC03.isomorphic t3 t3x = false ∧ SpecC03.isomorphic t3 t3r = true := by decide +kernel

example : ∃ a x : DSymData, ValidSym a ∧ ValidSym x ∧ Conn a ∧ Conn x ∧ a.size = 3 ∧
    (¬ ∃ g, IsIso g a x) ∧ canonical a ≠ canonical x := by
  obtain ⟨a, _, hva, hsa, hda, hca, haa⟩ := decode_valid t3_inDomain.1
  obtain ⟨x, _, hvx, hsx, hdx, hcx, hxx⟩ := decode_valid t3_inDomain.2.2
  have hni : ¬ ∃ g, IsIso g a x := by
    intro h
    have := (spec_isomorphic_decides t3_inDomain.1 haa hxx).2 h
    have hf : SpecC03.isomorphic t3 t3x = false := by decide +kernel
    rw [hf] at this; cases this
  exact ⟨a, x, hva, hvx, hca, hcx, haa.size, hni,
    fun he => hni ((canonical_complete hva hvx hsa hda hsx hdx hca hcx).1 he)⟩

end DSymVerif.C03
