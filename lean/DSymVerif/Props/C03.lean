/-
Property C03 — canonical form is a complete isomorphism invariant.

  "The canonical form of a connected D-symbol is isomorphic to the input and is a fixed point
   of canonicalisation.  Two connected D-symbols have equal canonical forms if and only if
   they are isomorphic; in particular every renumbering of the chambers of a symbol yields the
   same canonical form."

Property theorems only.  They speak about the executable model `DSymVerif.DS.*` of
Model/Canonical.lean (`traversalCode`, `compareCodes`, `minimalTraversalCode`, `rebuild`,
`canonical`; tied to dsyms.rs / derived.rs by the differential check), for ALL symbols — no
bound on size or dimension.

Vocabulary (Proofs/DSetBasic.lean, Proofs/Canonical*.lean):
  `ValidSym s`          s is a D-symbol as the library builds it (complete involutive D-set,
                        commuting far operations, orbit tables = collect_orbits)
  `CanonP.PermOn n m`   the `Vec` m (length n+1) restricted to 1..n is an injection into 1..n
  `CanonP.IsIso f a b`  f is an isomorphism a → b: a bijection of the chambers that commutes
                        with every operation and preserves every adjacent branching number
  `CanonP.Renum φ s s'` the view s' is the view s renumbered by the injective map φ
  `CanonP.OutRel r x y` the outcomes x, y are of the same kind (ok / err / panic) and, when
                        both are ok, related by r
-/
import DSymVerif.Proofs.CanonicalMin

namespace DSymVerif.C03
open DSymVerif DSymVerif.DS DSymVerif.DS.CanonP

/-! ## 1. the canonical form is isomorphic to the input -/

/-- ✔ **rebuild_iso**: if the chamber map `m` is a bijection of 1..size then the construction
    at the end of `canonical` (`img2src`, `build_set`, `build_sym_using_vs`) does not panic and
    returns a valid symbol that is isomorphic to `s` by that very map: operations conjugated,
    branching numbers transported. -/
theorem rebuild_iso {s : DSymData} (h : ValidSym s) (hsize : 1 ≤ s.size) (hdim : 1 ≤ s.dim)
    {m : Array Nat} (hm : PermOn s.size m) :
    ∃ c, DS.rebuild s m = .ok c ∧ ValidSym c ∧ IsIso (fun d => m.getD d 0) s c :=
  rebuild_isIso h hsize hdim hm

/-- a valid one-chamber symbol of dimension 2, for the non-vacuity examples -/
def ex1 : DSymData := DSymData.ofSimple { size := 1, dim := 2, op := #[1, 1, 1] }

theorem ex1_valid : ValidSym ex1 := by
  apply ValidSym.ofSimple
  · refine ⟨by decide, ?_, ?_⟩
    · intro i d hi h1 h2
      have hd : d = 1 := by have : d ≤ 1 := h2; omega
      have : i = 0 ∨ i = 1 ∨ i = 2 := by have : i ≤ 2 := hi; omega
      subst hd; rcases this with rfl | rfl | rfl <;> decide
    · intro i d hi h1 h2
      have hd : d = 1 := by have : d ≤ 1 := h2; omega
      have : i = 0 ∨ i = 1 ∨ i = 2 := by have : i ≤ 2 := hi; omega
      subst hd; rcases this with rfl | rfl | rfl <;> decide
  · intro i j d hij hj h1 h2
    have hd : d = 1 := by have : d ≤ 1 := h2; omega
    have : i = 0 ∧ j = 2 := by have : j ≤ 2 := hj; omega
    obtain ⟨rfl, rfl⟩ := this
    subst hd; decide

theorem ex1_perm : PermOn ex1.size #[0, 1] := by
  refine ⟨by decide, ?_, ?_⟩
  · intro d h1 h2
    have hd : d = 1 := by have : d ≤ 1 := h2; omega
    subst hd; decide
  · intro d e h1 h2 h3 h4 _
    have : d ≤ 1 := h2
    have : e ≤ 1 := h4
    omega

example : ∃ s m, ValidSym s ∧ 1 ≤ s.size ∧ 1 ≤ s.dim ∧ PermOn s.size m :=
  ⟨ex1, #[0, 1], ex1_valid, by decide, by decide, ex1_perm⟩

/-- "the canonical form is isomorphic to the input" whenever the element map of the minimal
    traversal is a bijection of the chambers (the Spec evaluates this on every explored case;
    for connected symbols it is the completeness of the traversal, C02). -/
theorem canonical_iso {s : DSymData} (h : ValidSym s) (hsize : 1 ≤ s.size) (hdim : 1 ≤ s.dim)
    {best : Code} (hbest : minimalTraversalCode s = .ok best) (hm : PermOn s.size best.map) :
    ∃ c, canonical s = .ok c ∧ ValidSym c ∧ IsIso (fun d => best.map.getD d 0) s c := by
  obtain ⟨c, hc, hv, hi⟩ := rebuild_iso h hsize hdim hm
  refine ⟨c, ?_, hv, hi⟩
  unfold canonical
  rw [hbest]
  exact hc

example : ∃ s best, ValidSym s ∧ 1 ≤ s.size ∧ 1 ≤ s.dim ∧ minimalTraversalCode s = .ok best ∧
    PermOn s.size best.map :=
  ⟨ex1, ⟨[-1, 1, 0, 0, 0, 1, 1, 1, 1, 1, 2, 1, 1], #[0, 1]⟩, ex1_valid, by decide, by decide,
    by decide, ex1_perm⟩

/-! ## 2. equivariance of the traversal and of its code under renumbering -/

/-- one `next()` of the `Traversal` iterator commutes with an injective renumbering `φ` of the
    chambers: the renumbered state over the renumbered view yields the renumbered item and
    the renumbered successor state (or ends alike). -/
theorem travNext_equivariant {φ : Nat → Nat} {s s' : View} (R : Renum φ s s') (idx : List Nat)
    (fuel : Nat) (st : View.TravState) :
    View.travNext s' idx fuel (mapState φ st) =
      (View.travNext s idx fuel st).map (fun r => (mapItem φ r.1, mapState φ r.2)) :=
  travNext_equiv R idx fuel st

/-- the whole traversal of the renumbered view from the renumbered seeds is the renumbered
    traversal -/
theorem traversal_equivariant {φ : Nat → Nat} {s s' : View} (R : Renum φ s s') (idx seeds : List Nat) :
    s'.traversal idx (seeds.map φ) = (s.traversal idx seeds).map (mapItem φ) :=
  traversal_equiv R idx seeds

/-- ○→✔ **traversalCode_equivariant**: for an isomorphism `f : a → b` (in particular for every
    renumbering of `a`), `TraversalCode::new(b, f seed)` and `TraversalCode::new(a, seed)`
    produce the same code, and their element maps correspond: `map_b (f d) = map_a d`.
    (They also panic alike.) -/
theorem traversalCode_equivariant {f : Nat → Nat} {a b : DSymData} (ha : ValidSet a.dset)
    (iso : IsIso f a b) {seed : Nat} (h1 : 1 ≤ seed) (h2 : seed ≤ a.size) :
    OutRel (fun c c' => c'.code = c.code ∧ c'.map.size = c.map.size ∧
        ∀ d, 1 ≤ d → d ≤ a.size → c'.map.getD (f d) 0 = c.map.getD d 0)
      (traversalCode a seed) (traversalCode b (f seed)) :=
  traversalCode_equiv ha iso h1 h2

example : ∃ (f : Nat → Nat) (a b : DSymData) (seed : Nat), ValidSet a.dset ∧ IsIso f a b ∧
    1 ≤ seed ∧ seed ≤ a.size := by
  refine ⟨id, ex1, ex1, 1, ex1_valid.set, ⟨rfl, rfl, ?_, ?_, ?_, ?_⟩, by decide, by decide⟩
  · intro d h1 h2; exact ⟨h1, h2⟩
  · intro d e _ _ _ _ h; exact h
  · intro i d _ _ _; show ex1.op i d = (ex1.op i d).map id; rw [Option.map_id]; rfl
  · intro i d _ _ _; rfl

/-- corresponding chamber maps rebuild the same symbol: for an isomorphism `f : a → b` and
    chamber maps with `m' (f d) = m d` the tail of `canonical` returns literally the same symbol
    for `(b, m')` as for `(a, m)` — so `canonical b = canonical a` as soon as the two minimal
    traversals start at corresponding seeds. -/
theorem rebuild_corresponding_maps {f : Nat → Nat} {a b : DSymData} (ha : ValidSym a)
    (iso : IsIso f a b) {m m' : Array Nat} (hm : PermOn a.size m) (hm' : PermOn b.size m')
    (hmm : ∀ d, 1 ≤ d → d ≤ a.size → m'.getD (f d) 0 = m.getD d 0) :
    DS.rebuild b m' = DS.rebuild a m :=
  rebuild_iso_eq ha iso hm hm' hmm

/-! ## 3. `compare_codes` and `minimal_traversal_code` -/

/-- on codes of equal length `compare_codes` does not panic and its sign is the lexicographic
    order on integer lists -/
theorem compareCodes_lex (x y : List Int) (h : x.length = y.length) :
    ∃ c, compareCodes x y = .ok c ∧ (c < 0 ↔ x < y) ∧ (c = 0 ↔ x = y) :=
  compareCodes_eqlen x y h

example : compareCodes [0, 1, 2] [0, 2, 1] = .ok (-1) := by decide

/-- when all seeds have codes `C d` of one length, `minimal_traversal_code` returns the exhausted
    `TraversalCode` of one of the seeds, and no seed has a lexicographically smaller code -/
theorem minimalTraversalCode_least {s : DSymData} (hsize : 1 ≤ s.size) {C : Nat → Code} {L : Nat}
    (hC : ∀ d, 1 ≤ d → d ≤ s.size → traversalCode s d = .ok (C d) ∧ (C d).code.length = L) :
    ∃ r, minimalTraversalCode s = .ok r ∧ (∃ d, 1 ≤ d ∧ d ≤ s.size ∧ r = C d) ∧
      ∀ d, 1 ≤ d → d ≤ s.size → r.code ≤ (C d).code :=
  minimalTraversalCode_spec hsize hC

/-! ## 4. the invariance theorem, reduced to two statements about single symbols

`AllSeedsGood a`        : every seed's `TraversalCode` returns, its element map is a bijection of
                          the chambers, and all the codes have one length;
`CodeDeterminesSymbol a`: two seeds of `a` with equal codes rebuild equal symbols.
Both are statements about ONE symbol (no renumbering involved); for connected symbols the first
is the completeness of the traversal (C02 `traversal_complete`), the second says that the code
lists every operation entry and every branching number of the renumbered symbol. -/

/-- ○ **canonical_renumber**, reduced: a symbol `b` isomorphic to `a` (in particular every
    renumbering of `a`) has literally the same canonical form. -/
theorem canonical_renumber_reduced {f : Nat → Nat} {a b : DSymData} (ha : ValidSym a) (hsize : 1 ≤ a.size)
    (iso : IsIso f a b) (good : AllSeedsGood a) (det : CodeDeterminesSymbol a) :
    canonical b = canonical a :=
  canonical_eq_of_iso ha hsize iso good det

/-- fixed point, reduced: `canonical (canonical a) = canonical a` -/
theorem canonical_idempotent_reduced {a c : DSymData} (ha : ValidSym a) (hsize : 1 ≤ a.size)
    (hdim : 1 ≤ a.dim) (good : AllSeedsGood a) (det : CodeDeterminesSymbol a)
    (hc : canonical a = .ok c) : canonical c = .ok c :=
  canonical_idem_of ha hsize hdim good det hc

/-- complete invariant, reduced: equal canonical forms iff isomorphic -/
theorem canonical_complete_reduced {a b : DSymData} (ha : ValidSym a) (hb : ValidSym b)
    (hsa : 1 ≤ a.size) (hda : 1 ≤ a.dim) (hsb : 1 ≤ b.size) (hdb : 1 ≤ b.dim)
    (gooda : AllSeedsGood a) (deta : CodeDeterminesSymbol a) (goodb : AllSeedsGood b) :
    canonical a = canonical b ↔ ∃ f, IsIso f a b :=
  canonical_eq_iff_iso ha hb hsa hda hsb hdb gooda deta goodb

/-- the one-chamber example satisfies both hypotheses -/
theorem ex1_good : AllSeedsGood ex1 := by
  refine ⟨13, ?_⟩
  intro d h1 h2
  have hd : d = 1 := by have : d ≤ 1 := h2; omega
  subst hd
  exact ⟨⟨[-1, 1, 0, 0, 0, 1, 1, 1, 1, 1, 2, 1, 1], #[0, 1]⟩, by decide, by decide, ex1_perm⟩

theorem ex1_det : CodeDeterminesSymbol ex1 := by
  intro d d' c c' h1 h2 h1' h2' hc hc' _
  have hd : d = 1 := by have : d ≤ 1 := h2; omega
  have hd' : d' = 1 := by have : d' ≤ 1 := h2'; omega
  subst hd hd'
  rw [hc] at hc'; cases hc'; rfl

example : ∃ a, ValidSym a ∧ 1 ≤ a.size ∧ 1 ≤ a.dim ∧ AllSeedsGood a ∧ CodeDeterminesSymbol a :=
  ⟨ex1, ex1_valid, by decide, by decide, ex1_good, ex1_det⟩

/-! ## 5. open obligations (statements fixed here, not yet theorems)

Their conclusions are Spec clauses evaluated on every explored case (conf/C03.json). -/

/-- ○ on a connected valid symbol every seed's traversal numbers all chambers bijectively and
    all codes have one length (follows from C02 `traversal_complete` + exactly-once reporting) -/
def all_seeds_good_statement : Prop :=
  ∀ a : DSymData, ValidSym a → 1 ≤ a.size → 1 ≤ a.dim → Connected a → AllSeedsGood a

/-- ○ on a connected valid symbol the code determines the rebuilt symbol -/
def code_determines_symbol_statement : Prop :=
  ∀ a : DSymData, ValidSym a → 1 ≤ a.size → 1 ≤ a.dim → Connected a → CodeDeterminesSymbol a

/-- ○ canonical_renumber at full strength -/
def canonical_renumber_statement : Prop :=
  ∀ (f : Nat → Nat) (a b : DSymData), ValidSym a → 1 ≤ a.size → 1 ≤ a.dim → Connected a →
    IsIso f a b → canonical b = canonical a

/-- ○ idempotence at full strength -/
def canonical_idempotent_statement : Prop :=
  ∀ (a c : DSymData), ValidSym a → 1 ≤ a.size → 1 ≤ a.dim → Connected a →
    canonical a = .ok c → canonical c = .ok c

/-- ○ complete invariant at full strength -/
def canonical_complete_statement : Prop :=
  ∀ (a b : DSymData), ValidSym a → ValidSym b → 1 ≤ a.size → 1 ≤ a.dim → 1 ≤ b.size → 1 ≤ b.dim →
    Connected a → Connected b → (canonical a = canonical b ↔ ∃ f, IsIso f a b)

/-- the three property clauses follow from the two single-symbol statements -/
theorem property_from_open_statements (h1 : all_seeds_good_statement)
    (h2 : code_determines_symbol_statement) :
    canonical_renumber_statement ∧ canonical_idempotent_statement ∧ canonical_complete_statement := by
  refine ⟨?_, ?_, ?_⟩
  · intro f a b ha hs hd hc iso
    exact canonical_eq_of_iso ha hs iso (h1 a ha hs hd hc) (h2 a ha hs hd hc)
  · intro a c ha hs hd hc hcan
    exact canonical_idem_of ha hs hd (h1 a ha hs hd hc) (h2 a ha hs hd hc) hcan
  · intro a b ha hb hsa hda hsb hdb hca hcb
    exact canonical_eq_iff_iso ha hb hsa hda hsb hdb (h1 a ha hsa hda hca) (h2 a ha hsa hda hca)
      (h1 b hb hsb hdb hcb)

end DSymVerif.C03
