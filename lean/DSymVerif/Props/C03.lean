/-
Property C03 — canonical form is a complete isomorphism invariant.

  "The canonical form of a connected D-symbol is isomorphic to the input and is a fixed point
   of canonicalisation.  Two connected D-symbols have equal canonical forms if and only if
   they are isomorphic; in particular every renumbering of the chambers of a symbol yields the
   same canonical form."

Property theorems only.  They speak about the executable model `DSymVerif.DS.*` of
Model/Canonical.lean (`traversalCode`, `compareCodes`, `minimalTraversalCode`, `rebuild`,
`canonical`; tied to dsyms.rs / derived.rs by the differential check), for ALL symbols — no
bound on size or dimension.

Vocabulary (Proofs/DSetBasic.lean, Proofs/Canonical*.lean):
  `ValidSym s`          s is a D-symbol as the library builds it (complete involutive D-set,
                        commuting far operations, orbit tables = collect_orbits)
  `CanonP.PermOn n m`   the `Vec` m (length n+1) restricted to 1..n is an injection into 1..n
  `CanonP.IsIso f a b`  f is an isomorphism a → b: a bijection of the chambers that commutes
                        with every operation and preserves every adjacent branching number
  `CanonP.Renum φ s s'` the view s' is the view s renumbered by the injective map φ
  `CanonP.OutRel r x y` the outcomes x, y are of the same kind (ok / err / panic) and, when
                        both are ok, related by r
  `CanonP.Conn a`       every chamber of a is reachable from chamber 1 (= `is_connected()`)

Main results (section 5), for every connected valid symbol of any size and dimension ≥ 1:
  `canonical_isomorphic`  canonical a = ok c, c valid, a ≅ c
  `canonical_idempotent`  canonical c = ok c
  `canonical_renumber`    a ≅ b (in particular b a renumbering of a) ⇒ canonical b = canonical a
  `canonical_complete`    canonical a = canonical b ⇔ a ≅ b
They rest on C02's `traversal_sound` / `traversal_complete` (Props/C02.lean) for the `Traversal`
iterator and on `collectOrbits_rows` (Proofs/DSetCollect.lean) for `collect_orbits`.
-/
import DSymVerif.Proofs.CanonicalDecode

namespace DSymVerif.C03
open DSymVerif DSymVerif.DS DSymVerif.DS.CanonP

/-! ## 1. the canonical form is isomorphic to the input -/

/-- ✔ **rebuild_iso**: if the chamber map `m` is a bijection of 1..size then the construction
    at the end of `canonical` (`img2src`, `build_set`, `build_sym_using_vs`) does not panic and
    returns a valid symbol that is isomorphic to `s` by that very map: operations conjugated,
    branching numbers transported. -/
theorem rebuild_iso {s : DSymData} (h : ValidSym s) (hsize : 1 ≤ s.size) (hdim : 1 ≤ s.dim)
    {m : Array Nat} (hm : PermOn s.size m) :
    ∃ c, DS.rebuild s m = .ok c ∧ ValidSym c ∧ IsIso (fun d => m.getD d 0) s c :=
  rebuild_isIso h hsize hdim hm

/-- a valid one-chamber symbol of dimension 2, for the non-vacuity examples -/
def ex1 : DSymData := DSymData.ofSimple { size := 1, dim := 2, op := #[1, 1, 1] }

theorem ex1_valid : ValidSym ex1 := by
  apply ValidSym.ofSimple
  · refine ⟨by decide, ?_, ?_⟩
    · intro i d hi h1 h2
      have hd : d = 1 := by have : d ≤ 1 := h2; omega
      have : i = 0 ∨ i = 1 ∨ i = 2 := by have : i ≤ 2 := hi; omega
      subst hd; rcases this with rfl | rfl | rfl <;> decide
    · intro i d hi h1 h2
      have hd : d = 1 := by have : d ≤ 1 := h2; omega
      have : i = 0 ∨ i = 1 ∨ i = 2 := by have : i ≤ 2 := hi; omega
      subst hd; rcases this with rfl | rfl | rfl <;> decide
  · intro i j d hij hj h1 h2
    have hd : d = 1 := by have : d ≤ 1 := h2; omega
    have : i = 0 ∧ j = 2 := by have : j ≤ 2 := hj; omega
    obtain ⟨rfl, rfl⟩ := this
    subst hd; decide

theorem ex1_perm : PermOn ex1.size #[0, 1] := by
  refine ⟨by decide, ?_, ?_⟩
  · intro d h1 h2
    have hd : d = 1 := by have : d ≤ 1 := h2; omega
    subst hd; decide
  · intro d e h1 h2 h3 h4 _
    have : d ≤ 1 := h2
    have : e ≤ 1 := h4
    omega

example : ∃ s m, ValidSym s ∧ 1 ≤ s.size ∧ 1 ≤ s.dim ∧ PermOn s.size m :=
  ⟨ex1, #[0, 1], ex1_valid, by decide, by decide, ex1_perm⟩

/-- "the canonical form is isomorphic to the input" whenever the element map of the minimal
    traversal is a bijection of the chambers (the Spec evaluates this on every explored case;
    for connected symbols it is the completeness of the traversal, C02). -/
theorem canonical_iso {s : DSymData} (h : ValidSym s) (hsize : 1 ≤ s.size) (hdim : 1 ≤ s.dim)
    {best : Code} (hbest : minimalTraversalCode s = .ok best) (hm : PermOn s.size best.map) :
    ∃ c, canonical s = .ok c ∧ ValidSym c ∧ IsIso (fun d => best.map.getD d 0) s c := by
  obtain ⟨c, hc, hv, hi⟩ := rebuild_iso h hsize hdim hm
  refine ⟨c, ?_, hv, hi⟩
  unfold canonical
  rw [hbest]
  exact hc

example : ∃ s best, ValidSym s ∧ 1 ≤ s.size ∧ 1 ≤ s.dim ∧ minimalTraversalCode s = .ok best ∧
    PermOn s.size best.map :=
  ⟨ex1, ⟨[-1, 1, 0, 0, 0, 1, 1, 1, 1, 1, 2, 1, 1], #[0, 1]⟩, ex1_valid, by decide, by decide,
    by decide, ex1_perm⟩

/-! ## 2. equivariance of the traversal and of its code under renumbering -/

/-- one `next()` of the `Traversal` iterator commutes with an injective renumbering `φ` of the
    chambers: the renumbered state over the renumbered view yields the renumbered item and
    the renumbered successor state (or ends alike). -/
theorem travNext_equivariant {φ : Nat → Nat} {s s' : View} (R : Renum φ s s') (idx : List Nat)
    (fuel : Nat) (st : View.TravState) :
    View.travNext s' idx fuel (mapState φ st) =
      (View.travNext s idx fuel st).map (fun r => (mapItem φ r.1, mapState φ r.2)) :=
  travNext_equiv R idx fuel st

/-- the whole traversal of the renumbered view from the renumbered seeds is the renumbered
    traversal -/
theorem traversal_equivariant {φ : Nat → Nat} {s s' : View} (R : Renum φ s s') (idx seeds : List Nat) :
    s'.traversal idx (seeds.map φ) = (s.traversal idx seeds).map (mapItem φ) :=
  traversal_equiv R idx seeds

/-- ○→✔ **traversalCode_equivariant**: for an isomorphism `f : a → b` (in particular for every
    renumbering of `a`), `TraversalCode::new(b, f seed)` and `TraversalCode::new(a, seed)`
    produce the same code, and their element maps correspond: `map_b (f d) = map_a d`.
    (They also panic alike.) -/
theorem traversalCode_equivariant {f : Nat → Nat} {a b : DSymData} (ha : ValidSet a.dset)
    (iso : IsIso f a b) {seed : Nat} (h1 : 1 ≤ seed) (h2 : seed ≤ a.size) :
    OutRel (fun c c' => c'.code = c.code ∧ c'.map.size = c.map.size ∧
        ∀ d, 1 ≤ d → d ≤ a.size → c'.map.getD (f d) 0 = c.map.getD d 0)
      (traversalCode a seed) (traversalCode b (f seed)) :=
  traversalCode_equiv ha iso h1 h2

example : ∃ (f : Nat → Nat) (a b : DSymData) (seed : Nat), ValidSet a.dset ∧ IsIso f a b ∧
    1 ≤ seed ∧ seed ≤ a.size := by
  refine ⟨id, ex1, ex1, 1, ex1_valid.set, ⟨rfl, rfl, ?_, ?_, ?_, ?_⟩, by decide, by decide⟩
  · intro d h1 h2; exact ⟨h1, h2⟩
  · intro d e _ _ _ _ h; exact h
  · intro i d _ _ _; show ex1.op i d = (ex1.op i d).map id; rw [Option.map_id]; rfl
  · intro i d _ _ _; rfl

/-- corresponding chamber maps rebuild the same symbol: for an isomorphism `f : a → b` and
    chamber maps with `m' (f d) = m d` the tail of `canonical` returns literally the same symbol
    for `(b, m')` as for `(a, m)` — so `canonical b = canonical a` as soon as the two minimal
    traversals start at corresponding seeds. -/
theorem rebuild_corresponding_maps {f : Nat → Nat} {a b : DSymData} (ha : ValidSym a)
    (iso : IsIso f a b) {m m' : Array Nat} (hm : PermOn a.size m) (hm' : PermOn b.size m')
    (hmm : ∀ d, 1 ≤ d → d ≤ a.size → m'.getD (f d) 0 = m.getD d 0) :
    DS.rebuild b m' = DS.rebuild a m :=
  rebuild_iso_eq ha iso hm hm' hmm

/-! ## 3. `compare_codes` and `minimal_traversal_code` -/

/-- on codes of equal length `compare_codes` does not panic and its sign is the lexicographic
    order on integer lists -/
theorem compareCodes_lex (x y : List Int) (h : x.length = y.length) :
    ∃ c, compareCodes x y = .ok c ∧ (c < 0 ↔ x < y) ∧ (c = 0 ↔ x = y) :=
  compareCodes_eqlen x y h

example : compareCodes [0, 1, 2] [0, 2, 1] = .ok (-1) := by decide

/-- when all seeds have codes `C d` of one length, `minimal_traversal_code` returns the exhausted
    `TraversalCode` of one of the seeds, and no seed has a lexicographically smaller code -/
theorem minimalTraversalCode_least {s : DSymData} (hsize : 1 ≤ s.size) {C : Nat → Code} {L : Nat}
    (hC : ∀ d, 1 ≤ d → d ≤ s.size → traversalCode s d = .ok (C d) ∧ (C d).code.length = L) :
    ∃ r, minimalTraversalCode s = .ok r ∧ (∃ d, 1 ≤ d ∧ d ≤ s.size ∧ r = C d) ∧
      ∀ d, 1 ≤ d → d ≤ s.size → r.code ≤ (C d).code :=
  minimalTraversalCode_spec hsize hC

/-! ## 4. every seed of a connected symbol is good; the code determines the symbol

`Conn a`                : every chamber is reachable from chamber 1 (= `is_connected()`, see
                          `conn_iff_isConnected`);
`AllSeedsGood a`        : every seed's `TraversalCode` returns, its element map is a bijection of
                          the chambers, and all the codes have one length;
`CodeDeterminesSymbol a`: two seeds of `a` with equal codes rebuild equal symbols. -/

/-- connectedness in the sense of these theorems is what the library's `is_connected()` computes -/
theorem conn_iff_isConnected {a : DSymData} (ha : ValidSet a.dset) :
    Conn a ↔ a.view.isConnected = true :=
  CanonP.conn_iff_isConnected ha

theorem ex1_conn : Conn ex1 := by
  intro d h1 h2
  have hd : d = 1 := by have : d ≤ 1 := h2; omega
  subst hd
  exact View.Reach.refl 1

/-- on a connected valid symbol every seed's `TraversalCode` returns without panic, numbers all
    chambers bijectively, and all the codes have one length — so `compare_codes` never hits its
    `unwrap()` and is the lexicographic comparison (uses C02 `traversal_sound` /
    `traversal_complete`) -/
theorem seeds_good {a : DSymData} (ha : ValidSym a) (hsize : 1 ≤ a.size) (hc : Conn a) :
    AllSeedsGood a :=
  allSeedsGood ha hsize hc

example : ∃ a, ValidSym a ∧ 1 ≤ a.size ∧ Conn a := ⟨ex1, ex1_valid, by decide, ex1_conn⟩

/-- on a connected valid symbol the code lists every operation entry and every branching number
    of the renumbered symbol: two seeds with equal codes rebuild literally the same symbol -/
theorem code_determines_symbol {a : DSymData} (ha : ValidSym a) (hc : Conn a) :
    CodeDeterminesSymbol a :=
  codeDeterminesSymbol ha hc

/-! ## 5. the property -/

/-- **"The canonical form of a connected D-symbol is isomorphic to the input"**: `canonical`
    returns (no panic), its result is a valid symbol, and the element map of the minimal
    traversal is an isomorphism onto it. -/
theorem canonical_isomorphic {a : DSymData} (ha : ValidSym a) (hsize : 1 ≤ a.size) (hdim : 1 ≤ a.dim)
    (hc : Conn a) : ∃ c m, canonical a = .ok c ∧ ValidSym c ∧ IsIso m a c :=
  canonical_ok_iso ha hsize hdim (allSeedsGood ha hsize hc)

example : ∃ a, ValidSym a ∧ 1 ≤ a.size ∧ 1 ≤ a.dim ∧ Conn a :=
  ⟨ex1, ex1_valid, by decide, by decide, ex1_conn⟩

/-- ✔ **canonical_renumber — "every renumbering of the chambers of a symbol yields the same
    canonical form"**, and more generally every symbol `b` isomorphic to `a` has literally the
    same canonical form. -/
theorem canonical_renumber {f : Nat → Nat} {a b : DSymData} (ha : ValidSym a) (hsize : 1 ≤ a.size)
    (hc : Conn a) (iso : IsIso f a b) : canonical b = canonical a :=
  canonical_eq_of_iso ha hsize iso (allSeedsGood ha hsize hc) (codeDeterminesSymbol ha hc)

example : ∃ (f : Nat → Nat) (a b : DSymData), ValidSym a ∧ 1 ≤ a.size ∧ Conn a ∧ IsIso f a b := by
  refine ⟨id, ex1, ex1, ex1_valid, by decide, ex1_conn, ⟨rfl, rfl, ?_, ?_, ?_, ?_⟩⟩
  · intro d h1 h2; exact ⟨h1, h2⟩
  · intro d e _ _ _ _ h; exact h
  · intro i d _ _ _; show ex1.op i d = (ex1.op i d).map id; rw [Option.map_id]; rfl
  · intro i d _ _ _; rfl

/-- ✔ **"… and is a fixed point of canonicalisation"** -/
theorem canonical_idempotent {a c : DSymData} (ha : ValidSym a) (hsize : 1 ≤ a.size) (hdim : 1 ≤ a.dim)
    (hc : Conn a) (hcan : canonical a = .ok c) : canonical c = .ok c :=
  canonical_idem_of ha hsize hdim (allSeedsGood ha hsize hc) (codeDeterminesSymbol ha hc) hcan

example : ∃ c, canonical ex1 = .ok c := ⟨_, (canonical_isomorphic ex1_valid (by decide) (by decide) ex1_conn).choose_spec.choose_spec.1⟩

/-- ✔ **"Two connected D-symbols have equal canonical forms if and only if they are
    isomorphic"** — the canonical form is a complete isomorphism invariant. -/
theorem canonical_complete {a b : DSymData} (ha : ValidSym a) (hb : ValidSym b)
    (hsa : 1 ≤ a.size) (hda : 1 ≤ a.dim) (hsb : 1 ≤ b.size) (hdb : 1 ≤ b.dim)
    (hca : Conn a) (hcb : Conn b) :
    canonical a = canonical b ↔ ∃ f, IsIso f a b :=
  canonical_eq_iff_iso ha hb hsa hda hsb hdb (allSeedsGood ha hsa hca) (codeDeterminesSymbol ha hca)
    (allSeedsGood hb hsb hcb)

example : ∃ a b, ValidSym a ∧ ValidSym b ∧ 1 ≤ a.size ∧ 1 ≤ a.dim ∧ 1 ≤ b.size ∧ 1 ≤ b.dim ∧
    Conn a ∧ Conn b :=
  ⟨ex1, ex1, ex1_valid, ex1_valid, by decide, by decide, by decide, by decide, ex1_conn, ex1_conn⟩

/-- the canonical form of a connected symbol is again a connected valid symbol of the same
    size and dimension (so all of the above applies to it) -/
theorem canonical_connected {a c : DSymData} (ha : ValidSym a) (hsize : 1 ≤ a.size) (hdim : 1 ≤ a.dim)
    (hc : Conn a) (hcan : canonical a = .ok c) :
    ValidSym c ∧ c.size = a.size ∧ c.dim = a.dim ∧ Conn c := by
  obtain ⟨c', m, h1, h2, iso⟩ := canonical_isomorphic ha hsize hdim hc
  rw [hcan] at h1; cases h1
  have hP : c.view.PInvol := by rw [c.view_eq]; exact h2.set.pinvol
  exact ⟨h2, iso.size, iso.dim, Conn.iso ha.set iso hc hP⟩

/-! ## 6. the hypotheses hold for every symbol the library builds from valid tables -/

/-- **Every in-domain input satisfies the hypotheses of the theorems above.**  From tables
    `op`, `v` of a complete D-symbol (operations are involutions of 1..size, far operations
    commute, branching numbers constant along the two operations of their index pair)
    `build_set` + `build_sym_using_vs` (the way the harness, the parser and all constructors
    of derived.rs obtain a `PartialDSym`) return, without panic, a `ValidSym` with exactly
    these operations and branching numbers. -/
theorem input_valid {size dim : Nat} {op v : Nat → Nat → Nat} (hsize : 1 ≤ size) (hdim : 1 ≤ dim)
    (hrange : ∀ i d, i ≤ dim → 1 ≤ d → d ≤ size → 1 ≤ op i d ∧ op i d ≤ size)
    (hinvol : ∀ i d, i ≤ dim → 1 ≤ d → d ≤ size → op i (op i d) = d)
    (hfar : ∀ i j d, i + 1 < j → j ≤ dim → 1 ≤ d → d ≤ size → op j (op i d) = op i (op j d))
    (hv : ∀ i d, i < dim → 1 ≤ d → d ≤ size → v i (op i d) = v i d ∧ v i (op (i + 1) d) = v i d) :
    ∃ s, ofTables size dim op v = .ok s ∧ ValidSym s ∧ s.size = size ∧ s.dim = dim ∧
      (∀ i d, i ≤ dim → 1 ≤ d → d ≤ size → s.op i d = some (op i d)) ∧
      (∀ i d, i < dim → 1 ≤ d → d ≤ size → s.vAdj i d = some (v i d)) := by
  obtain ⟨ds, hds, dsize, ddim, dvalid, dop⟩ :=
    buildSet_of_total_involution (op := fun i d => let e := op i d; if e = 0 then none else some e)
      (f := op) hsize hdim
      (fun i d hi h1 h2 => by
        have := hrange i d hi h1 h2
        simp only
        rw [if_neg (by omega)])
      hrange hinvol
  have dfar : FarCommute ds := by
    intro i j d hij hj h1 h2
    rw [ddim] at hj; rw [dsize] at h2
    have hi : i ≤ dim := by omega
    have r1 := hrange i d hi h1 h2
    have r2 := hrange j d hj h1 h2
    rw [dop i d hi h1 h2, dop j d hj h1 h2, dop j _ hj r1.1 r1.2, dop i _ hi r2.1 r2.2]
    exact hfar i j d hij hj h1 h2
  have hV : ∀ i x y, i < ds.dim → 1 ≤ x → x ≤ ds.size → Orb2 ds i (i + 1) x y → v i x = v i y := by
    intro i x y hi h1 h2 ho
    rw [ddim] at hi
    induction ho with
    | refl => rfl
    | @stepI e ho' ih =>
      have he := Orb2.range dvalid (by rw [ddim]; omega) (by rw [ddim]; omega) ⟨h1, h2⟩ ho'
      rw [dsize] at he
      rw [dop i e (by omega) he.1 he.2, (hv i e hi he.1 he.2).1]; exact ih
    | @stepJ e ho' ih =>
      have he := Orb2.range dvalid (by rw [ddim]; omega) (by rw [ddim]; omega) ⟨h1, h2⟩ ho'
      rw [dsize] at he
      rw [dop (i + 1) e (by omega) he.1 he.2, (hv i e hi he.1 he.2).2]; exact ih
  obtain ⟨s, hs, svalid, sdset, sv⟩ :=
    buildSymUsingVs_spec (v := fun i d => some (v i d)) (V := v) dvalid dfar (fun _ _ _ _ _ => rfl) hV
  have ssize : s.size = size := by show s.dset.size = _; rw [sdset, dsize]
  have sdim : s.dim = dim := by show s.dset.dim = _; rw [sdset, ddim]
  refine ⟨s, ?_, svalid, ssize, sdim, ?_, ?_⟩
  · unfold ofTables; rw [hds]; exact hs
  · intro i d hi h1 h2
    show s.dset.opSimple i d = _
    rw [opSimple_inR (by rw [sdset, ddim]; exact hi) h1 (by rw [sdset, dsize]; exact h2), sdset,
      dop i d hi h1 h2]
  · intro i d hi h1 h2
    exact sv i d (by rw [ddim]; exact hi) h1 (by rw [dsize]; exact h2)

example : ∃ (size dim : Nat) (op v : Nat → Nat → Nat), 1 ≤ size ∧ 1 ≤ dim ∧
    (∀ i d, i ≤ dim → 1 ≤ d → d ≤ size → 1 ≤ op i d ∧ op i d ≤ size) ∧
    (∀ i d, i ≤ dim → 1 ≤ d → d ≤ size → op i (op i d) = d) ∧
    (∀ i j d, i + 1 < j → j ≤ dim → 1 ≤ d → d ≤ size → op j (op i d) = op i (op j d)) ∧
    (∀ i d, i < dim → 1 ≤ d → d ≤ size → v i (op i d) = v i d ∧ v i (op (i + 1) d) = v i d) :=
  ⟨5, 3, fun _ d => d, fun _ _ => 3, by decide, by decide, fun _ _ _ h1 h2 => ⟨h1, h2⟩,
    fun _ _ _ _ _ => rfl, fun _ _ _ _ _ _ _ => rfl, fun _ _ _ _ _ => ⟨rfl, rfl⟩⟩

/-! ## 7. a concrete instance, evaluated by the kernel -/

/-- `<1.1:3:1 2 3,3 2,2 3:…>` with all branching numbers unset … -/
def ex3 : DSymData := DSymData.ofSimple { size := 3, dim := 2, op := #[1, 3, 2, 2, 2, 1, 3, 1, 3] }
/-- … and its renumbering 1 → 2 → 3 → 1 -/
def ex3r : DSymData := DSymData.ofSimple { size := 3, dim := 2, op := #[1, 2, 1, 2, 1, 3, 3, 3, 2] }

example : canonical ex3r = canonical ex3 := by decide +kernel
example : (canonical ex3).bind canonical = canonical ex3 := by decide +kernel
example : (minimalTraversalCode ex3).toOption.map (·.map) = some #[0, 2, 1, 3] := by decide +kernel

end DSymVerif.C03
