/-
Property C18 — theorems about the models of prime_residue_classes.rs, traits.rs,
vec_matrix.rs / matrix.rs (Model/PrimeResidue.lean, Model/LinAlg.lean).

✔ proved here (all about the models, for all inputs):
  prime classes: prc_canonical, prc_frombig_canonical, prc_no_overflow, prc_ring_hom,
    prc_val_bijective, prc_inverse, prc_div_is_field_div, prime_PRIME;
  gcd core: gcdx_spec, clear_col_i64_unimodular;
  no panic: echelon_no_panic{,_rat,_prc,_prc_of_int}, no_panic_any_shape_{i64,rat,prc},
    no_panic_square_{i64,rat,prc};
  meaning in Mathlib's `Matrix` (ℤ/ℚ for machine integers, ℚ for BigRational, ZMod p):
    echelon_invariant_{i64,rat,prc} (multiplier·input = result, det multiplier = (-1)^swaps,
    row-echelon form), solve_sound_{i64,rat,prc}, solve_complete_{rat,prc} (completeness over the fields only),
    inverse_sound_i64, inverse_iff_{rat,prc} (Some ⇔ rank = n), rank_eq_{i64,rat,prc}
    (= Matrix.rank), determinant_eq_{i64,rat,prc} (= Matrix.det), null_space_spec
    (cols − rank columns, A·N = 0, linearly independent), sem_instances;
  modular solver: rational_reconstruction_invariant, rational_reconstruction_no_panic,
    rational_reconstruction_unique, lifting_invariant, modular_solver_exact (conditional on
    the step count: `(|N|+D)² < p^steps`);
  client: placement_barycentric (pgraphs.rs: the positions satisfy the barycentric
    equations, conditional on non-singularity mod p and the step bound), assemble_no_panic
    (the system is assembled without panic for every graph `PeriodicGraph::from` builds),
    placement_barycentric_of_from (the two combined: no hypothesis on `assemble` left).
  machine integers as they are (`i64Backend PRC.chk`: every `+ - * / abs neg` of the Rust
    code followed by the range check of the overflow-checked build): i64_checked_refines_exact
    (a checked run panics or returns exactly what the idealised run returns — for every
    routine), i64_checked_exact (so every exactness theorem above holds of every
    non-panicking i64 run), i64_no_overflow_of_bounded_run (a run whose intermediates stay
    within `|x| ≤ b ≤ i64::MAX` does not overflow), i64_no_overflow_one_row,
    i64_no_overflow_det_small (no overflow for 1×n rank / n×1 null space / closed determinant
    formulas with |x| ≤ 2^31−1 resp. 10^6), i64_overflow_counterexample (finding
    F-C18-overflow inside Lean: the checked model panics on a 6×4 matrix with |x| ≤ 10
    whose exact rank is 4).
Not proved: that the floating-point step count of the code meets the hypothesis of
  modular_solver_exact; anything about f64; a no-overflow bound for the i64 elimination on
  general shapes in terms of the input entries (none holds that is useful: the known
  finding overflows with |x| ≤ 10 on 6×4).
-/
import Mathlib.Tactic.NormNum.Prime
import DSymVerif.Proofs.PrimeResidue
import DSymVerif.Proofs.EchelonI64
import DSymVerif.Proofs.EchelonField
import DSymVerif.Proofs.Routines
import DSymVerif.Proofs.RatRec
import DSymVerif.Proofs.Instances
import DSymVerif.Proofs.Lifting
import DSymVerif.Proofs.PGraph
import DSymVerif.Proofs.CheckedI64
import DSymVerif.Proofs.CheckedI64Bounds
import DSymVerif.Proofs.PGraphTotal

namespace DSymVerif.C18

open DSymVerif DSymVerif.LA Matrix

/-! ### prime residue classes -/

/-- `From<i64>` (after the D8 repair) stores the canonical representative: for every
    integer `n` — in particular every `i64`, `0`, `±p`, `±k·p`, `i64::MIN/MAX` — the value
    is `n mod p`, lies in `[0, p)` and differs from `n` by a multiple of `p`. -/
theorem prc_canonical (p n : Int) (hp : 0 < p) :
    0 ≤ PRC.fromI64 p n ∧ PRC.fromI64 p n < p ∧ PRC.fromI64 p n = n % p ∧
      p ∣ n - PRC.fromI64 p n :=
  ⟨PRC.fromI64_nonneg hp n, PRC.fromI64_lt hp n, rfl, by
    rw [PRC.fromI64_eq]
    exact ⟨n / p, by have := Int.emod_add_mul_ediv n p; linarith⟩⟩

example : PRC.fromI64 61 (-61) = 0 := by decide
example : PRC.fromI64 3037000493 PRC.i64Min = 145474143 := by decide
/-- defect D8: the pinned `From<i64>` maps the negative multiple `-61` of `61` to `61` -/
example : PRC.fromI64Pinned 61 (-61) = 61 := by decide

/-- `From<BigInt>` stores the canonical representative as well -/
theorem prc_frombig_canonical (p n : Int) (hp : 0 < p) :
    0 ≤ PRC.fromBigInt p n ∧ PRC.fromBigInt p n < p ∧ PRC.fromBigInt p n = n % p := by
  refine ⟨PRC.fromI64_nonneg hp _, PRC.fromI64_lt hp _, ?_⟩
  unfold PRC.fromBigInt
  rw [PRC.fromI64_eq]
  have h := Int.tmod_def n p
  have : n.tmod p = n + p * (-(n.tdiv p)) := by rw [h]; ring
  rw [this, Int.add_mul_emod_self_left]

/-- no intermediate of `+ - · neg` on canonical values leaves the `i64` range for any
    modulus `valid()` accepts (`p ≤ 3037000499`), and the results are canonical -/
theorem prc_no_overflow (p : ℕ) (hp : 0 < p) (hpm : (p : ℤ) ≤ PRC.maxP) (a b : Int)
    (ha : Canon p a) (hb : Canon p b) :
    (∃ c, PRC.add p a b = .ok c ∧ Canon p c) ∧ (∃ c, PRC.sub p a b = .ok c ∧ Canon p c) ∧
    (∃ c, PRC.mul p a b = .ok c ∧ Canon p c) ∧ (∃ c, PRC.neg p a = .ok c ∧ Canon p c) :=
  ⟨prc_add_ok hp hpm ha hb, prc_sub_ok hp hpm ha hb, prc_mul_ok hp hpm ha hb,
    prc_neg_ok hp hpm ha⟩

example : PRC.mul 3037000493 3037000492 3037000492 = .ok 1 := by decide
example : Canon 61 60 := by unfold Canon; omega

/-- the value map `PrimeResidueClass<p> → ZMod p` commutes with `+ − · neg` -/
theorem prc_ring_hom (p : ℕ) (a b v : Int) :
    (PRC.add p a b = .ok v → (v : ZMod p) = (a : ZMod p) + (b : ZMod p)) ∧
    (PRC.sub p a b = .ok v → (v : ZMod p) = (a : ZMod p) - (b : ZMod p)) ∧
    (PRC.mul p a b = .ok v → (v : ZMod p) = (a : ZMod p) * (b : ZMod p)) ∧
    (PRC.neg p a = .ok v → (v : ZMod p) = -(a : ZMod p)) := by
  refine ⟨?_, ?_, ?_, ?_⟩ <;> intro h
  · rw [PRC.chk_bind_eq h, ZMod.intCast_mod]; push_cast; rfl
  · rw [PRC.chk_bind_eq h, ZMod.intCast_mod]; push_cast; rfl
  · rw [PRC.chk_bind_eq h, ZMod.intCast_mod]; push_cast; rfl
  · rw [PRC.chk_bind_eq h, ZMod.intCast_mod]; push_cast; rfl

/-- … and is a bijection from the canonical representatives onto `ZMod p` -/
theorem prc_val_bijective (p : ℕ) [NeZero p] :
    Function.Bijective (fun a : {a : Int // Canon p a} => ((a : Int) : ZMod p)) := by
  constructor
  · rintro ⟨a, ha0, ha1⟩ ⟨b, hb0, hb1⟩ h
    simp only at h
    rw [ZMod.intCast_eq_intCast_iff] at h
    have : a % p = b % p := h
    rw [Int.emod_eq_of_lt ha0 ha1, Int.emod_eq_of_lt hb0 hb1] at this
    exact Subtype.ext this
  · intro z
    refine ⟨⟨(z.val : Int), by exact_mod_cast Nat.zero_le _, by exact_mod_cast ZMod.val_lt z⟩, ?_⟩
    simp

set_option maxRecDepth 100000 in
/-- the modulus of the p-adic solver (`const PRIME` of modular_solver.rs) is a prime
    accepted by `valid()` -/
theorem prime_PRIME : Nat.Prime 3037000493 ∧ ((3037000493 : ℕ) : ℤ) ≤ PRC.maxP := by
  refine ⟨by norm_num, by decide⟩

/-- `inverse` (extended Euclid, all intermediates overflow-checked) returns the field
    inverse of every non-zero canonical value: no overflow, the final `assert_eq!(r, 1)`
    holds, `inverse a · a = 1`. -/
theorem prc_inverse (p : ℕ) (hp : p.Prime) (hpm : (p : ℤ) ≤ PRC.maxP) (a : Int)
    (ha : Canon p a) (ha0 : a ≠ 0) :
    ∃ v, PRC.inverse p a = .ok v ∧ Canon p v ∧ PRC.mul p v a = .ok 1 ∧
      (v : ZMod p) * (a : ZMod p) = 1 := by
  obtain ⟨v, hv, hv0, hv1, hmul⟩ :=
    PRC.inverse_spec hp hpm (a := a) (by have := ha.1; omega) ha.2
  refine ⟨v, hv, ⟨hv0, hv1⟩, ?_, ?_⟩
  · unfold PRC.mul
    obtain ⟨h1, h2⟩ := PRC.mul_in_range hpm hv0 hv1 ha.1 ha.2
    rw [PRC.chk_ok h1 h2]
    simp only [PRC.bind_ok, PRC.fromI64_eq, hmul]
  · have h1 : ((v * a : Int) : ZMod p) = 1 := by
      rw [← ZMod.intCast_mod, hmul]; simp
    push_cast at h1
    exact h1

example : PRC.inverse 61 7 = .ok 35 := by decide
example : Nat.Prime 61 := by norm_num

/-- hence `Div` (`self * rhs.inverse()`) is division in the field `ZMod p`:
    the quotient times the divisor is the dividend -/
theorem prc_div_is_field_div (p : ℕ) (hp : p.Prime) (hpm : (p : ℤ) ≤ PRC.maxP) (a b : Int)
    (ha : Canon p a) (hb : Canon p b) (hb0 : b ≠ 0) :
    ∃ w, PRC.div p a b = .ok w ∧ Canon p w ∧ (w : ZMod p) * (b : ZMod p) = (a : ZMod p) := by
  obtain ⟨v, hv, hvc, _, hinv⟩ := prc_inverse p hp hpm b hb hb0
  obtain ⟨w, hw, hwc⟩ := prc_mul_ok hp.pos hpm ha hvc
  refine ⟨w, ?_, hwc, ?_⟩
  · unfold PRC.div; rw [hv]; exact hw
  · rw [((prc_ring_hom p a v w).2.2.1 hw), mul_assoc, hinv, mul_one]

/-! ### `traits::gcdx`, the unimodular step of `Entry for i64 :: clear_col` -/

/-- `gcdx(a, b)` terminates (the fuel of the model never runs out) and returns
    `(g, r, s, t, u)` with `g = r·a + s·b`, `0 = t·a + u·b`, `r·u − s·t = ±1`, `|g| = gcd(a,b)` -/
theorem gcdx_spec (a b : Int) :
    ∃ g r s t u, gcdx .ok a b = .ok (g, r, s, t, u) ∧
      g = r * a + s * b ∧ t * a + u * b = 0 ∧
      (r * u - s * t = 1 ∨ r * u - s * t = -1) ∧ g.natAbs = Int.gcd a b :=
  gcdx_ok a b

/-- the 2×2 row operation of `clear_col` at `i64`,
    `row2 ← det·(r·row2 + s·row1)`, `row1 ← t·row2 + u·row1` with `det = r·u − s·t`,
    has determinant `+1`, maps the pivot entry to `±gcd` and the entry below it to `0`:
    `determinant` therefore needs only the parity of the row swaps. -/
theorem clear_col_i64_unimodular (a2 a1 : Int) :
    ∃ g r s t u, gcdx .ok a2 a1 = .ok (g, r, s, t, u) ∧
      (let det := r * u - s * t
       (det * r) * u - (det * s) * t = 1 ∧
       a2 * t + a1 * u = 0 ∧
       (det * (a2 * r + a1 * s)).natAbs = Int.gcd a2 a1) := by
  obtain ⟨g, r, s, t, u, h, hg, h0, hdet, hgcd⟩ := gcdx_ok a2 a1
  refine ⟨g, r, s, t, u, h, ?_, by linarith, ?_⟩
  · rcases hdet with d | d <;> rw [d] <;> linarith
  · have : a2 * r + a1 * s = g := by rw [hg]; ring
    rw [this, Int.natAbs_mul, hgcd]
    rcases hdet with d | d <;> rw [d] <;> simp

/-! ### the elimination loop never panics -/

/-- `RowEchelonVecMatrix::new` / `RowEchelonMatrix::new` (after the D9 repair) on machine
    integers: for EVERY shape `nr × nc` — wide ones included — no assertion fails and no
    index is out of range; the rank is at most the number of rows. -/
theorem echelon_no_panic {nr nc : Nat} (m : Mat Int nr nc) :
    ∃ re, echelon (i64Backend .ok) true m = .ok re ∧ re.rank ≤ nr := by
  obtain ⟨re, h, hr, _⟩ := echelon_ok i64_safe m (allE_true m)
  exact ⟨re, h, hr⟩

/-- defect D9: the pinned loop panics on the wide full-rank matrix `[[1, 0]]`
    (`pivot_row(col = 1, row = 1 = nr_rows)` indexes row 1) -/
example : ((echelon (i64Backend .ok) false (#v[#v[1, 0]] : Mat Int 1 2)).bind
    fun re => Outcome.ok re.rank) = .panic := by decide
example : ((echelon (i64Backend .ok) true (#v[#v[1, 0]] : Mat Int 1 2)).bind
    fun re => Outcome.ok re.rank) = .ok 1 := by decide

/-- the same for `BigRational`: in addition no division by zero -/
theorem echelon_no_panic_rat {nr nc : Nat} (m : Mat Q nr nc) :
    ∃ re, echelon ratBackend true m = .ok re ∧ re.rank ≤ nr := by
  obtain ⟨re, h, hr, _⟩ := echelon_ok rat_safe m (fun _ _ _ _ => trivial)
  exact ⟨re, h, hr⟩

/-- the same for `PrimeResidueClass<p>`, `p` a prime accepted by `valid()`, on matrices of
    canonical values: in addition no `i64` overflow and the `assert_eq!(r, 1)` of `inverse`
    never fires -/
theorem echelon_no_panic_prc (p : ℕ) (hp : p.Prime) (hpm : (p : ℤ) ≤ PRC.maxP) {nr nc : Nat}
    (m : Mat Int nr nc) (hm : AllE (Canon p) m) :
    ∃ re, echelon (prcBackend p) true m = .ok re ∧ re.rank ≤ nr := by
  obtain ⟨re, h, hr, _⟩ := echelon_ok (prc_safe hp hpm) m hm
  exact ⟨re, h, hr⟩

/-- in particular for the image `a.to::<PrimeResidueClass<p>>()` of EVERY integer matrix -/
theorem echelon_no_panic_prc_of_int (p : ℕ) (hp : p.Prime) (hpm : (p : ℤ) ≤ PRC.maxP)
    {nr nc : Nat} (m : Mat Int nr nc) :
    ∃ re, echelon (prcBackend p) true (Mat.map (PRC.fromI64 p) m) = .ok re ∧ re.rank ≤ nr :=
  echelon_no_panic_prc p hp hpm _ (allE_canon_map hp.pos m)

/-! ### no shape makes the routines panic (model level, all three exact back-ends) -/

/-- machine integers (idealised, DESIGN §5.6): for every shape `nr × nc` and every
    right-hand side `nr × k`, `rank`, `null_space`, `null_space_matrix` return and `solve`
    returns `Some` or `None` -/
theorem no_panic_any_shape_i64 {nr nc k : Nat} (a : Mat Int nr nc) (b : Mat Int nr k) :
    (∃ r, rank (i64Backend .ok) a = .ok r ∧ r ≤ nr) ∧
    (∃ r, nullSpace (i64Backend .ok) a = .ok r) ∧
    (∃ r, nullSpaceMatrix (i64Backend .ok) a = .ok r) ∧
    solve (i64Backend .ok) a b ≠ .panic :=
  routines_np i64_safe a b (allE_true a) (allE_true b)

/-- … and for every square matrix `determinant` returns and `inverse` returns `Some` or `None` -/
theorem no_panic_square_i64 {n : Nat} (a : Mat Int n n) :
    (∃ d, determinant (i64Backend .ok) a = .ok d) ∧ inverse (i64Backend .ok) a ≠ .panic :=
  square_np i64_safe a (allE_true a)

theorem no_panic_any_shape_rat {nr nc k : Nat} (a : Mat Q nr nc) (b : Mat Q nr k) :
    (∃ r, rank ratBackend a = .ok r ∧ r ≤ nr) ∧ (∃ r, nullSpace ratBackend a = .ok r) ∧
    (∃ r, nullSpaceMatrix ratBackend a = .ok r) ∧ solve ratBackend a b ≠ .panic :=
  routines_np rat_safe a b (fun _ _ _ _ => trivial) (fun _ _ _ _ => trivial)

theorem no_panic_square_rat {n : Nat} (a : Mat Q n n) :
    (∃ d, determinant ratBackend a = .ok d) ∧ inverse ratBackend a ≠ .panic :=
  square_np rat_safe a (fun _ _ _ _ => trivial)

/-- prime field, `p` a prime accepted by `valid()`, applied to the images
    `to::<PrimeResidueClass<p>>()` of arbitrary integer matrices: additionally no `i64`
    overflow and no failing `assert_eq!(r, 1)` in any division -/
theorem no_panic_any_shape_prc (p : ℕ) (hp : p.Prime) (hpm : (p : ℤ) ≤ PRC.maxP) {nr nc k : Nat}
    (a : Mat Int nr nc) (b : Mat Int nr k) :
    (∃ r, rank (prcBackend p) (Mat.map (PRC.fromI64 p) a) = .ok r ∧ r ≤ nr) ∧
    (∃ r, nullSpace (prcBackend p) (Mat.map (PRC.fromI64 p) a) = .ok r) ∧
    (∃ r, nullSpaceMatrix (prcBackend p) (Mat.map (PRC.fromI64 p) a) = .ok r) ∧
    solve (prcBackend p) (Mat.map (PRC.fromI64 p) a) (Mat.map (PRC.fromI64 p) b) ≠ .panic :=
  routines_np (prc_safe hp hpm) _ _ (allE_canon_map hp.pos a) (allE_canon_map hp.pos b)

theorem no_panic_square_prc (p : ℕ) (hp : p.Prime) (hpm : (p : ℤ) ≤ PRC.maxP) {n : Nat}
    (a : Mat Int n n) :
    (∃ d, determinant (prcBackend p) (Mat.map (PRC.fromI64 p) a) = .ok d) ∧
    inverse (prcBackend p) (Mat.map (PRC.fromI64 p) a) ≠ .panic :=
  square_np (prc_safe hp hpm) _ (allE_canon_map hp.pos a)

/-! ### Phase 2 — meaning in Mathlib's `Matrix`

`toMatrix val m : Matrix (Fin nr) (Fin nc) R` is the Mathlib matrix of a model matrix under a
value map: `valI : ℤ → ℚ` (the cast; `toMatrixZ` is the integer matrix itself),
`valQ : Q → ℚ` (`num/den`, on well-formed values `QWF`: positive denominator),
`valP p : ℤ → ZMod p` (on canonical values `Canon p`).  All proofs are instances of generic
ones over `Sem B E val` (Proofs/EchelonSem, SolveSem, RankDet, NullSem). -/

/-! #### (1) echelon_invariant -/

/-- machine integers: `multiplier · input = result` (over ℤ), the multiplier is unimodular
    with determinant `(-1)^nr_swaps`, `result` is in row-echelon form with pivot columns
    `columns[0..rank)` strictly increasing, zeros left of each pivot, rows `≥ rank` zero -/
theorem echelon_invariant_i64 {nr nc : Nat} (m : Mat Int nr nc) :
    ∃ re, echelon (i64Backend .ok) true m = .ok re ∧
      toMatrixZ re.multiplier * toMatrixZ m = toMatrixZ re.result ∧
      (toMatrixZ re.multiplier).det = (-1) ^ re.nrSwaps ∧
      IsEchelon valI re.result re.rank re.columns := by
  obtain ⟨re, h, _, _, hprod, hdet, hech⟩ := echelon_sem i64_sem m (allE_true m)
  refine ⟨re, h, toMatrixZ_mul_eq hprod, ?_, hech⟩
  rw [toMatrixZ_det] at hdet
  exact_mod_cast hdet

theorem echelon_invariant_rat {nr nc : Nat} (m : Mat Q nr nc) (hm : AllE QWF m) :
    ∃ re, echelon ratBackend true m = .ok re ∧
      toMatrix valQ re.multiplier * toMatrix valQ m = toMatrix valQ re.result ∧
      (toMatrix valQ re.multiplier).det = (-1) ^ re.nrSwaps ∧
      IsEchelon valQ re.result re.rank re.columns := by
  obtain ⟨re, h, _, _, hprod, hdet, hech⟩ := echelon_sem rat_sem m hm
  exact ⟨re, h, hprod, hdet, hech⟩

example : AllE QWF (Mat.map Q.ofInt (#v[#v[1, 0]] : Mat Int 1 2)) := allE_ofInt _

theorem echelon_invariant_prc (p : ℕ) [Fact p.Prime] (hpm : (p : ℤ) ≤ PRC.maxP) {nr nc : Nat}
    (m : Mat Int nr nc) (hm : AllE (Canon p) m) :
    ∃ re, echelon (prcBackend p) true m = .ok re ∧
      toMatrix (valP p) re.multiplier * toMatrix (valP p) m = toMatrix (valP p) re.result ∧
      (toMatrix (valP p) re.multiplier).det = (-1) ^ re.nrSwaps ∧
      IsEchelon (valP p) re.result re.rank re.columns := by
  obtain ⟨re, h, _, _, hprod, hdet, hech⟩ := echelon_sem (prc_sem hpm) m hm
  exact ⟨re, h, hprod, hdet, hech⟩

/-! #### (2) solve_sound, solve_complete, inverse -/

/-- machine integers: a returned `x` satisfies `A·x = b` exactly (over ℤ) -/
theorem solve_sound_i64 {nr nc k : Nat} (a : Mat Int nr nc) (b : Mat Int nr k) (x : Mat Int nc k)
    (h : solve (i64Backend .ok) a b = .ok x) : toMatrixZ a * toMatrixZ x = toMatrixZ b :=
  toMatrixZ_mul_eq (solve_sound i64_sem a b (allE_true a) (allE_true b) x h)

/- Completeness of `solve` is claimed over the two fields only (`solve_complete_rat`,
   `solve_complete_prc`).  For machine integers `solve` may return `None` on a system that is
   consistent over ℚ (back-substitution gives up at the first inexact division); no theorem
   about what such a `None` means is stated: a former `solve_none_i64` had a disjunct
   (`CanDivideRefused`, "some non-zero divisor is refused for some dividend") that is a closed
   true statement for ℤ and therefore said nothing. -/

theorem solve_sound_rat {nr nc k : Nat} (a : Mat Q nr nc) (b : Mat Q nr k) (ha : AllE QWF a)
    (hb : AllE QWF b) (x : Mat Q nc k) (h : solve ratBackend a b = .ok x) :
    toMatrix valQ a * toMatrix valQ x = toMatrix valQ b :=
  solve_sound rat_sem a b ha hb x h

/-- over ℚ `solve` returns a solution whenever the system is consistent -/
theorem solve_complete_rat {nr nc k : Nat} (a : Mat Q nr nc) (b : Mat Q nr k) (ha : AllE QWF a)
    (hb : AllE QWF b) (h : solve ratBackend a b = .err) :
    ∀ X : Matrix (Fin nc) (Fin k) ℚ, toMatrix valQ a * X ≠ toMatrix valQ b := by
  rcases solve_err rat_sem a b ha hb h with h1 | h1
  · exact h1
  · exact absurd h1 rat_not_refused

theorem solve_sound_prc (p : ℕ) [Fact p.Prime] (hpm : (p : ℤ) ≤ PRC.maxP) {nr nc k : Nat}
    (a : Mat Int nr nc) (b : Mat Int nr k) (ha : AllE (Canon p) a) (hb : AllE (Canon p) b)
    (x : Mat Int nc k) (h : solve (prcBackend p) a b = .ok x) :
    toMatrix (valP p) a * toMatrix (valP p) x = toMatrix (valP p) b :=
  solve_sound (prc_sem hpm) a b ha hb x h

/-- over `ZMod p` `solve` returns a solution whenever the system is consistent -/
theorem solve_complete_prc (p : ℕ) [Fact p.Prime] (hpm : (p : ℤ) ≤ PRC.maxP) {nr nc k : Nat}
    (a : Mat Int nr nc) (b : Mat Int nr k) (ha : AllE (Canon p) a) (hb : AllE (Canon p) b)
    (h : solve (prcBackend p) a b = .err) :
    ∀ X : Matrix (Fin nc) (Fin k) (ZMod p), toMatrix (valP p) a * X ≠ toMatrix (valP p) b := by
  rcases solve_err (prc_sem hpm) a b ha hb h with h1 | h1
  · exact h1
  · exact absurd h1 (prc_not_refused hpm)

/-- machine integers: a returned inverse is a right inverse over ℤ -/
theorem inverse_sound_i64 {n : Nat} (a : Mat Int n n) (x : Mat Int n n)
    (h : inverse (i64Backend .ok) a = .ok x) : toMatrixZ a * toMatrixZ x = 1 := by
  rcases inverse_sem i64_sem a (allE_true a) with ⟨x', h', _, hx'⟩ | ⟨h', _⟩
  · rw [h] at h'
    have : x = x' := Outcome.ok.inj h'
    subst this
    have h1 : toMatrix valI a * toMatrix valI x = (1 : Matrix (Fin n) (Fin n) ℤ).map (Int.castRingHom ℚ) := by
      rw [hx']; ext i j; simp [Matrix.one_apply]
    rw [toMatrix_valI, toMatrix_valI, ← Matrix.map_mul] at h1
    exact Matrix.map_injective (Int.cast_injective (α := ℚ)) h1
  · rw [h] at h'; cases h'

/-- generic: over a field without refusals `inverse` returns `Some` iff the rank is `n` -/
theorem inverse_iff_of_field {α : Type} {B : Backend α} {E : α → Prop} {R : Type} [Field R]
    {val : α → R} (hs : Sem B E val) (hnr : ¬ CanDivideRefused B E val) {n : Nat} (a : Mat α n n)
    (ha : AllE E a) :
    (∀ x, inverse B a = .ok x → toMatrix val a * toMatrix val x = 1) ∧
    ((∃ x, inverse B a = .ok x) ↔ rank B a = .ok n) := by
  obtain ⟨r, hr, hrk⟩ := rank_sem hs a ha
  constructor
  · intro x h
    rcases inverse_sem hs a ha with ⟨x', h', _, hx'⟩ | ⟨h', _⟩
    · rw [h] at h'
      have : x = x' := Outcome.ok.inj h'
      subst this; exact hx'
    · rw [h] at h'; cases h'
  · constructor
    · rintro ⟨x, h⟩
      rcases inverse_sem hs a ha with ⟨x', _, _, hx'⟩ | ⟨h', _⟩
      · have hu : IsUnit (toMatrix val a) :=
          (Matrix.isUnit_iff_isUnit_det _).2 (Matrix.isUnit_det_of_right_inverse hx')
        have := Matrix.rank_of_isUnit _ hu
        rw [Fintype.card_fin] at this
        rw [hr, hrk, this]
      · rw [h] at h'; cases h'
    · intro h
      rw [hr] at h
      have hrn : r = n := Outcome.ok.inj h
      rcases inverse_sem hs a ha with ⟨x', h', _, _⟩ | ⟨_, h'⟩
      · exact ⟨x', h'⟩
      · exfalso
        rcases h' with h' | h'
        · obtain ⟨X, hX⟩ := exists_right_inverse_of_rank (toMatrix val a) (by rw [← hrk, hrn])
          exact h' X hX
        · exact hnr h'

/-- `BigRational`: a returned inverse is a right inverse, and `inverse` returns `Some`
    exactly when the matrix has full rank -/
theorem inverse_iff_rat {n : Nat} (a : Mat Q n n) (ha : AllE QWF a) :
    (∀ x, inverse ratBackend a = .ok x → toMatrix valQ a * toMatrix valQ x = 1) ∧
    ((∃ x, inverse ratBackend a = .ok x) ↔ rank ratBackend a = .ok n) :=
  inverse_iff_of_field rat_sem rat_not_refused a ha

theorem inverse_iff_prc (p : ℕ) [Fact p.Prime] (hpm : (p : ℤ) ≤ PRC.maxP) {n : Nat}
    (a : Mat Int n n) (ha : AllE (Canon p) a) :
    (∀ x, inverse (prcBackend p) a = .ok x →
      toMatrix (valP p) a * toMatrix (valP p) x = 1) ∧
    ((∃ x, inverse (prcBackend p) a = .ok x) ↔ rank (prcBackend p) a = .ok n) :=
  inverse_iff_of_field (prc_sem hpm) (prc_not_refused hpm) a ha

/-! #### (3) rank_eq, determinant_eq, null space -/

/-- machine integers: the model's rank is the rank over ℚ -/
theorem rank_eq_i64 {nr nc : Nat} (a : Mat Int nr nc) :
    ∃ r, rank (i64Backend .ok) a = .ok r ∧ r = (toMatrix valI a).rank :=
  rank_sem i64_sem a (allE_true a)

theorem rank_eq_rat {nr nc : Nat} (a : Mat Q nr nc) (ha : AllE QWF a) :
    ∃ r, rank ratBackend a = .ok r ∧ r = (toMatrix valQ a).rank :=
  rank_sem rat_sem a ha

theorem rank_eq_prc (p : ℕ) [Fact p.Prime] (hpm : (p : ℤ) ≤ PRC.maxP) {nr nc : Nat}
    (a : Mat Int nr nc) (ha : AllE (Canon p) a) :
    ∃ r, rank (prcBackend p) a = .ok r ∧ r = (toMatrix (valP p) a).rank :=
  rank_sem (prc_sem hpm) a ha

/-- machine integers: the model's determinant is the integer determinant -/
theorem determinant_eq_i64 {n : Nat} (a : Mat Int n n) :
    ∃ d, determinant (i64Backend .ok) a = .ok d ∧ d = (toMatrixZ a).det := by
  obtain ⟨d, h, _, hd⟩ := determinant_sem i64_sem a (allE_true a)
  refine ⟨d, h, ?_⟩
  rw [toMatrixZ_det] at hd
  unfold valI at hd
  exact_mod_cast hd

theorem determinant_eq_rat {n : Nat} (a : Mat Q n n) (ha : AllE QWF a) :
    ∃ d, determinant ratBackend a = .ok d ∧ QWF d ∧ valQ d = (toMatrix valQ a).det :=
  determinant_sem rat_sem a ha

theorem determinant_eq_prc (p : ℕ) [Fact p.Prime] (hpm : (p : ℤ) ≤ PRC.maxP) {n : Nat}
    (a : Mat Int n n) (ha : AllE (Canon p) a) :
    ∃ d, determinant (prcBackend p) a = .ok d ∧ Canon p d ∧
      valP p d = (toMatrix (valP p) a).det :=
  determinant_sem (prc_sem hpm) a ha

/-- null space, all three back-ends at once (`hs` is `i64_sem`, `rat_sem` or `prc_sem`, see
    `sem_instances`): `null_space_matrix` returns the `nc × (nc − rank A)` matrix whose
    entry `(i, j)` is `s[i][rank + j]`; as a Mathlib matrix `N` it satisfies `A·N = 0` and its
    columns are linearly independent; `null_space` returns the same columns one by one -/
theorem null_space_spec {α : Type} {B : Backend α} {E : α → Prop} {R : Type} [Field R]
    {val : α → R} (hs : Sem B E val) {nr nc : Nat} (a : Mat α nr nc) (ha : AllE E a) :
    ∃ (r : Nat) (_ : r ≤ nc) (s : Mat α nc nc),
      nullSpaceMatrix B a = .ok ((List.range nc).map fun i =>
        ((List.range nc).drop r).map fun j => entryD s B.zero i j) ∧
      nullSpace B a = .ok (((List.range nc).drop r).map fun j =>
        (List.range nc).map fun i => [entryD s B.zero i j]) ∧
      r = (toMatrix val a).rank ∧
      (toMatrix val a * Matrix.of (fun (l : Fin nc) (j : Fin (nc - r)) =>
        val ((s[l.1])[r + j.1]'(by have := j.2; omega))) = 0) ∧
      LinearIndependent R (fun (j : Fin (nc - r)) (l : Fin nc) =>
        val ((s[l.1])[r + j.1]'(by have := j.2; omega))) := by
  -- both routines run the same elimination: same `r`, same `s`
  obtain ⟨mt, re, s0, e1, e2, e3, _⟩ := nullCore_sem hs a ha
  have hns : nullSpace B a = .ok (((List.range nc).drop re.rank).map fun j =>
      (List.range nc).map fun i => [entryD s0 B.zero i j]) := by
    unfold nullSpace
    rw [e1]; simp only [bind_ok]
    rw [e2]; simp only [bind_ok]
    rw [e3]; simp only [bind_ok]
    apply mapO_map
    intro j hj
    rw [submatrix_eq s0 B.zero _ _ (fun i hi => by simpa using hi)
      (fun j' hj' => by
        simp only [List.mem_singleton] at hj'
        subst hj'; exact mem_drop_range hj)]
    rfl
  have hnm : nullSpaceMatrix B a = .ok ((List.range nc).map fun i =>
      ((List.range nc).drop re.rank).map fun j => entryD s0 B.zero i j) := by
    unfold nullSpaceMatrix
    rw [e1]; simp only [bind_ok]
    rw [e2]; simp only [bind_ok]
    rw [e3]; simp only [bind_ok]
    exact submatrix_eq s0 B.zero _ _ (fun i hi => by simpa using hi) (fun j hj => mem_drop_range hj)
  obtain ⟨mt', re', s0', e1', e2', e3', hrank, hle, hzero, hli⟩ := nullCore_sem hs a ha
  have hmt : mt = mt' := Outcome.ok.inj (e1.symm.trans e1')
  subst hmt
  have hre : re = re' := Outcome.ok.inj (e2.symm.trans e2')
  subst hre
  have hs0 : s0 = s0' := Outcome.ok.inj (e3.symm.trans e3')
  subst hs0
  refine ⟨re.rank, hle, s0, hnm, hns, hrank, ?_, hli⟩
  ext i j
  rw [Matrix.mul_apply, Matrix.zero_apply]
  exact hzero (re.rank + j.1) (by have := j.2; omega) (by omega) i

/-- the three exact back-ends satisfy the hypotheses of the generic theorems -/
theorem sem_instances (p : ℕ) [Fact p.Prime] (hpm : (p : ℤ) ≤ PRC.maxP) :
    Sem (i64Backend .ok) TrueP valI ∧ Sem ratBackend QWF valQ ∧
      Sem (prcBackend p) (Canon p) (valP p) :=
  ⟨i64_sem, rat_sem, prc_sem hpm⟩

/-! ### machine integers as they are: the overflow-checked `i64` back-end

`i64Backend PRC.chk` performs every `+ - * / abs neg` of `Entry for i64`, `gcdx`, `Mul`,
`determinant`, `solve` in the order of the Rust text and range-checks each result (the harness
profile has `overflow-checks = true`, so leaving `[-2^63, 2^63)` is a panic).  It is the model
whose outcome — value or `PANIC` — the driver compares with `VecMatrix<i64>` / `Matrix<i64,…>`. -/

/-- `i64_checked_refines_exact`: for every routine, a run of the overflow-checked model either
    panics or is exactly the run of the idealised-integer model; in particular whenever the
    checked model returns `ok v` (or `None` for `solve`/`inverse`) so does the idealised one. -/
theorem i64_checked_refines_exact {nr nc k n : Nat} (a : Mat Int nr nc) (b : Mat Int nr k)
    (q : Mat Int n n) :
    (∀ re, echelon (i64Backend PRC.chk) true a = .ok re → echelon (i64Backend .ok) true a = .ok re) ∧
    (∀ r, rank (i64Backend PRC.chk) a = .ok r → rank (i64Backend .ok) a = .ok r) ∧
    (∀ v, nullSpace (i64Backend PRC.chk) a = .ok v → nullSpace (i64Backend .ok) a = .ok v) ∧
    (∀ v, nullSpaceMatrix (i64Backend PRC.chk) a = .ok v →
      nullSpaceMatrix (i64Backend .ok) a = .ok v) ∧
    (∀ x, solve (i64Backend PRC.chk) a b = .ok x → solve (i64Backend .ok) a b = .ok x) ∧
    (solve (i64Backend PRC.chk) a b = .err → solve (i64Backend .ok) a b = .err) ∧
    (∀ d, determinant (i64Backend PRC.chk) q = .ok d → determinant (i64Backend .ok) q = .ok d) ∧
    (∀ x, inverse (i64Backend PRC.chk) q = .ok x → inverse (i64Backend .ok) q = .ok x) ∧
    (inverse (i64Backend PRC.chk) q = .err → inverse (i64Backend .ok) q = .err) :=
  ⟨fun _ h => (echelon_ref i64_chk_ref true a).ok_eq h,
   fun _ h => (rank_ref i64_chk_ref a).ok_eq h,
   fun _ h => (nullSpace_ref i64_chk_ref a).ok_eq h,
   fun _ h => (nullSpaceMatrix_ref i64_chk_ref a).ok_eq h,
   fun _ h => (solve_ref i64_chk_ref a b).ok_eq h,
   fun h => (solve_ref i64_chk_ref a b).err_eq h,
   fun _ h => (determinant_ref i64_chk_ref q).ok_eq h,
   fun _ h => (inverse_ref i64_chk_ref q).ok_eq h,
   fun h => (inverse_ref i64_chk_ref q).err_eq h⟩

/-- the same as a dichotomy: the only way the checked run differs from the exact one is a panic -/
theorem i64_checked_panic_or_exact {nr nc k n : Nat} (a : Mat Int nr nc) (b : Mat Int nr k)
    (q : Mat Int n n) :
    (rank (i64Backend PRC.chk) a = .panic ∨ rank (i64Backend PRC.chk) a = rank (i64Backend .ok) a) ∧
    (nullSpace (i64Backend PRC.chk) a = .panic ∨
      nullSpace (i64Backend PRC.chk) a = nullSpace (i64Backend .ok) a) ∧
    (nullSpaceMatrix (i64Backend PRC.chk) a = .panic ∨
      nullSpaceMatrix (i64Backend PRC.chk) a = nullSpaceMatrix (i64Backend .ok) a) ∧
    (solve (i64Backend PRC.chk) a b = .panic ∨
      solve (i64Backend PRC.chk) a b = solve (i64Backend .ok) a b) ∧
    (determinant (i64Backend PRC.chk) q = .panic ∨
      determinant (i64Backend PRC.chk) q = determinant (i64Backend .ok) q) ∧
    (inverse (i64Backend PRC.chk) q = .panic ∨
      inverse (i64Backend PRC.chk) q = inverse (i64Backend .ok) q) :=
  ⟨rank_ref i64_chk_ref a, nullSpace_ref i64_chk_ref a, nullSpaceMatrix_ref i64_chk_ref a,
   solve_ref i64_chk_ref a b, determinant_ref i64_chk_ref q, inverse_ref i64_chk_ref q⟩

example : rank (i64Backend PRC.chk) (#v[#v[2, 4], #v[1, 3]] : Mat Int 2 2) = .ok 2 := by decide
example : solve (i64Backend PRC.chk) (#v[#v[2, 4], #v[1, 3]] : Mat Int 2 2)
    (#v[#v[2], #v[2]] : Mat Int 2 1) = .ok #v[#v[-1], #v[1]] := by decide

/-- `i64_checked_exact`: hence every exactness theorem about the idealised integers holds of
    every non-panicking run of the overflow-checked `i64` model: echelon invariant with
    unimodular multiplier, rank = `Matrix.rank` over ℚ, exact integer determinant, `solve` /
    `inverse` sound over ℤ, null space annihilated and of the right size. -/
theorem i64_checked_exact {nr nc k n : Nat} (a : Mat Int nr nc) (b : Mat Int nr k)
    (q : Mat Int n n) :
    (∀ re, echelon (i64Backend PRC.chk) true a = .ok re →
      toMatrixZ re.multiplier * toMatrixZ a = toMatrixZ re.result ∧
      (toMatrixZ re.multiplier).det = (-1) ^ re.nrSwaps ∧
      IsEchelon valI re.result re.rank re.columns) ∧
    (∀ r, rank (i64Backend PRC.chk) a = .ok r → r = (toMatrix valI a).rank) ∧
    (∀ d, determinant (i64Backend PRC.chk) q = .ok d → d = (toMatrixZ q).det) ∧
    (∀ x, solve (i64Backend PRC.chk) a b = .ok x → toMatrixZ a * toMatrixZ x = toMatrixZ b) ∧
    (∀ x, inverse (i64Backend PRC.chk) q = .ok x → toMatrixZ q * toMatrixZ x = 1) ∧
    (∀ v, nullSpaceMatrix (i64Backend PRC.chk) a = .ok v →
      ∃ (r : Nat) (_ : r ≤ nc) (s : Mat Int nc nc),
        v = ((List.range nc).map fun i => ((List.range nc).drop r).map fun j => entryD s 0 i j) ∧
        r = (toMatrix valI a).rank ∧
        (toMatrix valI a * Matrix.of (fun (l : Fin nc) (j : Fin (nc - r)) =>
          valI ((s[l.1])[r + j.1]'(by have := j.2; omega))) = 0) ∧
        LinearIndependent ℚ (fun (j : Fin (nc - r)) (l : Fin nc) =>
          valI ((s[l.1])[r + j.1]'(by have := j.2; omega)))) := by
  obtain ⟨he, hr, _, hn, hs, _, hd, hi, _⟩ := i64_checked_refines_exact a b q
  refine ⟨?_, ?_, ?_, ?_, ?_, ?_⟩
  · intro re h
    obtain ⟨re', h', h1, h2, h3⟩ := echelon_invariant_i64 a
    rw [he re h] at h'
    cases h'
    exact ⟨h1, h2, h3⟩
  · intro r h
    obtain ⟨r', h', h1⟩ := rank_eq_i64 a
    rw [hr r h] at h'
    cases h'
    exact h1
  · intro d h
    obtain ⟨d', h', h1⟩ := determinant_eq_i64 q
    rw [hd d h] at h'
    cases h'
    exact h1
  · intro x h
    exact solve_sound_i64 a b x (hs x h)
  · intro x h
    exact inverse_sound_i64 q x (hi x h)
  · intro v h
    obtain ⟨r, hr', s, h1, _, h2, h3, h4⟩ := null_space_spec i64_sem a (allE_true a)
    rw [hn v h] at h1
    exact ⟨r, hr', s, Outcome.ok.inj h1, h2, h3, h4⟩

/-- `i64_no_overflow_of_bounded_run` (sufficient condition in terms of the magnitudes the model
    itself tracks): run the model with the tighter range check `|x| ≤ b` for some
    `b ≤ i64::MAX` (`chkB b`); if that run returns, no intermediate of the elimination exceeded
    `b`, and the overflow-checked `i64` model returns the same value — no overflow. -/
theorem i64_no_overflow_of_bounded_run (bd : Int) (hb : bd ≤ PRC.i64Max) {nr nc k n : Nat}
    (a : Mat Int nr nc) (b : Mat Int nr k) (q : Mat Int n n) :
    (∀ r, rank (i64Backend (chkB bd)) a = .ok r → rank (i64Backend PRC.chk) a = .ok r) ∧
    (∀ v, nullSpace (i64Backend (chkB bd)) a = .ok v → nullSpace (i64Backend PRC.chk) a = .ok v) ∧
    (∀ v, nullSpaceMatrix (i64Backend (chkB bd)) a = .ok v →
      nullSpaceMatrix (i64Backend PRC.chk) a = .ok v) ∧
    (∀ x, solve (i64Backend (chkB bd)) a b = .ok x → solve (i64Backend PRC.chk) a b = .ok x) ∧
    (solve (i64Backend (chkB bd)) a b = .err → solve (i64Backend PRC.chk) a b = .err) ∧
    (∀ d, determinant (i64Backend (chkB bd)) q = .ok d →
      determinant (i64Backend PRC.chk) q = .ok d) ∧
    (∀ x, inverse (i64Backend (chkB bd)) q = .ok x → inverse (i64Backend PRC.chk) q = .ok x) ∧
    (inverse (i64Backend (chkB bd)) q = .err → inverse (i64Backend PRC.chk) q = .err) :=
  ⟨fun _ h => (rank_ref (i64_chkB_ref hb) a).ok_eq h,
   fun _ h => (nullSpace_ref (i64_chkB_ref hb) a).ok_eq h,
   fun _ h => (nullSpaceMatrix_ref (i64_chkB_ref hb) a).ok_eq h,
   fun _ h => (solve_ref (i64_chkB_ref hb) a b).ok_eq h,
   fun h => (solve_ref (i64_chkB_ref hb) a b).err_eq h,
   fun _ h => (determinant_ref (i64_chkB_ref hb) q).ok_eq h,
   fun _ h => (inverse_ref (i64_chkB_ref hb) q).ok_eq h,
   fun h => (inverse_ref (i64_chkB_ref hb) q).err_eq h⟩

/-- non-vacuity: all intermediates of this 3×3 elimination stay within `|x| ≤ 100` … -/
example : (100 : Int) ≤ PRC.i64Max := by decide
example : rank (i64Backend (chkB 100)) (#v[#v[2, 4, 1], #v[1, 3, 0], #v[5, 0, 7]] : Mat Int 3 3)
    = .ok 3 := by decide
/-- … but not within `|x| ≤ 20` (the bound is sharp information about the run, not a default) -/
example : rank (i64Backend (chkB 20)) (#v[#v[2, 4, 1], #v[1, 3, 0], #v[5, 0, 7]] : Mat Int 3 3)
    = .panic := by decide

/-- `i64_no_overflow_one_row`: on one-row matrices the elimination performs no `i64` arithmetic at
    all, so for EVERY entry (even `i64::MIN`) `rank` of a `1 × n` matrix and `null_space` /
    `null_space_matrix` of an `n × 1` matrix cannot overflow: the checked run is the exact run
    and returns. -/
theorem i64_no_overflow_one_row {n : Nat} (a : Mat Int 1 n) (c : Mat Int n 1) :
    (∃ r, rank (i64Backend PRC.chk) a = .ok r ∧ r = (toMatrix valI a).rank) ∧
    (nullSpace (i64Backend PRC.chk) c = nullSpace (i64Backend .ok) c ∧
      ∃ v, nullSpace (i64Backend PRC.chk) c = .ok v) ∧
    (nullSpaceMatrix (i64Backend PRC.chk) c = nullSpaceMatrix (i64Backend .ok) c ∧
      ∃ v, nullSpaceMatrix (i64Backend PRC.chk) c = .ok v) := by
  refine ⟨?_, ⟨nullSpace_one_col _ _ c, ?_⟩, ⟨nullSpaceMatrix_one_col _ _ c, ?_⟩⟩
  · rw [rank_one_row PRC.chk .ok a]; exact rank_eq_i64 a
  · rw [nullSpace_one_col PRC.chk .ok c]
    exact (no_panic_any_shape_i64 c c).2.1
  · rw [nullSpaceMatrix_one_col PRC.chk .ok c]
    exact (no_panic_any_shape_i64 c c).2.2.1

example : rank (i64Backend PRC.chk) (#v[#v[0, PRC.i64Min, 3]] : Mat Int 1 3) = .ok 1 := by decide

/-- `i64_no_overflow_det_small`: the closed determinant formulas do not overflow for entries that
    fit an `i32` (2×2: `|ad| + |bc| ≤ 2·(2^31−1)^2 < 2^63`) resp. `|x| ≤ 10^6` (3×3: every partial
    sum of the six triple products is `≤ 6·10^18 < 2^63`); the checked run returns the exact
    integer determinant.  (1×1: no arithmetic, any entry.) -/
theorem i64_no_overflow_det_small :
    (∀ m : Mat Int 1 1, ∃ d, determinant (i64Backend PRC.chk) m = .ok d ∧ d = (toMatrixZ m).det) ∧
    (∀ m : Mat Int 2 2, AllE (fun x => |x| ≤ 2147483647) m →
      ∃ d, determinant (i64Backend PRC.chk) m = .ok d ∧ d = (toMatrixZ m).det) ∧
    (∀ m : Mat Int 3 3, AllE (fun x => |x| ≤ 1000000) m →
      ∃ d, determinant (i64Backend PRC.chk) m = .ok d ∧ d = (toMatrixZ m).det) := by
  refine ⟨fun m => ?_, fun m h => ?_, fun m h => ?_⟩
  · rw [det1_chk PRC.chk .ok m]; exact determinant_eq_i64 m
  · rw [det2_chk m h]; exact determinant_eq_i64 m
  · rw [det3_chk m h]; exact determinant_eq_i64 m

example : AllE (fun x => |x| ≤ 2147483647) (#v[#v[2147483647, -2147483647],
    #v[2147483647, 2147483647]] : Mat Int 2 2) := by
  intro i j hi hj
  have hi' : i = 0 ∨ i = 1 := by omega
  have hj' : j = 0 ∨ j = 1 := by omega
  rcases hi' with rfl | rfl <;> rcases hj' with rfl | rfl <;> decide +revert
example : determinant (i64Backend PRC.chk) (#v[#v[2147483647, -2147483647],
    #v[2147483647, 2147483647]] : Mat Int 2 2) = .ok 9223372028264841218 := by decide
/-- the 2×2 bound is sharp up to the last unit: with one entry `2^31` the sum leaves the range -/
example : determinant (i64Backend PRC.chk) (#v[#v[2147483648, -2147483648],
    #v[2147483648, 2147483648]] : Mat Int 2 2) = .panic := by decide

/-- the matrix of known finding F-C18-overflow (entries `|x| ≤ 10`) -/
def overflowMatrix : Mat Int 6 4 :=
  #v[#v[-4, -7, 8, -5], #v[7, -7, 0, 7], #v[-10, 6, 2, 4], #v[-8, 3, 2, -5], #v[9, -1, -1, 2],
     #v[0, -10, -4, 1]]

/-- `i64_overflow_counterexample` (finding F-C18-overflow, decided inside Lean): on this 6×4
    matrix with entries `|x| ≤ 10` the overflow-checked `i64` model of `rank` panics (an
    intermediate of the gcd elimination leaves `[-2^63, 2^63)`), although the exact rank is 4
    (idealised model; it equals `Matrix.rank` by `rank_eq_i64`) and all intermediates of the
    exact run stay below `10^20`. -/
theorem i64_overflow_counterexample :
    rank (i64Backend PRC.chk) overflowMatrix = .panic ∧
    rank (i64Backend .ok) overflowMatrix = .ok 4 ∧
    rank (i64Backend (chkB 100000000000000000000)) overflowMatrix = .ok 4 := by
  refine ⟨by decide, by decide, by decide⟩

/-! ### modular solver -/

/-- (○, partial correctness) whatever fraction `q` `rational_reconstruction(s, h)` returns
    is the value `n/d` of a pair with `n ≡ s·d (mod h)` — the loop invariant
    `u1 ≡ sign·s·v1`, `u ≡ −sign·s·v (mod h)` carried to the exit.  Not proved: that the
    pair is the unique small one, i.e. the true solution (this needs the step bound, which
    is floating-point derived). -/
theorem rational_reconstruction_invariant (s h : Int) (q : Q)
    (hq : rationalReconstruction s h = .ok q) :
    ∃ n d : Int, d ≠ 0 ∧ h ∣ n - s * d ∧ q.num * d = n * (q.den : Int) :=
  rationalReconstruction_inv s h q hq

example : rationalReconstruction 607400099 3037000493 = .ok ⟨2, 5⟩ := by decide

/-- for `0 ≤ s ≤ h` (the solver calls it with `0 ≤ s < h = p^k`) `rational_reconstruction`
    returns: the loop ends within the model's fuel, no `BigInt` division by zero, no
    `BigRational::new(_, 0)` -/
theorem rational_reconstruction_no_panic (s h : Int) (hs : 0 ≤ s) (hsh : s ≤ h) :
    ∃ q, rationalReconstruction s h = .ok q :=
  rationalReconstruction_total s h hs hsh

/-- the reconstructed fraction is the unique small one: for `0 ≤ s ≤ h`, `1 ≤ h`, if `N/D`
    (`D ≥ 1`) satisfies `N ≡ s·D (mod h)` and `(|N| + D)² < h`, then the returned `q` is `N/D` -/
theorem rational_reconstruction_unique (s h : Int) (hs : 0 ≤ s) (hsh : s ≤ h) (hh : 1 ≤ h) (q : Q)
    (hq : rationalReconstruction s h = .ok q) (N D : Int) (hD : 1 ≤ D) (hc : h ∣ N - s * D)
    (hb : (|N| + D) * (|N| + D) < h) : q.num * D = N * (q.den : Int) := by
  obtain ⟨n, d, hdvd, hval, hn, hd1, hd⟩ := rationalReconstruction_full s h hs hsh hh q hq
  have hu := ratRec_unique hh hdvd hc hn hd1 hd hD hb
  have hdne : d ≠ 0 := by omega
  have : q.num * D * d = N * (q.den : Int) * d := by
    calc q.num * D * d = (q.num * d) * D := by ring
      _ = n * (q.den : Int) * D := by rw [hval]
      _ = (n * D) * (q.den : Int) := by ring
      _ = N * d * (q.den : Int) := by rw [hu]
      _ = N * (q.den : Int) * d := by ring
  exact mul_right_cancel₀ hdne this

/-- `lifting_invariant`: given a mod-`p` inverse `cinv` of `A` (canonical entries), the loop
    `for step in 0..nr_steps` of `modular_solver::solve` returns `s`, `p = P^nr_steps` with
    `0 ≤ s < P^nr_steps` entrywise and `A·s ≡ b (mod P^nr_steps)` (`b − A·s = P^nr_steps • E`) -/
theorem lifting_invariant (p : ℕ) [Fact p.Prime] (hpm : (p : ℤ) ≤ PRC.maxP) {n k : Nat}
    (a cinv : Mat Int n n) (b : Mat Int n k) (hcE : AllE (Canon p) cinv)
    (hinv : modP p (toMatrixZ a) * toMatrix (valP p) cinv = 1) (nrSteps : Nat) :
    ∃ st, forRange 0 nrSteps ({ b := b, s := Mat.fill 0, p := 1 } : LiftState n k)
        (liftStep p a cinv nrSteps) = .ok st ∧
      st.p = (p : ℤ) ^ nrSteps ∧
      (∀ (i j : Nat) (hi : i < n) (hj : j < k),
        0 ≤ (st.s[i])[j] ∧ (st.s[i])[j] < (p : ℤ) ^ nrSteps) ∧
      ∃ Em : Matrix (Fin n) (Fin k) ℤ,
        toMatrixZ b - toMatrixZ a * toMatrixZ st.s = (p : ℤ) ^ nrSteps • Em :=
  lifting_loop hpm a cinv b hcE hinv nrSteps

/-- end-to-end exactness of the p-adic solver, conditional on the step count (the
    floating-point derived bound stays an explicit hypothesis): if `A` is non-singular modulo the
    prime `p` (accepted by `valid()`), `X` is the rational solution of `A·X = B` with entries
    `X i j = N i j / D i j`, `D i j ≥ 1`, and `(|N i j| + D i j)² < p^steps`, then
    `modular_solver::solve` (model `modSolve p steps`) returns exactly `X`, every entry a
    well-formed fraction.  (The hypothesis is what this reconstruction's stopping rule
    `u1² ≤ h` needs in the crude lattice argument; the code's Hadamard bound gives
    `p^steps ≥ φ²·δ²` for `|N|, D ≤ δ`, which the sharper continued-fraction argument — not
    formalised — shows sufficient.) -/
theorem modular_solver_exact (p : ℕ) [Fact p.Prime] (hpm : (p : ℤ) ≤ PRC.maxP) (steps : Nat)
    {n k : Nat} (a : Mat Int n n) (b : Mat Int n k) (hns : ¬ (p : ℤ) ∣ (toMatrixZ a).det)
    (Xq : Matrix (Fin n) (Fin k) ℚ)
    (hX : (toMatrixZ a).map (Int.castRingHom ℚ) * Xq = (toMatrixZ b).map (Int.castRingHom ℚ))
    (N D : Fin n → Fin k → ℤ) (hD : ∀ i j, 1 ≤ D i j)
    (hND : ∀ i j, Xq i j * (D i j : ℚ) = (N i j : ℚ))
    (hbound : ∀ i j, (|N i j| + D i j) * (|N i j| + D i j) < (p : ℤ) ^ steps) :
    ∃ X, modSolve p steps a b = .ok X ∧
      ∀ (i j : Nat) (hi : i < n) (hj : j < k), QWF ((X[i])[j]) ∧
        valQ ((X[i])[j]) = Xq ⟨i, hi⟩ ⟨j, hj⟩ :=
  modSolve_exact hpm steps a b hns Xq hX N D hD hND hbound

/-! ### client: barycentric placement of periodic graphs (pgraphs.rs) -/

/-- `placement_barycentric`: let `a·x = t` be the system `barycentric_placement` assembles for
    the periodic graph `g` (model `PG.assemble`; `n` vertices in sorted order, dimension `d`).
    If `a` is non-singular modulo the solver's prime `p` (for a connected graph `a` is the
    Laplacian with the first vertex pinned; that connectedness implies this is not proved
    here) and the exact solution's entries `N/D` satisfy the step bound
    `(|N| + D)² < p^steps` (hypothesis of `modular_solver_exact`), then `placement` returns the
    positions `P` (vertex `verts[i]` ↦ row `i`) with `pos(first vertex) = 0` and, for every
    other vertex `v = verts[i]` and coordinate `k`, the barycentric equation
    `Σ_{ngb ∈ incidences(v)} (pos(ngb.tail) + ngb.shift − pos(v)) = 0`
    (the equation at the first vertex is the negated sum of the others). -/
theorem placement_barycentric (p : ℕ) [Fact p.Prime] (hpm : (p : ℤ) ≤ PRC.maxP) (steps : Nat)
    (g : PG.Graph) (a : Mat Int g.vertices.length g.vertices.length)
    (t : Mat Int g.vertices.length g.dim)
    (hasm : PG.assemble g g.vertices.length g.dim = .ok (a, t))
    (hns : ¬ (p : ℤ) ∣ (toMatrixZ a).det)
    (hbound : ∀ i j, (|(PG.exactSolution a t i j).num| + ((PG.exactSolution a t i j).den : ℤ)) *
      (|(PG.exactSolution a t i j).num| + ((PG.exactSolution a t i j).den : ℤ)) < (p : ℤ) ^ steps) :
    ∃ P : Mat Q g.vertices.length g.dim,
      PG.placement p steps g = .ok (g.vertices.zip P.toLists) ∧
      (∀ (i k : Nat) (hi : i < g.vertices.length) (hk : k < g.dim), QWF ((P[i])[k])) ∧
      ∃ _ : 0 < g.vertices.length,
        (∀ (k : Nat) (hk : k < g.dim), valQ ((P[0])[k]) = 0) ∧
        ∀ (i : Nat) (hi : i < g.vertices.length), 1 ≤ i → ∃ v, g.vertices[i]? = some v ∧
          ∀ (k : Nat) (hk : k < g.dim),
            ((g.incidences v).map fun ngb =>
              (if h : PG.idxD g.vertices ngb.tail < g.vertices.length then
                valQ ((P[PG.idxD g.vertices ngb.tail])[k]) else 0) +
              ((ngb.shift.getD k 0 : Int) : ℚ) - valQ ((P[i])[k])).sum = 0 :=
  PG.placement_barycentric_core hpm steps g a t hasm hns hbound

/-- `assemble_no_panic` (former open obligation (iii) of `placement_barycentric`): for every graph
    `g` built as `PeriodicGraph::from` builds it (model `PG.Graph.ofEdges raw = ok g`: canonical
    edges in a sorted duplicate-free set, at least one edge, all shifts of one dimension, the
    sorted vertex set of all end points), `barycentric_placement` assembles its system without a
    panic: the vertex list is non-empty (`a[0][0] = 1`), every `vidcs[&ngb.tail]` lookup
    succeeds with an in-range index, every `s[k][0]`, `k < dim`, exists, every matrix access is
    in range. -/
theorem assemble_no_panic (raw : List PG.Edge) (g : PG.Graph) (h : PG.Graph.ofEdges raw = .ok g) :
    g.WF ∧ ∃ a t, PG.assemble g g.vertices.length g.dim = .ok (a, t) := by
  obtain ⟨⟨a, t⟩, hat⟩ := PG.assemble_ok_of_ofEdges h
  exact ⟨PG.ofEdges_wf h, a, t, hat⟩

example : ∃ g, PG.Graph.ofEdges [⟨1, 2, [0, 0, 0]⟩, ⟨1, 2, [1, 0, 0]⟩, ⟨1, 2, [0, 1, 0]⟩,
    ⟨1, 2, [0, 0, 1]⟩] = .ok g :=
  ⟨_, rfl⟩
/-- `from` itself can panic (no edge; mixed dimensions) — those graphs are never built -/
example : PG.Graph.ofEdges [] = .panic := rfl
example : PG.Graph.ofEdges [⟨1, 2, [0, 0]⟩, ⟨1, 2, [1, 0, 0]⟩] = .panic := rfl

/-- `placement_barycentric` for graphs built by `PeriodicGraph::from`: the system `a·x = t` exists
    (no panic), and under the two remaining hypotheses — `a` non-singular modulo `p`, step bound
    on the exact solution — `placement` returns the barycentric placement. -/
theorem placement_barycentric_of_from (p : ℕ) [Fact p.Prime] (hpm : (p : ℤ) ≤ PRC.maxP)
    (steps : Nat) (raw : List PG.Edge) (g : PG.Graph) (hg : PG.Graph.ofEdges raw = .ok g) :
    ∃ (a : Mat Int g.vertices.length g.vertices.length) (t : Mat Int g.vertices.length g.dim),
      PG.assemble g g.vertices.length g.dim = .ok (a, t) ∧
      (¬ (p : ℤ) ∣ (toMatrixZ a).det →
       (∀ i j, (|(PG.exactSolution a t i j).num| + ((PG.exactSolution a t i j).den : ℤ)) *
          (|(PG.exactSolution a t i j).num| + ((PG.exactSolution a t i j).den : ℤ)) <
            (p : ℤ) ^ steps) →
       ∃ P : Mat Q g.vertices.length g.dim,
        PG.placement p steps g = .ok (g.vertices.zip P.toLists) ∧
        (∀ (i k : Nat) (hi : i < g.vertices.length) (hk : k < g.dim), QWF ((P[i])[k])) ∧
        ∃ _ : 0 < g.vertices.length,
          (∀ (k : Nat) (hk : k < g.dim), valQ ((P[0])[k]) = 0) ∧
          ∀ (i : Nat) (hi : i < g.vertices.length), 1 ≤ i → ∃ v, g.vertices[i]? = some v ∧
            ∀ (k : Nat) (hk : k < g.dim),
              ((g.incidences v).map fun ngb =>
                (if h : PG.idxD g.vertices ngb.tail < g.vertices.length then
                  valQ ((P[PG.idxD g.vertices ngb.tail])[k]) else 0) +
                ((ngb.shift.getD k 0 : Int) : ℚ) - valQ ((P[i])[k])).sum = 0) := by
  obtain ⟨_, a, t, hat⟩ := assemble_no_panic raw g hg
  exact ⟨a, t, hat, fun hns hbound => placement_barycentric p hpm steps g a t hat hns hbound⟩

/-- the second graph of the repository's own test (two vertices joined by four edges):
    vertex 2 sits at the barycentre (-1/4, -1/4, -1/4) of its four neighbours `1 − s` -/
example : ((PG.Graph.ofEdges [⟨1, 2, [0, 0, 0]⟩, ⟨1, 2, [1, 0, 0]⟩, ⟨1, 2, [0, 1, 0]⟩,
    ⟨1, 2, [0, 0, 1]⟩]).bind fun g => PG.placement 3037000493 1 g) =
    .ok [(1, [⟨0, 1⟩, ⟨0, 1⟩, ⟨0, 1⟩]), (2, [⟨-1, 4⟩, ⟨-1, 4⟩, ⟨-1, 4⟩])] := by decide +kernel

example : (modSolve 3037000493 1 (#v[#v[2]] : Mat Int 1 1) (#v[#v[1]] : Mat Int 1 1)).bind
    (fun x => Outcome.ok x.toLists) = .ok [[⟨1, 2⟩]] := by decide +kernel

end DSymVerif.C18
