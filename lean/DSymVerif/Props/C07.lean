/-
Property C07 — the D-symbol generator is sound, complete and irredundant per geometry.

Theorems about the model `DSymVerif/Model/DSymGen.lean` (namespace `SymGen`) of
/repo/src/generators/dsym_generators.rs, about the literal tables extracted from that file
(`Generated/Tables.lean`) and about the Spec's oracle (`Spec/C07.lean`).  Helper lemmas:
`Proofs/DSymGen.lean` (children, height, fuel), `Proofs/DSymGenInv.lean` (closed form of the
bookkeeping, invariant of reachable states), `Proofs/DSymGenCtx.lean` (contexts built by `new`),
`Proofs/DSymGenCurv.lean` (exactness in ℚ), `Proofs/DSymGenTree.lean` (the leaves of the search
tree), `Proofs/DSymGenBox.lean` (the oracle's box).

Phase 2/3 (sections 7 ff.): the orbit maps are the action of the automorphism group
(`orbit_maps_exact`), the private orbifold key agrees with `delaney2d::orbifold_symbol`
(`private_orbifold_symbol_agrees`), the bound 7 loses nothing, `generate` is total on the domain,
the All output is the disjoint union of the three.  Not theorems (see `open_obligations` in
conf/C07.json): only statements about the Spec's own runtime oracle.
-/
import DSymVerif.Proofs.DSymGenGeom
import DSymVerif.Proofs.DSymGenNodup
import DSymVerif.Proofs.DSymGenCanon
import DSymVerif.Proofs.DSymGenSum
import DSymVerif.Proofs.DSymGenIso
import DSymVerif.Proofs.DSymGenGood
import DSymVerif.Proofs.DSymGenCensus
import DSymVerif.Proofs.DSymGenOrient
import DSymVerif.Proofs.DSymGenAgree
import DSymVerif.Proofs.DSymGenBound
import DSymVerif.Proofs.DSymGenTotal
import DSymVerif.Proofs.DSymGenBox
import DSymVerif.Proofs.Delaney2dChi
import DSymVerif.Spec.C07

namespace DSymVerif.C07
open DSymVerif.DS DSymVerif.SymGen

/-- witness used in the examples: the D-set with one chamber -/
def ex1 : DSetData := { size := 1, dim := 2, op := #[1, 1, 1] }

/-! ### 1. the literal tables of the source file -/

/-- `CURV_FAC` is positive, even and a multiple of every branching number 1..7 that the
    `for v in vmin..=7` loop can produce: every `k * CURV_FAC / v` of the bookkeeping divides
    exactly.  (`decide` on the constants extracted from the source on every run.) -/
theorem curv_fac_divisible :
    0 < curvFac ∧ (2 : Int) ∣ curvFac ∧
    ∀ v : Nat, 1 ≤ v → v ≤ Tables.genVMax → ((v : Nat) : Int) ∣ curvFac :=
  ⟨curvFac_pos, two_dvd_curvFac, dvd_curvFac⟩

example : (1 : Nat) ≤ 7 ∧ 7 ≤ Tables.genVMax := by decide

/-- **the curvature windows of `Geometries` and of `new`**, over the constants extracted from the
    source on every run: the spherical / all upper end is `4 * CURV_FAC` — `CURV_FAC ×` the
    largest curvature 4 = 2χ(S²) a spherical 2D symbol can have, attained exactly by the symbols
    with trivial symmetry group (so any smaller value loses those) —, the spherical lower end is
    1 (the least positive value of an exact multiple), the euclidean window is [0, 0], the
    hyperbolic upper end is −1, hyperbolic / all have no lower end of their own (`i64::MIN`), the
    cut-off `new` substitutes for a non-negative base curvature is `-CURV_FAC` (sound because of
    `min_hyperbolic_window` below: a minimally hyperbolic vector never has bookkeeping value
    below `-CURV_FAC`; any larger cut-off loses symbols), and the base curvature is
    `-CURV_FAC / 2` per chamber. -/
theorem geometry_windows :
    Tables.geomMaxCurvature = [some (4 * Tables.curvFac), some 0, some (-1), some (4 * Tables.curvFac)] ∧
    Tables.geomMinCurvature = [some 1, some 0, none, none] ∧
    Tables.minHypCutoff = -Tables.curvFac ∧ Tables.chamberDivisor = 2 ∧
    Geom.spherical.maxCurvature = 4 * curvFac ∧ Geom.all.maxCurvature = 4 * curvFac ∧
    Geom.spherical.minCurvature = 1 ∧
    Geom.euclidean.minCurvature = 0 ∧ Geom.euclidean.maxCurvature = 0 ∧
    Geom.hyperbolic.maxCurvature = -1 ∧
    Geom.hyperbolic.minCurvature = i64Min ∧ Geom.all.minCurvature = i64Min := by decide

/-- **`vmin_degree_ge_3`**: for every orbit length r ≥ 1 the `compute_vmins` rule yields the
    least branching number v ≥ 1 with degree r·v ≥ 3; it coincides with the Spec's definition,
    and lies in 1..7. -/
theorem vmin_degree_ge_3 (r : Nat) (hr : 1 ≤ r) :
    vminOf r * r ≥ 3 ∧ (∀ v, 1 ≤ v → v * r ≥ 3 → vminOf r ≤ v) ∧
    vminOf r = SpecC07.vminOf r ∧ 1 ≤ vminOf r ∧ vminOf r ≤ Tables.genVMax := by
  have h : vminOf r = if r = 1 then 3 else if r = 2 then 2 else 1 := by
    unfold vminOf
    simp only [Tables.vminRules, Tables.vminDefault, List.find?]
    by_cases h1 : r = 1
    · subst h1; simp
    · by_cases h2 : r = 2
      · subst h2; simp
      · have e1 : (1 == r) = false := by simp; omega
        have e2 : (2 == r) = false := by simp; omega
        simp [e1, e2, h1, h2]
  refine ⟨?_, ?_, ?_, (vminOf_range r).1, (vminOf_range r).2⟩
  · rw [h]; split
    · omega
    · split <;> omega
  · intro v hv hm
    rw [h]; split
    · rename_i e; subst e; omega
    · split
      · rename_i e; subst e; omega
      · omega
  · rw [h]; unfold SpecC07.vminOf
    simp only [Nat.mul_one, ge_iff_le]
    by_cases h3 : 3 ≤ r
    · rw [if_pos h3, if_neg (by omega), if_neg (by omega)]
    · rw [if_neg h3]
      by_cases h2 : 3 ≤ r * 2
      · rw [if_pos h2]
        have : r = 2 := by omega
        subst this; simp
      · rw [if_neg h2]
        have : r = 1 := by omega
        subst this; simp

example : (1 : Nat) ≤ 2 := by decide

/-- **`good_list_spherical`**: every entry of the list inside `is_good` is a word of the
    orbifold-symbol language (`""`, `"*"`, `"x"` = sphere, disc, projective plane) naming an
    orbifold of positive Euler characteristic that is not a tear-drop, a spindle or one of
    their mirror quotients (C08's χ and `bad`, in ℚ). -/
theorem good_list_spherical (s : String) (h : s ∈ Tables.goodSphericalOrbifolds) :
    ∃ o, SpecC08.parseSymbol s = some o ∧ 0 < SpecC08.chiQ o ∧ SpecC08.bad o = false := by
  have hall : (Tables.goodSphericalOrbifolds.all fun s =>
      match SpecC08.parseSymbol s with
      | some o => (SpecC08.orbifoldChi o).isPos && !SpecC08.bad o &&
          o.cones.all (fun v => decide (1 ≤ v)) && o.bnds.all (fun c => c.all fun v => decide (1 ≤ v))
      | none => false) = true := by decide
  have hs := List.all_eq_true.mp hall s h
  split at hs
  · rename_i o ho
    simp only [Bool.and_eq_true, Bool.not_eq_true', List.all_eq_true, decide_eq_true_eq] at hs
    obtain ⟨⟨⟨hpos, hbad⟩, hc⟩, hb⟩ := hs
    have hwf : SpecC08.Orb.WF o := ⟨hc, hb⟩
    have hv := SpecC08.orbifoldChi_val o hwf
    refine ⟨o, ho, ?_, hbad⟩
    rw [← hv.1]
    exact (SpecC08.Fr.isPos_iff _ hv.2).mp hpos
  · cases hs

example : "3*2" ∈ Tables.goodSphericalOrbifolds := by decide

/-- the Spec reads the whole list: no entry is dropped by its parser -/
theorem good_list_parses : SpecC07.goodListParses = true := by decide

/-! ### 2. the iterator: emitted sequence = extract-filter of the depth-first preorder -/

/-- **`backtrack_preorder`** for the D-symbol generator, for every context whatsoever: the
    height `count + 1 − next` strictly decreases along `children`, the fuel `9^(count+1)`
    covers the whole tree, hence the model of `BackTrackIterator` yields `extract s` for exactly
    the nodes reachable from the root through `children`, each once, in depth-first preorder. -/
theorem backtrack_preorder (c : Ctx) :
    BT.Decreasing (problem c) (height c) ∧
    (BT.dfs (problem c) (height c) (root c)).length ≤ fuel c ∧
    dsyms c = (BT.dfs (problem c) (height c) (root c)).filterMap (extract c) ∧
    ∀ n, n ∈ BT.dfs (problem c) (height c) (root c) ↔ BT.Reach (problem c) (root c) n :=
  ⟨children_decreasing c, fuel_adequate c, dsyms_eq_dfs c,
   fun n => BT.mem_dfs_iff (problem c) (height c) (children_decreasing c) (root c) n⟩

/-- any larger fuel gives the same sequence: the Rust iterator (no bound at all) and the
    fuelled model agree -/
theorem more_fuel_same (c : Ctx) (f : Nat) (hf : fuel c ≤ f) : BT.run (problem c) f = dsyms c :=
  BT.run_fuel_irrelevant (problem c) (height c) (children_decreasing c) f (fuel c)
    (Nat.le_trans (fuel_adequate c) hf) (fuel_adequate c)

example : ∃ c, mkCtx ex1 .all = .ok c ∧ fuel c ≤ 1000 := by
  refine ⟨_, rfl, ?_⟩
  decide +kernel

/-! ### 3. every context built by `new`; every reachable state -/

/-- `DSymBackTracking::new` never produces inconsistent tables: `orbit_is_chain` and
    `orbit_vmins` are as long as `orbit_rs`, every minimal branching number is in 1..7, and
    `base_curvature` is the closed form of the bookkeeping at the all-minimal vector. -/
theorem new_well_formed (ds : DSetData) (g : Geom) (c : Ctx) (h : mkCtx ds g = .ok c) :
    c.dset = ds ∧ c.isChain.length = c.count ∧ c.rs.length = c.count ∧
    (∀ i, i < c.count → c.vmins.getD i 0 = vminOf (c.rs.getD i 0)) ∧
    (∀ i, i < c.count → 1 ≤ c.vmins.getD i 0 ∧ c.vmins.getD i 0 ≤ Tables.genVMax) ∧
    c.baseCurv = scaled c c.vmins ∧
    (c.maps.isSome ↔ ¬ c.baseCurv < 0) := by
  have hw := mkCtx_wf h
  obtain ⟨hds, hrs, _, hvm, _, _, _, _, hm1, hm2⟩ := mkCtx_fields h
  have hlen : c.rs.length = c.count := by
    unfold Ctx.count; rw [hvm, hrs]; simp [computeVmins]
  refine ⟨hds, hw.chainLen, hlen, ?_, fun i hi => ⟨hw.vminPos i hi, hw.vminLe i hi⟩, hw.base, ?_⟩
  · intro i hi
    rw [hvm, ← hrs]
    have hi' : i < c.rs.length := by omega
    simp [computeVmins, List.getD, List.getElem?_map, List.getElem?_eq_getElem hi']
  · constructor
    · intro hs hlt
      rw [hm1 hlt] at hs
      cases hs
    · intro hn
      obtain ⟨ms, hms, _⟩ := hm2 hn
      rw [hms]; rfl

example : (mkCtx ex1 .all).isOk = true := by decide +kernel

/-- **`generator_index_safe`** (reachable states): in every node of the search tree of a
    context built by `new` — for every D-set and geometry — `children` has not panicked (no
    `Vec` index out of range, no division by zero), the state's vector has one entry per
    orbit, every entry lies between the orbit's minimum and 7, entries from `next` on are
    still minimal, and the curvature field is the closed form of the bookkeeping. -/
theorem generator_index_safe (ds : DSetData) (g : Geom) (c : Ctx) (h : mkCtx ds g = .ok c)
    (x : Node) (hx : BT.Reach (problem c) (root c) x) :
    ∃ s, x = .st s ∧ s.vs.length = c.count ∧ s.next ≤ c.count ∧
      (∀ i, i < c.count → c.vmins.getD i 0 ≤ s.vs.getD i 0 ∧ s.vs.getD i 0 ≤ Tables.genVMax) ∧
      (∀ i, s.next ≤ i → i < c.count → s.vs.getD i 0 = c.vmins.getD i 0) ∧
      s.curv = scaled c s.vs := by
  obtain ⟨s, rfl, hi⟩ := reach_root_inv (mkCtx_wf h) x hx
  exact ⟨s, rfl, hi.len, hi.next, fun i hic => ⟨hi.lo i hic, hi.hi i hic⟩, hi.tail, hi.curv⟩

/-- **`scaled_curvature_exact`**: along every branch, in every reachable state of every
    context built by `new`, the `i64` curvature field equals `CURV_FAC ×` the exact rational
    curvature Σ_orbits k/v − size/2 (k = 1 on chains, 2 on cycles: the crate's `curvature`
    normalisation Σ_chambers (1/m01 + 1/m12 − 1/2)) of the state's vector — every truncating
    division `k * CURV_FAC / v` made by `new`, `children` and `is_minimally_hyperbolic` is
    exact; so the three sign tests on the integer are the sign tests on the curvature. -/
theorem scaled_curvature_exact (ds : DSetData) (g : Geom) (c : Ctx) (h : mkCtx ds g = .ok c)
    (s : State) (hx : BT.Reach (problem c) (root c) (.st s)) :
    ((s.curv : Int) : ℚ) = (curvFac : ℚ) * curvQ c s.vs ∧
    (∀ i, i < c.count → termZ c i (s.vs.getD i 0) * (s.vs.getD i 0 : Int) = kAt c i * curvFac) ∧
    (s.curv < 0 ↔ curvQ c s.vs < 0) ∧ (s.curv = 0 ↔ curvQ c s.vs = 0) ∧
    (0 < s.curv ↔ 0 < curvQ c s.vs) := by
  have hw := mkCtx_wf h
  obtain ⟨s', hs', hi⟩ := reach_root_inv hw _ hx
  cases hs'
  have hb : ∀ i, i < c.count → 1 ≤ s.vs.getD i 0 ∧ s.vs.getD i 0 ≤ Tables.genVMax := by
    intro i hic
    have := hw.vminPos i hic
    have := hi.lo i hic
    exact ⟨by omega, hi.hi i hic⟩
  have hs := scaled_sign c s.vs hb
  rw [hi.curv]
  exact ⟨scaled_exact c s.vs hb, fun i hic => (termZ_exact c i _ (hb i hic).1 (hb i hic).2).1,
    hs.1, hs.2.1, hs.2.2⟩

example : ∃ c, mkCtx ex1 .all = .ok c ∧ BT.Reach (problem c) (root c) (root c) :=
  ⟨_, rfl, BT.Reach.refl _⟩

/-! ### 4. `is_minimally_hyperbolic` -/

/-- **`min_hyperbolic_iff`**: on vectors with one entry per orbit `is_minimally_hyperbolic`
    never panics, and answers `true` exactly when the curvature is negative and lowering any
    single branching number that is above its minimum by one gives scaled curvature ≥ 0; when
    the `curv` argument is the bookkeeping value of `vs`, the number it compares with 0 is the
    bookkeeping value of the lowered vector (exact for entries ≤ 7, by §3). -/
theorem min_hyperbolic_iff (c : Ctx) (hw : WF c) (vs : List Nat) (hl : vs.length = c.count) (curv : Int) :
    (∃ b, isMinimallyHyperbolic c vs curv = .ok b ∧
      (b = true ↔ curv < 0 ∧ ∀ i, i < c.count → vs.getD i 0 > c.vmins.getD i 0 →
        0 ≤ loweredCurv c vs curv i)) ∧
    (curv = scaled c vs → ∀ i, i < c.count → vs.getD i 0 > c.vmins.getD i 0 →
      loweredCurv c vs curv i = scaled c (vs.set i (vs.getD i 0 - 1))) := by
  constructor
  · refine ⟨_, isMinimallyHyperbolic_eq hw hl curv, ?_⟩
    simp only [minHypPure, minHypAt, Bool.and_eq_true, decide_eq_true_eq, List.all_eq_true,
      List.mem_range]
  · intro hc i hi hgt
    rw [scaled_set c vs i _ hi hl, hc]
    unfold loweredCurv termZ
    have : ((vs.getD i 0 - 1 : Nat) : Int) = (vs.getD i 0 : Int) - 1 := by omega
    rw [this]

example : ∃ c, mkCtx ex1 .all = .ok c ∧ WF c ∧ c.vmins.length = c.count := by
  have h : (mkCtx ex1 .all).isOk = true := by decide +kernel
  match hm : mkCtx ex1 .all, h with
  | .ok c, _ => exact ⟨c, rfl, mkCtx_wf hm, rfl⟩

/-! ### 5. what `children` keeps, and what the generator emits -/

/-- **`children_exhaustive`**: in a reachable state of a context built by `new` (with
    `base_curvature ≥ 0`, `next < count`) the children are exactly the states pushed by the loop
    body for the values `v ∈ vs[next]..=7` that are reached without `break` (every earlier value
    gave curvature ≥ 0 or below the window): for curvature ≥ 0 inside the window the state with
    `next + 1`, for the first negative curvature inside the window the terminal state if it is
    minimally hyperbolic.  Nothing else is produced and `children` does not panic. -/
theorem children_exhaustive (ds : DSetData) (g : Geom) (c : Ctx) (h : mkCtx ds g = .ok c)
    (s : State) (hr : BT.Reach (problem c) (root c) (.st s)) (hn : s.next < c.count)
    (hnb : ¬ c.baseCurv < 0) (x : Node) :
    x ∈ children c (.st s) ↔
      ∃ s' v, x = .st s' ∧ s.vs.getD s.next 0 ≤ v ∧ v ≤ Tables.genVMax ∧
        (∀ w, s.vs.getD s.next 0 ≤ w → w < v → Passes c s s.next (s.vs.getD s.next 0) w) ∧
        Pushed c s s.next (s.vs.getD s.next 0) v s' := by
  have hw := mkCtx_wf h
  obtain ⟨s', hs', hi⟩ := reach_root_inv hw _ hr
  cases hs'
  exact children_iff hw hi hn hnb x

/-- stopping at the first negative value loses nothing, because the bookkeeping value is antitone
    in every branching number: raising entries (within 1..7) never raises the curvature -/
theorem curvature_antitone (c : Ctx) (vs ws : List Nat)
    (h : ∀ i, i < c.count → 1 ≤ ws.getD i 0 ∧ ws.getD i 0 ≤ vs.getD i 0 ∧ vs.getD i 0 ≤ Tables.genVMax) :
    scaled c vs ≤ scaled c ws :=
  scaled_mono c vs ws h

example : ∃ c, mkCtx ex1 .all = .ok c ∧
    (∀ i, i < c.count → 1 ≤ c.vmins.getD i 0 ∧ c.vmins.getD i 0 ≤ c.vmins.getD i 0 ∧
      c.vmins.getD i 0 ≤ Tables.genVMax) := by
  have h : (mkCtx ex1 .all).isOk = true := by decide +kernel
  match hm : mkCtx ex1 .all, h with
  | .ok c, _ =>
    have hw := mkCtx_wf hm
    exact ⟨c, rfl, fun i hi => ⟨hw.vminPos i hi, Nat.le_refl _, hw.vminLe i hi⟩⟩

/-- the cut-off `Tables.minHypCutoff` (`-CURV_FAC` in the source) that `new` puts under hyperbolic
    searches "is implied by minimal hyperbolicity": every admissible minimally hyperbolic vector
    of a context with `base_curvature ≥ 0` has bookkeeping value ≥ the cut-off (lowering one
    branching number v ≥ 2 by one raises the value by k·CURV_FAC/(v(v−1)) ≤ CURV_FAC), so the
    cut-off prunes nothing the property asks for. -/
theorem min_hyperbolic_window (c : Ctx) (hw : WF c) (vs : List Nat) (ha : Adm c vs) (hm : MinHyp c vs)
    (hnb : ¬ c.baseCurv < 0) : Tables.minHypCutoff ≤ scaled c vs ∧ -curvFac ≤ scaled c vs := by
  have h := minHyp_ge hw ha hm hnb
  have e : Tables.minHypCutoff = -curvFac := geometry_windows.2.2.1
  exact ⟨by rw [e]; exact h, h⟩

/-- **`dsyms_output`**: for every D-set and geometry whose context has `base_curvature ≥ 0`, a
    vector is emitted by the model of `DSyms` iff it has one entry per orbit between the orbit's
    minimum and 7, its *exact rational* curvature meets the geometry's condition (spherical:
    positive; euclidean: zero; hyperbolic: negative and non-negative after lowering any single
    entry above its minimum by one; all: any of these — with the source's upper end
    `4 * CURV_FAC` on the positive side), it passes `is_good` and it is canonical with respect to
    the orbit maps (`is_canonical`). -/
theorem dsyms_output (ds : DSetData) (g : Geom) (c : Ctx) (h : mkCtx ds g = .ok c)
    (hnb : ¬ c.baseCurv < 0) (vs : List Nat) :
    Outcome.ok vs ∈ dsyms c ↔
      Adm c vs ∧ GeomCond g c vs ∧
      isGood c vs (scaled c vs) = .ok true ∧ isCanonical c vs = .ok true := by
  have hw := mkCtx_wf h
  obtain ⟨_, _, _, _, _, _, hmin, hmax, _, _⟩ := mkCtx_fields h
  rw [if_neg hnb] at hmin
  rw [dsyms_mem_iff hw hnb]
  constructor
  · rintro ⟨ha, h1, h2, h3, h4, h5⟩
    exact ⟨ha, (window_iff hw hnb g hmin hmax ha).mp ⟨h1, h2, h3⟩, h4, h5⟩
  · rintro ⟨ha, hg, h4, h5⟩
    obtain ⟨h1, h2, h3⟩ := (window_iff hw hnb g hmin hmax ha).mpr hg
    exact ⟨ha, h1, h2, h3, h4, h5⟩

/-- `base_curvature < 0` (already the all-minimal vector is hyperbolic): the generator emits
    that vector if it lies in the window, and nothing else -/
theorem dsyms_output_base_negative (c : Ctx) (hb : c.baseCurv < 0) :
    dsyms c = if c.baseCurv ≥ c.minCurv ∧ c.baseCurv ≤ c.maxCurv then [.ok c.vmins] else [] :=
  dsyms_base_neg hb

example : ∃ c, mkCtx ex1 .all = .ok c ∧ ¬ c.baseCurv < 0 := by
  refine ⟨_, rfl, ?_⟩
  decide +kernel

/-- **no vector is emitted twice**: for every D-set and geometry (`base_curvature ≥ 0`; in the
    other case at most one vector is emitted at all) the `ok` items of the emitted sequence are
    pairwise different — the subtrees below two children of a state differ in the entry the
    state branches on. -/
theorem no_vector_twice (ds : DSetData) (g : Geom) (c : Ctx) (h : mkCtx ds g = .ok c)
    (hnb : ¬ c.baseCurv < 0) : ((dsyms c).filterMap okOf).Nodup :=
  dsyms_nodup (mkCtx_wf h) hnb

/-- the meaning of `is_canonical`: it answers `true` iff the orbit maps were computed and no
    orbit map turns `vs` into a lexicographically larger vector (`Vec`'s `Ord`) — i.e. `vs` is the
    lexicographic maximum of its images under the orbit maps. -/
theorem canonical_iff (c : Ctx) (vs : List Nat) :
    isCanonical c vs = .ok true ↔
      ∃ ms, c.maps = some ms ∧ ∀ m, m ∈ ms → ∃ ws, permuted m vs = .ok ws ∧ lexLt vs ws = false := by
  unfold isCanonical
  cases hm : c.maps with
  | none =>
    simp only
    constructor
    · intro h; cases h
    · rintro ⟨ms, h, _⟩; cases h
  | some ms =>
    simp only
    rw [canonLoop_iff]
    constructor
    · intro h; exact ⟨ms, rfl, h⟩
    · rintro ⟨ms', h, h'⟩; cases h; exact h'

/-- **exactly one canonical vector per class**: if the orbit maps form a group of permutations
    of the orbit numbers (identity, composition, inverses — which the action of the automorphism
    group of the D-set on its 2-orbits is; that the computed maps are that action is
    `orbit_maps_exact` below), then `is_canonical` does not panic on vectors with
    one entry per orbit and every class {vs ∘ m | m a map} contains exactly one vector it
    accepts — the lexicographically largest. -/
theorem canonical_one_per_class (c : Ctx) (ms : List (List Nat)) (hm : c.maps = some ms)
    (hg : GroupMaps c.count ms) (vs : List Nat) (hl : vs.length = c.count) :
    ∃ w, (∃ m, m ∈ ms ∧ w = act m vs) ∧ isCanonical c w = .ok true ∧
      ∀ w', (∃ m, m ∈ ms ∧ w' = act m vs) → isCanonical c w' = .ok true → w' = w := by
  unfold isCanonical
  rw [hm]
  exact SymGen.canonical_one_per_class hg vs hl

example : GroupMaps 2 [[0, 1]] := by
  have hact : ∀ vs : List Nat, vs.length = 2 → act [0, 1] vs = vs := by
    intro vs hl
    match vs, hl with
    | [a, b], _ => rfl
  refine ⟨?_, ⟨[0, 1], by simp, hact⟩, ?_, ?_⟩
  · intro m hm
    rw [List.mem_singleton.mp hm]
    refine ⟨rfl, fun i hi => ?_⟩
    match i, hi with
    | 0, _ => decide
    | 1, _ => decide
  · intro m1 h1 m2 h2
    rw [List.mem_singleton.mp h1, List.mem_singleton.mp h2]
    exact ⟨[0, 1], by simp, fun vs hl => by rw [hact vs hl, hact vs hl]⟩
  · intro m h
    rw [List.mem_singleton.mp h]
    exact ⟨[0, 1], by simp, fun vs hl => by rw [hact vs hl, hact vs hl]⟩

/-- **`symbol_count` numbers are 1, 2, 3, … in emission order**; the numbered sequence is the
    emitted sequence, and `SimpleDSym::from_partial`'s completeness assertion holds for every
    numbered symbol (all branching numbers positive). -/
theorem counters_consecutive (ds : DSetData) (g : Geom) (l : List (Nat × List Nat)) (c : Ctx)
    (h : generate ds g = .ok (l, c)) :
    mkCtx ds g = .ok c ∧ dsyms c = l.map (fun p => .ok p.2) ∧
    l.map (·.1) = (List.range l.length).map (· + 1) ∧
    ∀ p, p ∈ l → ∀ v, v ∈ p.2 → 0 < v := by
  unfold generate at h
  split at h
  · rename_i c' hc
    split at h
    · rename_i l' hl
      cases h
      obtain ⟨h1, h2, h3⟩ := numbered_spec _ _ _ hl
      exact ⟨hc, h1, h2, h3⟩
    · cases h
    · cases h
  · cases h
  · cases h

example : (generate ex1 .all).isOk = true := by decide +kernel

/-! ### 6. the oracle's box -/

/-- **`box_suffices`**: for orbit data with positive sizes and periods (`orbitsOk`), whenever the
    decidable premise `boxPremise` that the Spec evaluates for the D-set holds (wherever a member
    of the box vmin ≤ v ≤ 8 has K ≥ 0, K stays ≥ 0 when the contributions of all orbits sitting
    at 8 are removed), every branching assignment *whatsoever* with v ≥ vmin on every orbit and
    K = 0 lies in the box — all its entries are < 8 — and every such assignment that is
    minimally hyperbolic lies in the box.  (The spherical clause is bounded by 7 in the property
    itself.)  So the oracle's filtered box is the full expected set. -/
theorem box_suffices (n : Nat) (orbs : List SpecC07.Orbit) (hok : SpecC07.orbitsOk orbs = true)
    (hp : SpecC07.boxPremise n orbs (orbs.map fun o => SpecC07.vminOf o.r) SpecC07.boxTop = true)
    (a : List Nat) (hlen : a.length = orbs.length)
    (hadm : ∀ i, i < orbs.length → (orbs.map fun o => SpecC07.vminOf o.r).getD i 0 ≤ a.getD i 0) :
    ((SpecC07.curvature n orbs a).isZero = true →
        a ∈ SpecC07.boxOf (orbs.map fun o => SpecC07.vminOf o.r) SpecC07.boxTop ∧
        ∀ i, i < a.length → a.getD i 0 < SpecC07.boxTop) ∧
    (SpecC07.minimallyHyperbolic n orbs (orbs.map fun o => SpecC07.vminOf o.r) a = true →
        a ∈ SpecC07.boxOf (orbs.map fun o => SpecC07.vminOf o.r) SpecC07.boxTop) :=
  SpecC07.box_suffices_lists n orbs hok hp a hlen hadm

/-- **the oracle's walk loses nothing**: the Spec does not materialise the box but walks it orbit
    by orbit, not extending a prefix whose vector (later orbits at their minimum) already has
    K < 0.  Every member of the box that has K ≥ 0 or is minimally hyperbolic is among the
    candidates (K is antitone in every branching number). -/
theorem candidates_complete (n : Nat) (orbs : List SpecC07.Orbit) (hok : SpecC07.orbitsOk orbs = true)
    (vmins : List Nat) (top : Nat) (hvl : vmins.length = orbs.length)
    (hv1 : ∀ i, i < vmins.length → 1 ≤ vmins.getD i 0)
    (b : List Nat) (hb : b ∈ SpecC07.boxOf vmins top)
    (hP : (SpecC07.curvature n orbs b).isNeg = false ∨ SpecC07.minimallyHyperbolic n orbs vmins b = true) :
    b ∈ SpecC07.candidatesOf n orbs vmins top :=
  SpecC07.candidates_complete_lists n hok vmins top hvl hv1 b hb hP

/-- the premise of `box_suffices` evaluated on the candidates (what the Spec does) is the premise
    on the whole box -/
theorem premise_of_candidates (n : Nat) (orbs : List SpecC07.Orbit) (hok : SpecC07.orbitsOk orbs = true)
    (vmins : List Nat) (top : Nat) (hvl : vmins.length = orbs.length)
    (hv1 : ∀ i, i < vmins.length → 1 ≤ vmins.getD i 0)
    (h : SpecC07.candPremise n orbs vmins top = true) : SpecC07.boxPremise n orbs vmins top = true :=
  SpecC07.premise_of_candidates_lists n hok vmins top hvl hv1 h

/-- the Spec's fraction arithmetic is exact: its `curvature` of an assignment with entries ≥ 1
    has the value Σ_orbits (|o|/r_o)/a_o − size/2 in ℚ -/
theorem spec_curvature_exact (n : Nat) (orbs : List SpecC07.Orbit) (hok : SpecC07.orbitsOk orbs = true)
    (a : List Nat) (hlen : a.length = orbs.length) (ha : ∀ i, i < a.length → 1 ≤ a.getD i 0) :
    (SpecC07.curvature n orbs a).den ≠ 0 ∧
    (SpecC07.curvature n orbs a).val =
      ∑ i ∈ Finset.range orbs.length,
        ((orbs.getD i default).members.length : ℚ) / ((orbs.getD i default).r : ℚ) / (a.getD i 0 : ℚ)
        - (n : ℚ) / 2 :=
  SpecC07.curvature_val n hok a hlen ha

/-- witness: the one-chamber D-set has two orbits of one chamber and period 1 -/
def exOrbs : List SpecC07.Orbit := [⟨0, [1], 1⟩, ⟨1, [1], 1⟩]

example : SpecC07.orbitsOk exOrbs = true ∧
    SpecC07.boxPremise 1 exOrbs (exOrbs.map fun o => SpecC07.vminOf o.r) SpecC07.boxTop = true ∧
    (SpecC07.curvature 1 exOrbs [3, 6]).isZero = true ∧
    SpecC07.minimallyHyperbolic 1 exOrbs (exOrbs.map fun o => SpecC07.vminOf o.r) [3, 7] = true ∧
    SpecC07.candPremise 1 exOrbs (exOrbs.map fun o => SpecC07.vminOf o.r) SpecC07.boxTop = true ∧
    [3, 7] ∈ SpecC07.boxOf (exOrbs.map fun o => SpecC07.vminOf o.r) SpecC07.boxTop := by
  decide +kernel

/-! ### 7. phase 2: the generator's tables against the crate's curvature and the automorphism group -/

/-- the Spec's view of the symbol (`ds`, `vs`): the tables the driver transmits -/
def symOf (ds : DSetData) (c : Ctx) (vs : List Nat) : SpecC03.Sym :=
  { size := ds.size, dim := ds.dim, op := ds.op,
    v := ((List.range ds.dim).flatMap fun i => (List.range ds.size).map fun d0 =>
      vTable c vs i (d0 + 1)).toArray }

/-- a D-set in the property's domain: complete involutions, two-dimensional, s0 s2 = s2 s0, connected -/
structure InDomain (ds : DSetData) : Prop where
  valid : ValidSet ds
  dim : ds.dim = 2
  connected : ds.viewSimple.isConnected = true
  far : FarCommute ds
  nonempty : 1 ≤ ds.size

/-- **`is_chain` is right** (`collect_orbits`, any dimension): the flag of the (i,i+1)-orbit of a
    chamber says whether that orbit contains a chamber fixed by `op i` or by `op (i+1)`. -/
theorem is_chain_correct (s : DSetData) (h : ValidSet s) (i : Nat) (hi : i < s.dim) (x : Nat)
    (hx1 : 1 ≤ x) (hx2 : x ≤ s.size) :
    (collectOrbits s).isChain.getD (((collectOrbits s).index.getD i #[]).getD x 0) false = true ↔
      ∃ z, Orb2 s i (i + 1) x z ∧ (s.opU i z = z ∨ s.opU (i + 1) z = z) :=
  collectOrbits_isChain h hi hx1 hx2

theorem ex1_inDomain : InDomain ex1 := by
  have hdim : ex1.dim = 2 := rfl
  have hsize : ex1.size = 1 := rfl
  have hop : ∀ i, i ≤ 2 → ex1.opU i 1 = 1 := by
    intro i hi
    rcases (by omega : i = 0 ∨ i = 1 ∨ i = 2) with rfl | rfl | rfl <;> decide
  refine ⟨⟨by decide, ?_, ?_⟩, rfl, by decide +kernel, ?_, by decide⟩
  · intro i d hi h1 h2
    have hd : d = 1 := by omega
    subst hd
    rw [hop i (by omega)]; omega
  · intro i d hi h1 h2
    have hd : d = 1 := by omega
    subst hd
    rw [hop i (by omega), hop i (by omega)]
  · intro i j d hij hj h1 h2
    have hd : d = 1 := by omega
    subst hd
    rw [hop i (by omega), hop j (by omega), hop i (by omega)]

example : ValidSet ex1 ∧ 0 < ex1.dim := ⟨ex1_inDomain.valid, by decide⟩

/-- on a connected complete D-set `DSymBackTracking::new` does not panic -/
theorem new_never_panics (ds : DSetData) (g : Geom) (hd : InDomain ds) : ∃ c, mkCtx ds g = .ok c :=
  mkCtx_ok g hd.valid hd.connected hd.nonempty

/-- **`curvQ_is_model_curvature`** (open item 3 of phase 1, closed on the model side): for every
    D-set of the domain and every vector with one positive entry per orbit, the C08 model of
    `delaney2d::curvature`, asked about the symbol the generator builds for that vector
    (`PartialDSym::from_fields(dset, orbit_index, orbit_rs, vs)`, either representation), answers the
    lowest-terms fraction of the exact rational curvature `curvQ c vs` = Σ_orbits k/v − size/2 that
    the generator's integer bookkeeping represents (`scaled_curvature_exact`); it is the chamber sum
    Σ_chambers (1/m01 + 1/m12 − 1/2).  (Uses C08's dihedral orbit-size lemma, C02's `collect_orbits`
    correctness and `is_chain_correct`; the identity Σ_(0,2)-orbits (2|1)/v − size = −size/2 is
    C08's `far_m`.) -/
theorem curvQ_is_model_curvature (ds : DSetData) (g : Geom) (c : Ctx) (h : mkCtx ds g = .ok c)
    (hd : InDomain ds) (vs : List Nat) (hl : vs.length = c.count)
    (hpos : ∀ i, i < c.count → 1 ≤ vs.getD i 0) (rep : D2.Rep) :
    D2.curvature ⟨emittedSym c vs, rep⟩ = .ok (D2.Frac.ofRat (curvQ c vs)) ∧
    D2.chamberSum (emittedSym c vs) = curvQ c vs :=
  curvature_emitted h hd.valid hd.dim hd.far vs hl hpos rep

/-- **`orbit_maps_exact`** (open item 1 of phase 1, closed): for every D-set of the domain whose
    context has `base_curvature ≥ 0`, `new` stores orbit maps; every stored map is the permutation
    of the orbit numbers induced by an automorphism of the D-set (a self-map of the chambers
    commuting with all operations — bijective, C04), every automorphism induces a stored map, and
    the stored maps form a group of permutations of the orbit numbers (identity, composites,
    inverses).  (From C04's `automorphisms_spec` and C02's `collect_orbits` correctness.) -/
theorem orbit_maps_exact (ds : DSetData) (g : Geom) (c : Ctx) (h : mkCtx ds g = .ok c)
    (hd : InDomain ds) (hnb : ¬ c.baseCurv < 0) :
    ∃ ms, c.maps = some ms ∧
      (∀ m, m ∈ ms → ∃ f, IsAut ds f ∧ Induces ds c.orbitIndex c.count f m) ∧
      (∀ f, IsAut ds f → ∃ m, m ∈ ms ∧ Induces ds c.orbitIndex c.count f m) ∧
      GroupMaps c.count ms := by
  obtain ⟨ms, h1, _, h2, h3, h4⟩ := mkCtx_maps h hd.valid hd.connected hd.nonempty hnb
  exact ⟨ms, h1, h2, h3, h4⟩

/-- isomorphism of two symbols on the same D-set = relation by an orbit map -/
theorem isomorphic_iff_orbit_map (ds : DSetData) (g : Geom) (c : Ctx) (h : mkCtx ds g = .ok c)
    (hd : InDomain ds) (hnb : ¬ c.baseCurv < 0) (vs ws : List Nat) (hv : vs.length = c.count)
    (hw : ws.length = c.count) :
    SymIso ds c vs ws ↔ ∃ ms m, c.maps = some ms ∧ m ∈ ms ∧ ws = act m vs := by
  obtain ⟨ms, h1, ok, h2, h3, _⟩ := mkCtx_maps h hd.valid hd.connected hd.nonempty hnb
  rw [symIso_iff_act ok h2 h3 vs ws hv hw]
  constructor
  · rintro ⟨m, hm, e⟩; exact ⟨ms, m, h1, hm, e⟩
  · rintro ⟨ms', m, h1', hm, e⟩
    rw [h1] at h1'
    cases h1'
    exact ⟨m, hm, e⟩

/-- **irredundancy for the model**: no two emitted symbols are isomorphic (an isomorphism between
    symbols on the same D-set being an automorphism of the D-set that transports the branching
    numbers), and in every isomorphism class of vectors exactly one vector passes `is_canonical`. -/
theorem emitted_pairwise_non_isomorphic (ds : DSetData) (g : Geom) (c : Ctx) (h : mkCtx ds g = .ok c)
    (hd : InDomain ds) (hnb : ¬ c.baseCurv < 0) :
    (∀ vs ws, Outcome.ok vs ∈ dsyms c → Outcome.ok ws ∈ dsyms c → SymIso ds c vs ws → vs = ws) ∧
    (∀ vs, vs.length = c.count →
      ∃ w, SymIso ds c vs w ∧ w.length = c.count ∧ isCanonical c w = .ok true ∧
        ∀ w', w'.length = c.count → SymIso ds c vs w' → isCanonical c w' = .ok true → w' = w) := by
  obtain ⟨ms, hms, ok, hA, hB, hg⟩ := mkCtx_maps h hd.valid hd.connected hd.nonempty hnb
  refine ⟨fun vs ws hv hw hiso =>
    emitted_not_isomorphic h hd.valid hd.connected hd.nonempty hnb vs ws hv hw hiso, fun vs hl => ?_⟩
  obtain ⟨w, ⟨m, hm, hwm⟩, hcan, huniq⟩ := SymGen.canonical_one_per_class hg vs hl
  have hwl : w.length = c.count := by rw [hwm, act_length, hl]
  refine ⟨w, (symIso_iff_act ok hA hB vs w hl hwl).mpr ⟨m, hm, hwm⟩, hwl, ?_, ?_⟩
  · unfold isCanonical; rw [hms]; exact hcan
  · intro w' hw'l hiso hcan'
    unfold isCanonical at hcan'
    rw [hms] at hcan'
    exact huniq w' ((symIso_iff_act ok hA hB vs w' hl hw'l).mp hiso) hcan'

/-- everything the generator's filter looks at is a class invariant: if `m` is an orbit map then
    `vs ∘ m` is admissible / has the same exact curvature and bookkeeping value / is minimally
    hyperbolic / passes `is_good` whenever `vs` does (automorphisms preserve orbit lengths and chain
    flags and permute the orbit numbers; the private `orbifold_symbol` sorts its lists). -/
theorem filter_is_class_invariant (ds : DSetData) (g : Geom) (c : Ctx) (h : mkCtx ds g = .ok c)
    (hd : InDomain ds) (hnb : ¬ c.baseCurv < 0) (ms : List (List Nat)) (hms : c.maps = some ms)
    (m : List Nat) (hm : m ∈ ms) (vs : List Nat) (ha : Adm c vs) :
    Adm c (act m vs) ∧ curvQ c (act m vs) = curvQ c vs ∧ scaled c (act m vs) = scaled c vs ∧
    (MinHyp c vs → MinHyp c (act m vs)) ∧
    isGood c (act m vs) (scaled c (act m vs)) = isGood c vs (scaled c vs) := by
  have hw := mkCtx_wf h
  obtain ⟨ms', hms', _, hA, hB, _⟩ := mkCtx_maps h hd.valid hd.connected hd.nonempty hnb
  rw [hms] at hms'
  cases hms'
  obtain ⟨f, f', m', _, mp⟩ := mapPair_of_mem hd.valid hd.connected hd.nonempty hA hB hm
  have hinj := (aut_bijective hd.valid hd.connected hd.nonempty mp.af).1
  exact ⟨adm_act h hd.valid mp hinj ha, curvQ_act h hd.valid mp hinj ha.1,
    scaled_act h hd.valid mp hinj ha.1 (adm_bounds hw ha),
    minHyp_act h hd.valid mp hinj hw ha, isGood_act h hd.valid mp hinj hw ha⟩

/-- **`one_symbol_per_isomorphism_class`** — the irredundancy / completeness clause of C07 for the
    model, for every D-set of the domain and every geometry (`base_curvature ≥ 0`): every emitted
    vector is admissible, meets the geometry's condition in exact rational curvature and passes
    `is_good`; and for every vector with these three properties there is exactly one emitted vector
    whose symbol is isomorphic to its symbol.  So the emitted symbols are a transversal of the
    isomorphism classes of the symbols the generator's conditions describe. -/
theorem one_symbol_per_isomorphism_class (ds : DSetData) (g : Geom) (c : Ctx) (h : mkCtx ds g = .ok c)
    (hd : InDomain ds) (hnb : ¬ c.baseCurv < 0) :
    (∀ vs, Outcome.ok vs ∈ dsyms c →
      Adm c vs ∧ GeomCond g c vs ∧ isGood c vs (scaled c vs) = .ok true) ∧
    (∀ vs, Adm c vs → GeomCond g c vs → isGood c vs (scaled c vs) = .ok true →
      ∃ ws, (Outcome.ok ws ∈ dsyms c ∧ SymIso ds c vs ws) ∧
        ∀ ws', Outcome.ok ws' ∈ dsyms c → SymIso ds c vs ws' → ws' = ws) := by
  refine ⟨fun vs hvs => ?_, fun vs ha hgeo hgood =>
    emitted_transversal h hd.valid hd.connected hd.nonempty hnb vs ha hgeo hgood⟩
  obtain ⟨a, b, c', _⟩ := (dsyms_output ds g c h hnb vs).mp hvs
  exact ⟨a, b, c'⟩

example : ∃ c, mkCtx ex1 .all = .ok c ∧ InDomain ex1 ∧ ¬ c.baseCurv < 0 := by
  refine ⟨_, rfl, ex1_inDomain, ?_⟩
  decide +kernel

/-- **the private `is_weakly_oriented` is the trait's**: on every connected complete D-set the
    generator's own breadth-first 2-colouring does not panic, terminates within the model's fuel
    `size + 2`, and returns what `DSet::is_weakly_oriented()` returns (⇔ the chamber graph without
    loops is bipartite, C02). -/
theorem private_is_weakly_oriented (ds : DSetData) (hd : InDomain ds) :
    isWeaklyOriented ds = .ok ds.viewSimple.isWeaklyOriented :=
  isWeaklyOriented_private hd.valid hd.connected hd.nonempty

example : isWeaklyOriented ex1 = .ok true := by decide +kernel

/-- **the private `orbifold_symbol` collects the crate's census**: its cone list (a 2 per
    two-chamber (0,2)-orbit with s0 = s2 and no fixed chamber, v per cycle orbit with v > 1) and
    its corner list (a 2 per chamber fixed by s0 and s2, v per chain orbit with v > 1) are, as
    multisets, the cone and corner census `conesOf / cornersOf (typesOf y)` of the emitted symbol
    `y` — the census that C08's theorems (`trace_boundary_corners_exact`, `symbolExact_sound`)
    attach to `delaney2d::orbifold_symbol`; and the string it returns is
    sorted-cones ++ ("*" iff some chamber is fixed) ++ sorted-corners ++ ("x" iff not weakly
    oriented). -/
theorem private_census_is_crate_census (ds : DSetData) (g : Geom) (c : Ctx) (h : mkCtx ds g = .ok c)
    (hd : InDomain ds) (vs : List Nat) (hl : vs.length = c.count) :
    ((points02 c.dset).1 ++ (List.range c.count).filterMap (coneAt c vs)).Perm
      (D2.conesOf (D2.typesOf (emittedSym c vs))) ∧
    ((points02 c.dset).2 ++ (List.range c.count).filterMap (cornerAt c vs)).Perm
      (D2.cornersOf (D2.typesOf (emittedSym c vs))) ∧
    orbifoldSymbol c vs = .ok
      (degreeListAsString (sortDesc ((points02 c.dset).1 ++ (List.range c.count).filterMap (coneAt c vs))) ++
       (if c.dset.viewSimple.isLoopless then "" else "*") ++
       degreeListAsString (sortDesc ((points02 c.dset).2 ++ (List.range c.count).filterMap (cornerAt c vs))) ++
       (if c.dset.viewSimple.isWeaklyOriented then "" else "x")) := by
  obtain ⟨hdd, _⟩ := mkCtx_fields h
  obtain ⟨p1, p2⟩ := private_census h hd.valid hd.dim hd.far hl
  refine ⟨p1, p2, ?_⟩
  unfold orbifoldSymbol
  rw [pointsVs_eq (mkCtx_wf h) hl _ (fun i hi => List.mem_range.mp hi), hdd,
    isWeaklyOriented_private hd.valid hd.connected hd.nonempty]

/-- **`private_orbifold_symbol_agrees`** (open item 2 of phase 1, closed): for every D-set of the
    domain and every admissible vector of positive curvature, the generator's private
    `orbifold_symbol` returns `privString` — sorted cones, "*" iff a mirror exists, sorted corners,
    "x" iff not weakly oriented —, the C08 model of `delaney2d::orbifold_symbol` returns some `o`
    on the emitted symbol, and the private key is on the generator's list **iff** `o` names (up to
    `SpecC08.sameOrbifold`) an orbifold of that list as read by `SpecC08.parseSymbol`; so `is_good`
    is the Spec's spherical filter.  Ingredients: the private cone/corner lists are the crate's
    census (`private_census_is_crate_census`), the private orientation test is the trait's
    (`private_is_weakly_oriented`), C08's Gauss–Bonnet and genus theorems (the symbol is defined; a
    symbol that is not weakly oriented has a cross-cap — Ree's inequality and the orientation
    cover), a symbol of positive curvature has no handle and at most one boundary component or
    cross-cap (`chi_pos_shape`), `trace_boundary` returns a component iff a mirror exists, the two
    readings of the generated list agree entry by entry (`decide`), rendering is injective on
    single-digit keys, and up to three corners every arrangement is cyclically equivalent to the
    sorted one. -/
theorem private_orbifold_symbol_agrees (ds : DSetData) (g : Geom) (c : Ctx) (h : mkCtx ds g = .ok c)
    (hd : InDomain ds) (vs : List Nat) (ha : Adm c vs) (hpos : 0 < scaled c vs) (rep : D2.Rep) :
    ∃ o, orbifoldSymbol c vs = .ok (privString c vs) ∧
      D2.orbifoldSymbol ⟨emittedSym c vs, rep⟩ = .ok o ∧
      (Tables.goodSphericalOrbifolds.contains (privString c vs) = true ↔
        SpecC07.onGoodList (D2.orbOf o) = true) ∧
      isGood c vs (scaled c vs) = .ok (SpecC07.onGoodList (D2.orbOf o)) :=
  private_key_agrees h hd.valid hd.dim hd.far hd.connected hd.nonempty ha hpos rep

/-- **the emitted set in the crate's own terms** (`base_curvature ≥ 0`): a vector is emitted iff
    it is admissible, its exact curvature — which is `delaney2d::curvature` of the emitted symbol —
    meets the geometry's condition, it is the canonical vector of its isomorphism class, and,
    when the curvature is positive, the orbifold named by `delaney2d::orbifold_symbol` for the
    emitted symbol is one of the orbifolds of the generator's list. -/
theorem dsyms_output_crate_terms (ds : DSetData) (g : Geom) (c : Ctx) (h : mkCtx ds g = .ok c)
    (hd : InDomain ds) (hnb : ¬ c.baseCurv < 0) (vs : List Nat) :
    Outcome.ok vs ∈ dsyms c ↔
      Adm c vs ∧ GeomCond g c vs ∧ isCanonical c vs = .ok true ∧
      (0 < scaled c vs → ∀ o, D2.orbifoldSymbol ⟨emittedSym c vs, .simpleSym⟩ = .ok o →
        SpecC07.onGoodList (D2.orbOf o) = true) := by
  rw [dsyms_output ds g c h hnb vs]
  constructor
  · rintro ⟨ha, hg, hgood, hcan⟩
    refine ⟨ha, hg, hcan, fun hpos o ho => ?_⟩
    obtain ⟨o', _, ho', _, hig⟩ := private_orbifold_symbol_agrees ds g c h hd vs ha hpos .simpleSym
    rw [ho] at ho'
    cases ho'
    rw [hig] at hgood
    exact Outcome.ok.inj hgood
  · rintro ⟨ha, hg, hcan, hsp⟩
    refine ⟨ha, hg, ?_, hcan⟩
    by_cases hpos : 0 < scaled c vs
    · obtain ⟨o', _, ho', _, hig⟩ := private_orbifold_symbol_agrees ds g c h hd vs ha hpos .simpleSym
      rw [hig, hsp hpos o' ho']
    · unfold isGood
      rw [if_pos (by omega)]

example : ∃ c, mkCtx ex1 .all = .ok c ∧ Adm c [3, 3] ∧ 0 < scaled c [3, 3] := by
  refine ⟨_, rfl, ⟨by decide +kernel, by decide +kernel⟩, by decide +kernel⟩

/-- the generated list, read in the generator's own format (`goodKeys`) and by
    `SpecC08.parseSymbol`, names the same orbifolds entry by entry; every entry has single-digit
    numbers ≥ 2, at most three corners, sorted lists, corners only behind a star (re-checked on
    the generated table on every run) -/
theorem good_list_two_readings :
    Tables.goodSphericalOrbifolds.map String.toList = goodKeys.map PKey.chars ∧
    SpecC07.goodOrbs = goodKeys.map PKey.orb ∧
    ∀ t, t ∈ goodKeys → t.Valid ∧ t.corners.length ≤ 3 ∧ sortDesc t.cones = t.cones ∧
      sortDesc t.corners = t.corners :=
  ⟨goodKeys_chars, goodKeys_orbs, fun _ ht => goodKeys_valid ht⟩

/-- **a large branching number costs little** (C08's unconditional Gauss–Bonnet + arithmetic of
    orbifold symbols): on every D-set of the domain, for every vector with one positive entry per
    orbit — no upper bound —, if K(vs) ≥ 0 and `vs[i] ≥ 7` then K(vs) ≥ k_i / vs[i]: the orbit can
    be pushed to a cusp without making the curvature negative. -/
theorem large_branching_bound (ds : DSetData) (g : Geom) (c : Ctx) (h : mkCtx ds g = .ok c)
    (hd : InDomain ds) (vs : List Nat) (hp : Pos c vs) (hK : 0 ≤ curvQ c vs) (i : Nat) (hi : i < c.count)
    (h7 : 7 ≤ vs.getD i 0) : (kAt c i : ℚ) / (vs.getD i 0 : ℚ) ≤ curvQ c vs :=
  entry_bound h hd.valid hd.dim hd.far hd.connected hd.nonempty hp hK i hi h7

/-- **the bound 7 of the `for v` loop loses nothing** (the box of the property's quantifier, for
    the model): on every D-set of the domain, among ALL branching vectors with one entry ≥ the
    orbit's minimum per orbit (no upper bound), every euclidean one (K = 0) has all entries ≤ 6 and
    every minimally hyperbolic one (K < 0, and K ≥ 0 after lowering any entry above its minimum by
    one) has all entries ≤ 7 — both are admissible in the sense of `dsyms_output`. -/
theorem all_euclidean_and_minimal_hyperbolic_admissible (ds : DSetData) (g : Geom) (c : Ctx)
    (h : mkCtx ds g = .ok c) (hd : InDomain ds) (vs : List Nat) (hl : vs.length = c.count)
    (hlo : ∀ i, i < c.count → c.vmins.getD i 0 ≤ vs.getD i 0) :
    (curvQ c vs = 0 → Adm c vs ∧ ∀ i, i < c.count → vs.getD i 0 ≤ 6) ∧
    (MinHypQ c vs → Adm c vs) := by
  have hw := mkCtx_wf h
  have hp : Pos c vs := ⟨hl, fun i hi => by have := hw.vminPos i hi; have := hlo i hi; omega⟩
  have h7 : Tables.genVMax = 7 := rfl
  constructor
  · intro hK
    have h6 := euclidean_le_six h hd.valid hd.dim hd.far hd.connected hd.nonempty hp hK
    exact ⟨⟨hl, fun i hi => ⟨hlo i hi, by have := h6 i hi; omega⟩⟩, h6⟩
  · intro hm
    have h7' := minHyp_le_seven h hd.valid hd.dim hd.far hd.connected hd.nonempty hw hp hm
    exact ⟨hl, fun i hi => ⟨hlo i hi, by have := h7' i hi; omega⟩⟩

/-- **completeness over all assignments** (euclidean and hyperbolic clauses of C07, for the model,
    no bound on the branching numbers): for `base_curvature ≥ 0`, every branching vector
    whatsoever with entries ≥ the orbit minima that is euclidean (geometry Euclidean or All) resp.
    minimally hyperbolic (geometry Hyperbolic or All) is isomorphic to exactly one emitted
    symbol. -/
theorem all_assignments_covered (ds : DSetData) (g : Geom) (c : Ctx) (h : mkCtx ds g = .ok c)
    (hd : InDomain ds) (hnb : ¬ c.baseCurv < 0) (vs : List Nat) (hl : vs.length = c.count)
    (hlo : ∀ i, i < c.count → c.vmins.getD i 0 ≤ vs.getD i 0)
    (hcase : ((g = .euclidean ∨ g = .all) ∧ curvQ c vs = 0) ∨
             ((g = .hyperbolic ∨ g = .all) ∧ MinHypQ c vs)) :
    ∃ ws, (Outcome.ok ws ∈ dsyms c ∧ SymIso ds c vs ws) ∧
      ∀ ws', Outcome.ok ws' ∈ dsyms c → SymIso ds c vs ws' → ws' = ws := by
  have hw := mkCtx_wf h
  obtain ⟨hE, hH⟩ := all_euclidean_and_minimal_hyperbolic_admissible ds g c h hd vs hl hlo
  have hp := curvFac_pos
  rcases hcase with ⟨hg, hK⟩ | ⟨hg, hm⟩
  · obtain ⟨ha, _⟩ := hE hK
    have hs := scaled_sign c vs (adm_bounds hw ha)
    have hs0 : scaled c vs = 0 := hs.2.1.mpr hK
    have hgeo : GeomCond g c vs := by
      rcases hg with rfl | rfl
      · exact hK
      · exact Or.inl ⟨by rw [hK], by rw [hs0]; omega⟩
    refine (one_symbol_per_isomorphism_class ds g c h hd hnb).2 vs ha hgeo ?_
    unfold isGood; rw [if_pos (by omega)]
  · have ha := hH hm
    have hs := scaled_sign c vs (adm_bounds hw ha)
    have hneg : scaled c vs < 0 := hs.1.mpr hm.1
    have hgeo : GeomCond g c vs := by
      rcases hg with rfl | rfl
      · exact hm
      · exact Or.inr hm
    refine (one_symbol_per_isomorphism_class ds g c h hd hnb).2 vs ha hgeo ?_
    unfold isGood; rw [if_pos (by omega)]

/-- `base_curvature < 0` (already the all-minimal vector is hyperbolic): every vector with entries
    ≥ the orbit minima has negative curvature — nothing euclidean or spherical exists —, the
    all-minimal vector is minimally hyperbolic and it is the only minimally hyperbolic vector; with
    `dsyms_output_base_negative` the generator emits exactly it for Hyperbolic / All and nothing
    otherwise. -/
theorem base_negative_complete (ds : DSetData) (g : Geom) (c : Ctx) (h : mkCtx ds g = .ok c)
    (hb : c.baseCurv < 0) (vs : List Nat) (hl : vs.length = c.count)
    (hlo : ∀ i, i < c.count → c.vmins.getD i 0 ≤ vs.getD i 0) :
    curvQ c vs < 0 ∧ MinHypQ c c.vmins ∧ (MinHypQ c vs → vs = c.vmins) :=
  base_negative_all (mkCtx_wf h) hb vs hl hlo

/-- **every degree at least 3**: on every orbit of an admissible (in particular: emitted) vector
    the degree m = r · v is ≥ 3 -/
theorem every_degree_ge_three (ds : DSetData) (g : Geom) (c : Ctx) (h : mkCtx ds g = .ok c)
    (hd : InDomain ds) (vs : List Nat) (ha : Adm c vs) (k : Nat) (hk : k < c.count) :
    3 ≤ c.rs.getD k 0 * vs.getD k 0 :=
  degrees_ge_three h hd.valid ha k hk

/-- **the upper end `4 * CURV_FAC` of the spherical window excludes nothing**: on every D-set of
    the domain every admissible vector has K ≤ 4 (K = 2χ, and χ of an orbifold symbol is ≤ 2), so
    its bookkeeping value is ≤ `4 * CURV_FAC`; the conjunct `scaled ≤ 4 * CURV_FAC` of `GeomCond`
    for Spherical / All is always true. -/
theorem spherical_window_top (ds : DSetData) (g : Geom) (c : Ctx) (h : mkCtx ds g = .ok c)
    (hd : InDomain ds) (vs : List Nat) (ha : Adm c vs) :
    curvQ c vs ≤ 4 ∧ scaled c vs ≤ 4 * curvFac := by
  have hw := mkCtx_wf h
  have hb := adm_bounds hw ha
  have hp : Pos c vs := ⟨ha.1, fun i hi => (hb i hi).1⟩
  have h4 := curvQ_le_four h hd.valid hd.dim hd.far hd.connected hd.nonempty hp
  refine ⟨h4, ?_⟩
  have he := scaled_exact c vs hb
  have hF : (0 : ℚ) < (curvFac : ℚ) := by exact_mod_cast curvFac_pos
  have : ((scaled c vs : Int) : ℚ) ≤ ((4 * curvFac : Int) : ℚ) := by
    rw [he]; push_cast; nlinarith
  exact_mod_cast this

/-! ### 8. assembly: negative base curvature, totality, the All output -/

/-- the size bound under which `-CURV_FAC/2 · size` (computed by the real code in `i64`) cannot
    reach `i64::MIN`; carried as an explicit hypothesis where the window of a context with negative
    base curvature is evaluated -/
def SizeFits (ds : DSetData) : Prop := ds.size ≤ 4294967296

/-- **`base_curvature < 0`, the output per geometry** (size ≤ 2^32): Hyperbolic and All emit
    exactly the all-minimal vector, Spherical and Euclidean emit nothing.  With
    `base_negative_complete`: that vector has negative curvature and is the only minimally
    hyperbolic vector, and nothing euclidean or spherical exists — so sign, soundness and
    completeness hold for these D-sets in all four geometries. -/
theorem dsyms_output_base_negative_total (ds : DSetData) (g : Geom) (c : Ctx) (h : mkCtx ds g = .ok c)
    (hb : c.baseCurv < 0) (hsz : SizeFits ds) :
    dsyms c = (match g with
      | .hyperbolic => [.ok c.vmins]
      | .all => [.ok c.vmins]
      | _ => []) ∧
    i64Min ≤ c.baseCurv ∧ curvQ c c.vmins < 0 ∧ MinHypQ c c.vmins ∧
    ∀ vs, vs.length = c.count → (∀ i, i < c.count → c.vmins.getD i 0 ≤ vs.getD i 0) →
      curvQ c vs < 0 ∧ (MinHypQ c vs → vs = c.vmins) := by
  have hw := mkCtx_wf h
  have hself := base_negative_all hw hb c.vmins rfl (fun _ _ => Nat.le_refl _)
  exact ⟨dsyms_base_neg_total h hb hsz, base_ge_i64Min h hsz, hself.1, hself.2.1,
    fun vs hl hlo => ⟨(base_negative_all hw hb vs hl hlo).1, (base_negative_all hw hb vs hl hlo).2.2⟩⟩

/-- **`generate` never panics on the domain**: every item the iterator yields is an `ok` vector
    with one positive entry per orbit (`is_good`, `is_canonical`, `children` and `from_partial`'s
    assertion never fail), so `DSyms::new(..).collect()` returns; the `symbol_count` numbers are
    1, 2, 3, … unconditionally. -/
theorem generate_never_panics (ds : DSetData) (g : Geom) (hd : InDomain ds) :
    ∃ c l, mkCtx ds g = .ok c ∧ generate ds g = .ok (l, c) ∧
      (∀ x, x ∈ dsyms c → ∃ vs, x = .ok vs ∧ vs.length = c.count ∧ ∀ v, v ∈ vs → 0 < v) ∧
      dsyms c = l.map (fun p => .ok p.2) ∧
      l.map (·.1) = (List.range l.length).map (· + 1) := by
  obtain ⟨c, hc⟩ := new_never_panics ds g hd
  obtain ⟨l, hl⟩ := generate_ok hc hd.valid hd.connected hd.nonempty
  obtain ⟨_, h2, h3, _⟩ := counters_consecutive ds g l c hl
  exact ⟨c, l, hc, hl, fun x hx => dsyms_all_ok hc hd.valid hd.connected hd.nonempty x hx, h2, h3⟩

/-- **the All output is the disjoint union of the three** (size ≤ 2^32): for the four contexts of
    one D-set (any D-set on which `new` answers), a vector is emitted under All iff it is emitted under Spherical,
    Euclidean or Hyperbolic, and no vector is emitted under two of these. -/
theorem all_is_disjoint_union (ds : DSetData) (hsz : SizeFits ds)
    (cS cE cH cA : Ctx) (hS : mkCtx ds .spherical = .ok cS) (hE : mkCtx ds .euclidean = .ok cE)
    (hH : mkCtx ds .hyperbolic = .ok cH) (hA : mkCtx ds .all = .ok cA) (vs : List Nat) :
    (Outcome.ok vs ∈ dsyms cA ↔
      Outcome.ok vs ∈ dsyms cS ∨ Outcome.ok vs ∈ dsyms cE ∨ Outcome.ok vs ∈ dsyms cH) ∧
    ¬ (Outcome.ok vs ∈ dsyms cS ∧ Outcome.ok vs ∈ dsyms cE) ∧
    ¬ (Outcome.ok vs ∈ dsyms cS ∧ Outcome.ok vs ∈ dsyms cH) ∧
    ¬ (Outcome.ok vs ∈ dsyms cE ∧ Outcome.ok vs ∈ dsyms cH) := by
  have eS := mkCtx_same hA hS
  have eE := mkCtx_same hA hE
  have eH := mkCtx_same hA hH
  by_cases hb : cA.baseCurv < 0
  · have hbS : cS.baseCurv < 0 := by rw [eS]; exact hb
    have hbE : cE.baseCurv < 0 := by rw [eE]; exact hb
    have hbH : cH.baseCurv < 0 := by rw [eH]; exact hb
    have hvH : cH.vmins = cA.vmins := by rw [eH]
    rw [dsyms_base_neg_total hA hb hsz, dsyms_base_neg_total hS hbS hsz,
      dsyms_base_neg_total hE hbE hsz, dsyms_base_neg_total hH hbH hsz, hvH]
    simp
  · have hw := mkCtx_wf hA
    have mA := dsyms_mem_geom hA hA hb vs
    have mS := dsyms_mem_geom hA hS hb vs
    have mE := dsyms_mem_geom hA hE hb vs
    have mH := dsyms_mem_geom hA hH hb vs
    rw [mA, mS, mE, mH]
    by_cases ha : Adm cA vs
    · obtain ⟨g1, g2, g3, g4⟩ := geomCond_all_iff hw ha
      refine ⟨?_, fun hh => g2 ⟨hh.1.2.1, hh.2.2.1⟩, fun hh => g3 ⟨hh.1.2.1, hh.2.2.1⟩,
        fun hh => g4 ⟨hh.1.2.1, hh.2.2.1⟩⟩
      constructor
      · rintro ⟨_, hg, r1, r2⟩
        rcases g1.mp hg with x | x | x
        · exact Or.inl ⟨ha, x, r1, r2⟩
        · exact Or.inr (Or.inl ⟨ha, x, r1, r2⟩)
        · exact Or.inr (Or.inr ⟨ha, x, r1, r2⟩)
      · rintro (⟨_, x, r1, r2⟩ | ⟨_, x, r1, r2⟩ | ⟨_, x, r1, r2⟩)
        · exact ⟨ha, g1.mpr (Or.inl x), r1, r2⟩
        · exact ⟨ha, g1.mpr (Or.inr (Or.inl x)), r1, r2⟩
        · exact ⟨ha, g1.mpr (Or.inr (Or.inr x)), r1, r2⟩
    · exact ⟨⟨fun hh => absurd hh.1 ha, fun hh => by
        rcases hh with x | x | x <;> exact absurd x.1 ha⟩,
        fun hh => ha hh.1.1, fun hh => ha hh.1.1, fun hh => ha hh.1.1⟩

example : InDomain ex1 ∧ SizeFits ex1 := ⟨ex1_inDomain, by unfold SizeFits; decide⟩

/-! ### open (not theorems): the statements, for the record -/

/-- ◐ the Spec's own curvature of the same assignment (orbits by naive closure) is the same number
    (`curvQ_is_model_curvature` identifies `curvQ` with the crate's curvature model and the chamber
    sum; what is left is the correctness of the Spec's closure and period loops).  Decided by the
    Spec clause `curvature-is-the-chamber-sum-and-the-crates-curvature` on every emitted symbol. -/
def curvQ_is_spec_curvature_statement : Prop :=
  ∀ (ds : DSetData) (g : Geom) (c : Ctx) (vs : List Nat), InDomain ds →
    mkCtx ds g = .ok c → Adm c vs →
      (SpecC07.curvature ds.size (SpecC07.orbits (symOf ds c vs))
        (SpecC07.assignmentOf (SpecC07.orbits (symOf ds c vs)) (symOf ds c vs))).val = curvQ c vs

/-- ○ the premise of `box_suffices`, a statement about the Spec's own curvature function, holds for
    every D-set of the domain.  For the model the content is proved
    (`all_euclidean_and_minimal_hyperbolic_admissible`); for the Spec's oracle it would in addition
    need `curvQ_is_spec_curvature_statement`.  Evaluated by the Spec for every explored D-set
    (`oracle-box-premise-holds`). -/
def box_premise_statement : Prop :=
  ∀ (g : SpecC03.Sym), SpecC07.inDomain g = true →
    SpecC07.candPremise g.size (SpecC07.orbits g)
      ((SpecC07.orbits g).map fun o => SpecC07.vminOf o.r) SpecC07.boxTop = true

end DSymVerif.C07
