-- This module serves as the root of the `DSymVerif` library.
-- Import modules here that should be built as part of the library.
import DSymVerif.Basic
