import DSymVerif.Props.C03
#print axioms DSymVerif.C03.rebuild_iso
#print axioms DSymVerif.C03.ex1_valid
#print axioms DSymVerif.C03.ex1_perm
#print axioms DSymVerif.C03.canonical_iso
#print axioms DSymVerif.C03.travNext_equivariant
#print axioms DSymVerif.C03.traversal_equivariant
#print axioms DSymVerif.C03.traversalCode_equivariant
#print axioms DSymVerif.C03.rebuild_corresponding_maps
#print axioms DSymVerif.C03.compareCodes_lex
#print axioms DSymVerif.C03.minimalTraversalCode_least
#print axioms DSymVerif.C03.canonical_renumber_reduced
#print axioms DSymVerif.C03.canonical_idempotent_reduced
#print axioms DSymVerif.C03.canonical_complete_reduced
#print axioms DSymVerif.C03.ex1_good
#print axioms DSymVerif.C03.ex1_det
#print axioms DSymVerif.C03.property_from_open_statements
