import DSymVerif.Props.C04
#print axioms DSymVerif.C04.view_hypotheses
#print axioms DSymVerif.C04.morphism_sound
#print axioms DSymVerif.C04.morphism_sound_total
#print axioms DSymVerif.C04.morphism_terminates
#print axioms DSymVerif.C04.morphism_complete
#print axioms DSymVerif.C04.morphism_complete_partial
#print axioms DSymVerif.C04.morphism_some_iff
#print axioms DSymVerif.C04.morphism_none_iff
#print axioms DSymVerif.C04.morphism_unique
#print axioms DSymVerif.C04.d3_pinned_accepts_wrong_map
#print axioms DSymVerif.C04.d3_automorphisms
#print axioms DSymVerif.C04.automorphisms_eq
#print axioms DSymVerif.C04.fold_congruence
#print axioms DSymVerif.C04.fold_least
#print axioms DSymVerif.C04.fold_some_iff
#print axioms DSymVerif.C04.is_minimal_iff
