import DSymVerif.Props.C11
#print axioms DSymVerif.C11.validTable_action
#print axioms DSymVerif.C11.rows_dvd_index
#print axioms DSymVerif.C11.trace_reduce_invariant
#print axioms DSymVerif.C11.trace_free_group_invariant
#print axioms DSymVerif.C11.coset_representative_spec
#print axioms DSymVerif.C11.join_inverse_consistent
#print axioms DSymVerif.C11.scan_and_connect_deduction
#print axioms DSymVerif.C11.validTable_iff_valid
#print axioms DSymVerif.C11.merge_preserves
#print axioms DSymVerif.C11.invariant_consequences
#print axioms DSymVerif.C11.compact_valid
#print axioms DSymVerif.C11.coset_table_valid_partial
#print axioms DSymVerif.C11.rows_multiple
#print axioms DSymVerif.C11.coset_table_correct
#print axioms DSymVerif.C11.coset_table_representatives
