import DSymVerif.Props.C13
#print axioms DSymVerif.C13.product_trace_rows
#print axioms DSymVerif.C13.product_trace
#print axioms DSymVerif.C13.tuple_trace
#print axioms DSymVerif.C13.intersection_certificate_sound
#print axioms DSymVerif.C13.core_certificate_sound
#print axioms DSymVerif.C13.intersection_rows_are_orbit
#print axioms DSymVerif.C13.core_rows_are_orbit
#print axioms DSymVerif.C13.intersection_spec
#print axioms DSymVerif.C13.core_spec
#print axioms DSymVerif.C13.stabilizer_gens_fix_base
#print axioms DSymVerif.C13.stabilizer_generates
#print axioms DSymVerif.C13.stabilizer_relators_hold
#print axioms DSymVerif.C13.stabilizer_total
#print axioms DSymVerif.C13.intersection_total
#print axioms DSymVerif.C13.core_total
