import DSymVerif.Props.C05
#print axioms DSymVerif.C05.build_set_of_involution
#print axioms DSymVerif.C05.build_set_ok_only_involutions
#print axioms DSymVerif.C05.cover_is_covering
#print axioms DSymVerif.C05.cover_complete
#print axioms DSymVerif.C05.cover_panics_iff
#print axioms DSymVerif.C05.cover_zero_sheets_panics
#print axioms DSymVerif.C05.oriented_cover_covering
#print axioms DSymVerif.C05.oriented_cover_oriented
#print axioms DSymVerif.C05.oriented_cover_preserves_degrees
#print axioms DSymVerif.C05.cover_for_table_compat
#print axioms DSymVerif.C05.table_cover_is_covering
#print axioms DSymVerif.C05.subgroup_cover_is_covering
#print axioms DSymVerif.C05.finite_universal_cover_is_covering
#print axioms DSymVerif.C05.covers_one_entry_per_conjugacy_class
#print axioms DSymVerif.C05.covers_pairwise_nonisomorphic
#print axioms DSymVerif.C05.cover_fibres
#print axioms DSymVerif.C05.monitors_sound
