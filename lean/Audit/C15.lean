import DSymVerif.Props.C15
#print axioms DSymVerif.C15.pointGroups_eleven_distinct
#print axioms DSymVerif.C15.coreType_names_in_pointGroups
#print axioms DSymVerif.C15.coreTypeBySize_domain
#print axioms DSymVerif.C15.coreTypeBySize_panics_iff
#print axioms DSymVerif.C15.coreTypeBySize_ne_err
#print axioms DSymVerif.C15.coreType_in_pointGroups
#print axioms DSymVerif.C15.coreType_panics_only
#print axioms DSymVerif.C15.names_orders_consistent
#print axioms DSymVerif.C15.transitive_le4_orders
#print axioms DSymVerif.C15.degree_spec
#print axioms DSymVerif.C15.actsOnB_sound
#print axioms DSymVerif.C15.flattensAll_true_iff
#print axioms DSymVerif.C15.firstTorusTable_some
#print axioms DSymVerif.C15.groupLoop_some
#print axioms DSymVerif.C15.ptc_result_is_cover_partial
