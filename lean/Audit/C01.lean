import DSymVerif.Props.C01
#print axioms DSymVerif.C01.fromSpec_total
#print axioms DSymVerif.C01.fromSpec_panic_needs_huge_input
#print axioms DSymVerif.C01.parse_total
#print axioms DSymVerif.C01.fromSpec_ok_wellformed
#print axioms DSymVerif.C01.parse_ok_wellformed
