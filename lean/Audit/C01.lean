import DSymVerif.Props.C01
#print axioms DSymVerif.C01.fromSpec_total
#print axioms DSymVerif.C01.fromSpec_panic_needs_huge_input
#print axioms DSymVerif.C01.parse_total
#print axioms DSymVerif.C01.fromSpec_ok_wellformed
#print axioms DSymVerif.C01.fromSpec_ok_degrees
#print axioms DSymVerif.C01.parse_ok_wellformed
#print axioms DSymVerif.C01.parse_ok_degrees
#print axioms DSymVerif.C01.lex_render
#print axioms DSymVerif.C01.fmt_is_render_of_display
#print axioms DSymVerif.C01.fromSpec_display
#print axioms DSymVerif.C01.print_parse_round_trip
#print axioms DSymVerif.C01.print_parse_round_trip_dset
#print axioms DSymVerif.C01.reparse_stable
#print axioms DSymVerif.C01.reparse_stable_spec
