import DSymVerif.Props.C12
#print axioms DSymVerif.C12.backtrack_preorder
#print axioms DSymVerif.C12.children_decrease
#print axioms DSymVerif.C12.coset_tables_preorder
#print axioms DSymVerif.C12.coset_tables_fuel_irrelevant
#print axioms DSymVerif.C12.derived_table_extends
