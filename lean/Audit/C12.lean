import DSymVerif.Props.C12
#print axioms DSymVerif.C12.backtrack_preorder
#print axioms DSymVerif.C12.children_decrease
#print axioms DSymVerif.C12.coset_tables_preorder
#print axioms DSymVerif.C12.coset_tables_fuel_irrelevant
#print axioms DSymVerif.C12.derived_table_extends
#print axioms DSymVerif.C12.derived_table_sound
#print axioms DSymVerif.C12.derived_table_rejects_only_on_conflict
#print axioms DSymVerif.C12.search_states_inverse_consistent
#print axioms DSymVerif.C12.extract_complete
#print axioms DSymVerif.C12.extract_valid
#print axioms DSymVerif.C12.derived_table_relators_close
#print axioms DSymVerif.C12.renumbered_compare_spec
#print axioms DSymVerif.C12.pruning_sound
#print axioms DSymVerif.C12.search_states_standard
#print axioms DSymVerif.C12.coset_tables_irredundant
#print axioms DSymVerif.C12.rebase_min_invariant
#print axioms DSymVerif.C12.renumber_iso
