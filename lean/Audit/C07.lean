import DSymVerif.Props.C07
#print axioms DSymVerif.C07.curv_fac_divisible
#print axioms DSymVerif.C07.vmin_degree_ge_3
#print axioms DSymVerif.C07.good_list_spherical
#print axioms DSymVerif.C07.good_list_parses
#print axioms DSymVerif.C07.backtrack_preorder
#print axioms DSymVerif.C07.more_fuel_same
#print axioms DSymVerif.C07.new_well_formed
#print axioms DSymVerif.C07.generator_index_safe
#print axioms DSymVerif.C07.scaled_curvature_exact
#print axioms DSymVerif.C07.min_hyperbolic_iff
#print axioms DSymVerif.C07.children_exhaustive
#print axioms DSymVerif.C07.curvature_antitone
#print axioms DSymVerif.C07.min_hyperbolic_window
#print axioms DSymVerif.C07.dsyms_output
#print axioms DSymVerif.C07.dsyms_output_base_negative
#print axioms DSymVerif.C07.box_suffices
#print axioms DSymVerif.C07.spec_curvature_exact
