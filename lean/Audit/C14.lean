import DSymVerif.Props.C14
#print axioms DSymVerif.C14.gcdx_spec
#print axioms DSymVerif.C14.gcdx_nonneg_of_nonneg
#print axioms DSymVerif.C14.gcdx_pivot_decreases
#print axioms DSymVerif.C14.vector_is_exponent_sums
#print axioms DSymVerif.C14.vector_panics_outside_range
#print axioms DSymVerif.C14.vector_hom
#print axioms DSymVerif.C14.vector_rotation_conjugation
#print axioms DSymVerif.C14.invariants_rotation_conjugation
#print axioms DSymVerif.C14.chain_step
#print axioms DSymVerif.C14.output_format
#print axioms DSymVerif.C14.invariants_ascending
#print axioms DSymVerif.C14.invariants_no_relators
#print axioms DSymVerif.C14.diagonalize_terminates
#print axioms DSymVerif.C14.invariants_never_diverges
#print axioms DSymVerif.C14.invariants_total
#print axioms DSymVerif.C14.instrumented_model_agrees
