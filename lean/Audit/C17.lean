import DSymVerif.Props.C17
#print axioms DSymVerif.C17.decide_yes_iff
#print axioms DSymVerif.C17.decide_yes_independent
#print axioms DSymVerif.C17.decide_table
#print axioms DSymVerif.C17.reasons_distinct
#print axioms DSymVerif.C17.decide_reasons
#print axioms DSymVerif.C17.decide_needs_cover
#print axioms DSymVerif.C17.prefix_consistent
#print axioms DSymVerif.C17.invariants_table_wellformed
#print axioms DSymVerif.C17.invariants_table_reachable
#print axioms DSymVerif.C17.cubicKey_value
#print axioms DSymVerif.C17.prefix_verdict_is_cascade
#print axioms DSymVerif.C17.yes_carries_certificate
#print axioms DSymVerif.C17.yes_cover_is_a_branchfree_oriented_covering
#print axioms DSymVerif.C17.yes_cover_group_is_Z3_presented
#print axioms DSymVerif.C17.yes_certificate_sound
#print axioms DSymVerif.C17.prefix_total
#print axioms DSymVerif.C17.invariant_group_part_iso_invariant
