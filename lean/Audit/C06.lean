import DSymVerif.Props.C06
#print axioms DSymVerif.C06.backtrack_preorder
#print axioms DSymVerif.C06.more_fuel_same
#print axioms DSymVerif.C06.scan_orbit_gap1_free
#print axioms DSymVerif.C06.implications_never_panic
#print axioms DSymVerif.C06.implications_sound
#print axioms DSymVerif.C06.implications_sound_hyp
#print axioms DSymVerif.C06.store_guard_dead
#print axioms DSymVerif.C06.emitted_complete_commuting
#print axioms DSymVerif.C06.counters_consecutive
#print axioms DSymVerif.C06.check_canonicity_never_panics
#print axioms DSymVerif.C06.generator_never_panics
#print axioms DSymVerif.C06.implications_complete
#print axioms DSymVerif.C06.compare_monotone
#print axioms DSymVerif.C06.emitted_iff_orderly_canonical
#print axioms DSymVerif.C06.compare_is_lexicographic
#print axioms DSymVerif.C06.canonical_unique
#print axioms DSymVerif.C06.generation_irredundant
