import DSymVerif.Props.C18
#print axioms DSymVerif.C18.prc_canonical
#print axioms DSymVerif.C18.prc_frombig_canonical
#print axioms DSymVerif.C18.prc_no_overflow
#print axioms DSymVerif.C18.prc_ring_hom
#print axioms DSymVerif.C18.prc_val_bijective
#print axioms DSymVerif.C18.prime_PRIME
#print axioms DSymVerif.C18.prc_inverse
#print axioms DSymVerif.C18.prc_div_is_field_div
#print axioms DSymVerif.C18.gcdx_spec
#print axioms DSymVerif.C18.clear_col_i64_unimodular
#print axioms DSymVerif.C18.echelon_no_panic
#print axioms DSymVerif.C18.echelon_no_panic_rat
#print axioms DSymVerif.C18.echelon_no_panic_prc
#print axioms DSymVerif.C18.echelon_no_panic_prc_of_int
#print axioms DSymVerif.C18.rank_no_panic
