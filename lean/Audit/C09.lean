import DSymVerif.Props.C09
#print axioms DSymVerif.C09.fg_words_reduced
#print axioms DSymVerif.C09.fg_lookup_reduced
#print axioms DSymVerif.C09.edge_words_inverse
#print axioms DSymVerif.C09.invol_of_bool
#print axioms DSymVerif.C09.edge_words_inverse_den
#print axioms DSymVerif.C09.gen_to_edge_injective
#print axioms DSymVerif.C09.relators_sorted
#print axioms DSymVerif.C09.relators_are_traced_words
#print axioms DSymVerif.C09.cones_are_traced_words
#print axioms DSymVerif.C09.letters_are_generators
#print axioms DSymVerif.C09.fg_total
#print axioms DSymVerif.C09.generator_facet_pairs
#print axioms DSymVerif.C09.textbook_onto_returned
#print axioms DSymVerif.C09.spanning_tree_is_spanning_tree
#print axioms DSymVerif.C09.presents_orbifold_group
#print axioms DSymVerif.C09.returned_group_is_textbook_group
#print axioms DSymVerif.C09.spec_textbook_presents_TGroup
