import DSymVerif.Props.C02
#print axioms DSymVerif.C02.ex2_valid
#print axioms DSymVerif.C02.ex2_far
#print axioms DSymVerif.C02.out_of_range_none_op
#print axioms DSymVerif.C02.out_of_range_none_generic
#print axioms DSymVerif.C02.out_of_range_none
#print axioms DSymVerif.C02.overrides_agree
#print axioms DSymVerif.C02.m_eq_r_mul_v
#print axioms DSymVerif.C02.r_v_m_symm
#print axioms DSymVerif.C02.r_generic_eq_orbitLen
#print axioms DSymVerif.C02.r_generic_partial_eq_orbitLen
#print axioms DSymVerif.C02.r_nonadjacent
#print axioms DSymVerif.C02.collectOrbits_spec
#print axioms DSymVerif.C02.representations_agree
#print axioms DSymVerif.C02.ex2_validSym
#print axioms DSymVerif.C02.queries_total
#print axioms DSymVerif.C02.r_v_m_const_on_orbit
#print axioms DSymVerif.C02.validSym_constructors
