import DSymVerif.Props.C08
#print axioms DSymVerif.C08.frac_norm_correct
#print axioms DSymVerif.C08.frac_arith_exact
#print axioms DSymVerif.C08.curvature_value
#print axioms DSymVerif.C08.asserts_panic
#print axioms DSymVerif.C08.geometry_trichotomy
#print axioms DSymVerif.C08.isSpherical_is_census_of_cover
#print axioms DSymVerif.C08.representations_agree
#print axioms DSymVerif.C08.spherical_census_rule
#print axioms DSymVerif.C08.orbifoldChi_exact
#print axioms DSymVerif.C08.spec_clauses_meaning
#print axioms DSymVerif.C08.bad_iff_census_fails_on_cover
#print axioms DSymVerif.C08.bad_families_chi_pos
#print axioms DSymVerif.C08.good_spherical_chi_pos
