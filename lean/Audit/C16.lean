import DSymVerif.Props.C16
#print axioms DSymVerif.C16.grow_spec
#print axioms DSymVerif.C16.reglue_involutive
#print axioms DSymVerif.C16.reglue_accepts_iff
#print axioms DSymVerif.C16.reglue_complete
#print axioms DSymVerif.C16.reglue_empty
#print axioms DSymVerif.C16.collapse_complete
#print axioms DSymVerif.C16.collapse_complete_partial
#print axioms DSymVerif.C16.cut_face_commutes
#print axioms DSymVerif.C16.cut_tile_commutes
