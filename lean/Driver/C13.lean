import DSymVerif.Driver.Proto
import DSymVerif.Model.FreeWord
import DSymVerif.Model.Cosets
import DSymVerif.Model.Stabilizer
import DSymVerif.Spec.C11
import DSymVerif.Spec.C13

open DSymVerif DSymVerif.Proto

namespace DrvC13
open DSymVerif.Cosets DSymVerif.SpecC11 DSymVerif.SpecC13

/-- group header echoed in every IN line: `name nrGens rels (F order degree images | I)` -/
structure Grp where
  name : String
  n : Nat
  rels : List (List Int)
  fin : Option Finite

def parseGrp : P Grp := do
  let name ← P.tok
  let n ← P.nat
  let rels ← P.intss
  let kind ← P.tok
  match kind with
  | "F" =>
    let order ← P.nat
    let d ← P.nat
    let imgs ← P.natss
    pure { name, n, rels, fin := some { order, d, imgs := (imgs.map List.toArray).toArray } }
  | "I" => pure { name, n, rels, fin := none }
  | _ => failure

def encTab (t : Tab) : String := encIntss (t.toList.map Array.toList)
def encTabOpt : Option Tab → String
  | some t => encTab t
  | none => "0"

def outcomeStr {α} (f : α → String) : Outcome α → String
  | .ok a => f a
  | .err => "MODEL-FUEL"
  | .panic => "PANIC"

/-- raw public view and its BFS renumbering from row 0 -/
def tableStr (n : Nat) (o : Outcome Table) : String :=
  match o with
  | .ok t =>
    match t.view with
    | .ok v => let tv := tabOfView v; s!"{encTab tv} {encTabOpt (renumberFrom tv n 0)}"
    | .err => "MODEL-FUEL"
    | .panic => "PANIC"
  | .err => "MODEL-FUEL"
  | .panic => "PANIC"

def verdict (cs : Clauses) : String :=
  match firstFailure cs with
  | none => ok
  | some c => fail c

def corpus (g : Grp) : Clauses :=
  match g.fin with
  | some f => (corpusClauses g.n g.rels f.d f.imgs f.order).map fun c => (c.1, fun (_ : Unit) => c.2)
  | none => []

def pre (g : Grp) (label : String) (t : Tab) : Clauses :=
  [(s!"precondition-{label}-is-a-valid-table", fun (_ : Unit) => validTable t g.n g.rels [])]

def isPanic (out : Array String) : Bool := out.size == 1 && out[0]! == "PANIC"

def handler : Handler := fun op inp out =>
  let bad := ("-", fail "driver-cannot-parse-input")
  match op with
  | "stab" =>
    match run (do let g ← parseGrp; let t ← P.intss; let b ← P.nat; pure (g, t, b)) inp with
    | none => bad
    | some (g, tl, base) =>
      let t := tabOfView tl
      let m := outcomeStr (fun (r : List (List Int) × List (List Int)) => s!"{encIntss r.1} {encIntss r.2}")
        (Stab.stabilizer base (g.rels.map FW.new) (Table.ofView g.n t))
      match run (do let a ← P.intss; let b ← P.intss; pure (a, b)) out with
      | none =>
        (m, verdict (pre g "input" t ++
          [((if isPanic out then
               (if g.rels.any (fun r => (FW.new r).isEmpty) then "stabilizer-panicked-on-a-presentation-with-an-empty-relator"
                else "stabilizer-panicked-on-a-valid-table")
             else "no-presentation-returned"),
            fun (_ : Unit) => false)]))
      | some (gens, srels) =>
        let sv := verdict (pre g "input" t ++ [("base-is-a-row", fun (_ : Unit) => decide (base < t.size))] ++ corpus g ++
          stabilizerClauses g.n g.rels t base gens srels g.fin)
        -- The property fixes the returned presentation only as *a presentation of the stabiliser*:
        -- which Schreier transversal (spanning tree of the coset table) it is read off is free (the
        -- proved model walks breadth-first; found by the harmless-rewrite study with a depth-first
        -- tree).  Whether the implementation's generators and relators present the same subgroup as
        -- the model's is exactly what the Spec clauses decide (generators fix the base row, coset
        -- enumeration over them reproduces the re-based table, relators hold, and abelianisation and
        -- low-index profile agree with the independent Reidemeister–Schreier presentation, with
        -- which the model's presentation agrees by `stabilizer_spec`).  When they all hold and the
        -- model answered, the implementation's tokens are echoed as the model payload; otherwise
        -- the model's presentation is printed and the orchestrator reports the disagreement.
        let answered := match Stab.stabilizer base (g.rels.map FW.new) (Table.ofView g.n t) with
          | .ok _ => true
          | _ => false
        let m := if sv == ok && answered then joinToks out.toList else m
        (m, sv)
  | "core" =>
    match run (do let g ← parseGrp; let t ← P.intss; let s ← P.nat; pure (g, t, s)) inp with
    | none => bad
    | some (g, tl, seed) =>
      let t := tabOfView tl
      let m := tableStr g.n (Stab.coreTable (Table.ofView g.n t))
      match run (do let a ← P.intss; let b ← P.intss; pure (a, b)) out with
      | none => (m, verdict (pre g "input" t ++ [("no-core-table-returned", fun (_ : Unit) => false)]))
      | some (cl, _) =>
        (m, verdict (pre g "input" t ++ coreClauses g.n g.rels t (tabOfView cl) seed))
  | "inter" =>
    match run (do let g ← parseGrp; let a ← P.intss; let b ← P.intss; let s ← P.nat; pure (g, a, b, s)) inp with
    | none => bad
    | some (g, al, bl, seed) =>
      let ta := tabOfView al
      let tb := tabOfView bl
      let m := tableStr g.n (Stab.intersectionTable (Table.ofView g.n ta) (Table.ofView g.n tb))
      match run (do let a ← P.intss; let b ← P.intss; pure (a, b)) out with
      | none =>
        (m, verdict (pre g "first-input" ta ++ pre g "second-input" tb ++
          [("no-intersection-table-returned", fun (_ : Unit) => false)]))
      | some (xl, _) =>
        (m, verdict (pre g "first-input" ta ++ pre g "second-input" tb ++
          intersectionClauses g.n g.rels ta tb (tabOfView xl) seed))
  | _ => ("-", fail s!"driver-unknown-op-{op}")

end DrvC13

def main : IO Unit := mainWith DrvC13.handler
