import DSymVerif.Driver.SymIO
import DSymVerif.Model.Delaney3d
import DSymVerif.Spec.C15

open DSymVerif DSymVerif.Proto DSymVerif.DS

namespace DrvC15
open DSymVerif.SpecC02 DSymVerif.SpecC15

def specG (s : RawSym) : G := { size := s.size, dim := s.dim, op := s.opAt, v := s.vAt }
def sym03 (s : RawSym) : SpecC03.Sym := { size := s.size, dim := s.dim, op := s.op, v := s.v }

def isPanic (out : Array String) : Bool := out.size == 1 && out[0]! == "PANIC"

def modelStr {α} (f : α → String) : Outcome α → String
  | .ok a => f a
  | .err => "MODEL-FUEL"
  | .panic => "PANIC"

def symOf (s : RawSym) : Outcome DSymData := s.toSym

/-! ### comparison up to isomorphism over the base

The property fixes a toroidal / pseudo-toroidal cover only up to isomorphism over the input symbol:
the numbering of its sheets is the numbering of the rows of a coset table (found by the harmless-
rewrite study: a breadth-first renumbering of the sheets in `covers.rs` is invisible to every clause
of C15).  The model's cover and the implementation's are therefore compared up to an isomorphism
over the base (`SpecC05.isoOver`); when they agree the implementation's own tokens are echoed as the
model payload, otherwise the model's payload is printed and the orchestrator reports the
disagreement.  `drop` = number of leading tokens that must agree literally (the found-flag of `ptc`). -/
def toksOf (s : String) : Array String := ((s.splitOn " ").filter (· != "")).toArray

def isoEcho (g : G) (drop : Nat) (model : String) (out : Array String) : String :=
  let impl := joinToks out.toList
  if model == impl then model else
  let mt := toksOf model
  if mt.size ≤ drop || out.size ≤ drop || mt.extract 0 drop != out.extract 0 drop then model else
  match run P.rawSym (mt.extract drop mt.size), run P.rawSym (out.extract drop out.size) with
  | some m, some c => if DSymVerif.SpecC05.isoOver g (specG m) (specG c) then impl else model
  | _, _ => model

def handler : Handler := fun op inp out =>
  let bad := ("-", fail "driver-cannot-parse-input")
  match op with
  | "tor2" | "tor2_s" =>
    match run (do let s ← P.rawSym; let e ← P.atEnd; if e then pure s else failure) inp with
    | none => bad
    | some s =>
      let m := modelStr encSym (match symOf s with
        | .ok d => D3.toroidalCover d
        | .err => .err
        | .panic => .panic)
      let m := if isPanic out then m else isoEcho (specG s) 0 m out
      if isPanic out then (m, check (clauses2d (specG s) none))
      else
        match run (do let c ← P.rawSym; let e ← P.atEnd; if e then pure c else failure) out with
        | none => (m, fail "no-symbol-returned")
        | some c => (m, check (clauses2d (specG s) (some (specG c))))
  | "ptc" | "ptc_s" | "ptc_corpus" | "ptc_nomodel" =>
    match run (do let s ← P.rawSym; let e ← P.atEnd; if e then pure s else failure) inp with
    | none => bad
    | some s =>
      let m := if op == "ptc_nomodel" then "-" else
        modelStr (fun (o : Option DSymData) => match o with
          | some c => "1 " ++ encSym c
          | none => "0") (match symOf s with
        | .ok d => D3.pseudoToroidalCover d
        | .err => .err
        | .panic => .panic)
      let corpus := op == "ptc_corpus"
      let m := if isPanic out || m == "-" then m else isoEcho (specG s) 1 m out
      if isPanic out then (m, check (clauses3d (specG s) none corpus))
      else
        match run (do
            let f ← P.nat
            if f == 0 then
              let e ← P.atEnd
              if e then pure (none : Option RawSym) else failure
            else
              let c ← P.rawSym
              let e ← P.atEnd
              if e then pure (some c) else failure) out with
        | none => (m, fail "no-answer-returned")
        | some o => (m, check (clauses3d (specG s) (some (o.map specG)) corpus))
  | "ptcinv" =>
    match run (do let k ← P.nat; let vs ← P.rep (k + 2) P.rawSym; let e ← P.atEnd; if e then pure vs else failure) inp with
    | none => bad
    | some vs =>
      match out.toList.mapM String.toInt? with
      | none => ("-", fail "no-answers-returned")
      | some answers =>
        ("-", check ([("harness-error-input-outside-domain", (vs.head?.map (fun s => inDomain3d (specG s))).getD false)] ++
          invarianceClauses (vs.map sym03) answers))
  | _ => ("-", fail s!"driver-unknown-op-{op}")

end DrvC15

def main : IO Unit := mainWith DrvC15.handler
