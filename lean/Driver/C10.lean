import DSymVerif.Driver.Proto
import DSymVerif.Model.FreeWord
import DSymVerif.Spec.C10

open DSymVerif DSymVerif.Proto

namespace DrvC10
open DSymVerif.FW DSymVerif.SpecC10

inductive Instr where
  | push (w : List Int) | mul | mulAssign | inv | pow (m : Int) | comm | rot (i : Int) | letter (x : Int)

def parseProg : Nat → P (List Instr)
  | 0 => pure []
  | n + 1 => do
    let t ← P.tok
    let i ← (match t with
      | "P" => do let w ← P.ints; pure (Instr.push w)
      | "M" => pure Instr.mul
      | "A" => pure Instr.mulAssign
      | "I" => pure Instr.inv
      | "W" => do let m ← P.int; pure (Instr.pow m)
      | "C" => pure Instr.comm
      | "R" => do let i ← P.int; pure (Instr.rot i)
      | "L" => do let x ← P.int; pure (Instr.letter x)
      | _ => failure : P Instr)
    let r ← parseProg n
    pure (i :: r)

/-- model semantics of a stack program -/
def runModel : List Instr → List (List Int) → Option (List Int)
  | [], s :: _ => some s
  | [], [] => none
  | .push w :: r, st => runModel r (FW.new w :: st)
  | .mul :: r, b :: a :: st => runModel r (FW.mul a b :: st)
  | .mulAssign :: r, b :: a :: st => runModel r (FW.mulAssign a b :: st)
  | .inv :: r, a :: st => runModel r (FW.inverse a :: st)
  | .pow m :: r, a :: st => runModel r (FW.raisedTo a m :: st)
  | .comm :: r, b :: a :: st => runModel r (FW.commutator a b :: st)
  | .rot i :: r, a :: st => runModel r (FW.rotated a i :: st)
  | .letter x :: r, a :: st => runModel r (FW.mulLetter a x :: st)
  | _, _ => none

/-- group semantics (raw words, no reduction) of a rotation-free program -/
def runRaw : List Instr → List (List Int) → Option (List Int)
  | [], s :: _ => some s
  | [], [] => none
  | .push w :: r, st => runRaw r (w :: st)
  | .mul :: r, b :: a :: st => runRaw r ((a ++ b) :: st)
  | .mulAssign :: r, b :: a :: st => runRaw r ((a ++ b) :: st)
  | .inv :: r, a :: st => runRaw r (SpecC10.inv a :: st)
  | .pow m :: r, a :: st =>
      runRaw r ((if m < 0 then powRaw (SpecC10.inv a) (-m).toNat else powRaw a m.toNat) :: st)
  | .comm :: r, b :: a :: st => runRaw r ((a ++ b ++ SpecC10.inv a ++ SpecC10.inv b) :: st)
  | .rot _ :: _, _ => none
  | .letter x :: r, a :: st => runRaw r ((a ++ [x]) :: st)
  | _, _ => none

def sgn (o : Ordering) : Int := match o with | .lt => -1 | .eq => 0 | .gt => 1

def outWord (out : Array String) : Option (List Int) := run P.ints out

def wordCase (out : Array String) (model : List Int) (expect : List Int) : String × String :=
  match outWord out with
  | none => (encInts model, fail "no-word-returned")
  | some o => (encInts model, check [("reduced", isReduced o), ("group-value", o == expect)])

def handler : Handler := fun op inp out =>
  let bad := ("-", fail "driver-cannot-parse-input")
  match op with
  | "new" => match run P.ints inp with
    | some a => wordCase out (FW.new a) (reduceSpec a)
    | none => bad
  | "mul_rr" | "mul_rv" | "mul_vr" | "mul_vv" =>
    match run (do let a ← P.ints; let b ← P.ints; pure (a, b)) inp with
    | some (a, b) => wordCase out (FW.mul (FW.new a) (FW.new b)) (reduceSpec (a ++ b))
    | none => bad
  | "mulassign" =>
    match run (do let a ← P.ints; let b ← P.ints; pure (a, b)) inp with
    | some (a, b) => wordCase out (FW.mulAssign (FW.new a) (FW.new b)) (reduceSpec (a ++ b))
    | none => bad
  | "mulletter_r" | "mulletter_v" =>
    match run (do let a ← P.ints; let x ← P.int; pure (a, x)) inp with
    | some (a, x) => wordCase out (FW.mulLetter (FW.new a) x) (reduceSpec (a ++ [x]))
    | none => bad
  | "inverse" => match run P.ints inp with
    | some a => wordCase out (FW.inverse (FW.new a)) (reduceSpec (SpecC10.inv a))
    | none => bad
  | "pow" =>
    match run (do let a ← P.ints; let m ← P.int; pure (a, m)) inp with
    | some (a, m) =>
      wordCase out (FW.raisedTo (FW.new a) m)
        (reduceSpec (if m < 0 then powRaw (SpecC10.inv a) (-m).toNat else powRaw a m.toNat))
    | none => bad
  | "comm" =>
    match run (do let a ← P.ints; let b ← P.ints; pure (a, b)) inp with
    | some (a, b) =>
      wordCase out (FW.commutator (FW.new a) (FW.new b))
        (reduceSpec (a ++ b ++ SpecC10.inv a ++ SpecC10.inv b))
    | none => bad
  | "rot" =>
    match run (do let a ← P.ints; let i ← P.int; pure (a, i)) inp with
    | some (a, i) =>
      let r := reduceSpec a
      let n : Int := r.length
      let expect := if n = 0 then [] else reduceSpec (rot r (i.emod n).toNat)
      wordCase out (FW.rotated (FW.new a) i) expect
    | none => bad
  | "index" =>
    match run (do let a ← P.ints; let k ← P.nat; pure (a, k)) inp with
    | some (a, k) =>
      let m := match FW.index (FW.new a) k with
        | .ok x => toString x
        | _ => "PANIC"
      let expect := letterAt (reduceSpec a) k
      let got : Option (Option Int) := match out.toList with
        | ["PANIC"] => some none
        | [t] => t.toInt?.map some
        | _ => none
      match got with
      | none => (m, fail "no-letter-or-panic-returned")
      | some o => (m, check [
          ("index-reads-kth-letter-of-the-reduced-word", expect.isNone || o == expect),
          ("no-letter-beyond-the-end", expect.isSome || o == none)])
    | none => bad
  | "cmp3" =>
    match run (do let a ← P.ints; let b ← P.ints; let c ← P.ints; pure (a, b, c)) inp with
    | some (a, b, c) =>
      let (a', b', c') := (FW.new a, FW.new b, FW.new c)
      let m := [sgn (FW.cmp a' b'), sgn (FW.cmp b' a'), sgn (FW.cmp b' c'), sgn (FW.cmp a' c'),
                if a' == b' then 1 else 0]
      match out.toList.map String.toInt? with
      | [some ab, some ba, some bc, some ac, some eqab] =>
        let ra := reduceSpec a
        let rb := reduceSpec b
        (intsToString m, check [
          ("antisymmetric", ab == -ba),
          ("eq-iff-same-group-element", (ab == 0) == (ra == rb) && (eqab == 1) == (ra == rb)),
          ("transitive", !(ab ≤ 0 && bc ≤ 0) || ac ≤ 0),
          ("transitive-strict", !(ab < 0 && bc ≤ 0 || ab ≤ 0 && bc < 0) || ac < 0),
          ("total", ab == -1 || ab == 0 || ab == 1)])
      | _ => (intsToString m, fail "no-orderings-returned")
    | none => bad
  | "relperms" => match run P.ints inp with
    | some a =>
      let m := FW.relatorPermutations (FW.new a)
      match run P.intss out with
      | some o =>
        (encIntss m, check [
          ("all-reduced", o.all isReduced),
          ("exactly-rotations-and-inverses", sameSet o (relatorSet (reduceSpec a))),
          ("no-repeats", o.eraseDups.length == o.length)])
      | none => (encIntss m, fail "no-set-returned")
    | none => bad
  | "relrep" => match run P.ints inp with
    | some a =>
      let m := FW.relatorRepresentative (FW.new a)
      match outWord out with
      | some o =>
        let s := relatorSet (reduceSpec a)
        (encInts m, check [
          ("reduced", isReduced o),
          ("member-of-rotations-and-inverses", s.contains o),
          ("least", s.all (wordLe o ·))])
      | none => (encInts m, fail "no-word-returned")
    | none => bad
  | "relrep_orbit" => match run P.ints inp with
    | some a =>
      let a' := FW.new a
      let vars := if a'.isEmpty then [a'] else
        (List.range a'.length).flatMap (fun (k : Nat) =>
          let w := FW.rotated a' (k : Int); [w, FW.inverse w])
      let m := vars.map FW.relatorRepresentative
      match run P.intss out with
      | some o =>
        let cyc := isCyclicallyReduced (reduceSpec a)
        (encIntss m, check [
          ("invariant-under-rotation-and-inversion",
            !cyc || (match o with | [] => false | x :: r => r.all (· == x)))])
      | none => (encIntss m, fail "no-list-returned")
    | none => bad
  | "prog" =>
    match run (do let n ← P.nat; parseProg n) inp with
    | some prog =>
      match runModel prog [] with
      | none => bad
      | some m =>
        match outWord out with
        | some o =>
          let grp := match runRaw prog [] with
            | some raw => o == reduceSpec raw
            | none => true
          (encInts m, check [("reduced", isReduced o), ("group-value", grp)])
        | none => (encInts m, fail "no-word-returned")
    | none => bad
  | _ => ("-", fail s!"driver-unknown-op-{op}")

end DrvC10

def main : IO Unit := mainWith DrvC10.handler
