import DSymVerif.Driver.Proto
import DSymVerif.Model.Partition
import DSymVerif.Spec.C20

/-!
Driver for C20.  One case = one history.
  IN  id <type> nops op…     op ::= U k a b | F k a | C k len e… | L i j
  OUT id obs…                one per F (`r`) / per C (`ncls len e… len e…`), in order
<type> ∈ int | gen_usize | gen_pair | gen_string | xint | xgen (exhaustive universes);
keys of the generic partition travel as integers (the harness maps them).
-/
open DSymVerif DSymVerif.Proto

namespace DrvC20
open DSymVerif.Part DSymVerif.SpecC20

def parseOps : Nat → P (List Op)
  | 0 => pure []
  | n + 1 => do
    let t ← P.tok
    let o ← (match t with
      | "U" => do let k ← P.nat; let a ← P.nat; let b ← P.nat; pure (Op.unite k a b)
      | "F" => do let k ← P.nat; let a ← P.nat; pure (Op.find k a)
      | "C" => do let k ← P.nat; let es ← P.nats; pure (Op.classes k es)
      | "L" => do let i ← P.nat; let j ← P.nat; pure (Op.clone i j)
      | _ => failure : P Op)
    let r ← parseOps n
    pure (o :: r)

/-- pair every operation with the implementation's answer -/
def parseEvents : List Op → P (List Ev)
  | [] => pure []
  | .unite k a b :: r => do let es ← parseEvents r; pure (Ev.unite k a b :: es)
  | .clone i j :: r => do let es ← parseEvents r; pure (Ev.clone i j :: es)
  | .find k a :: r => do let x ← P.nat; let es ← parseEvents r; pure (Ev.find k a x :: es)
  | .classes k elms :: r => do
    let css ← P.natss; let es ← parseEvents r; pure (Ev.classes k elms css :: es)

def encObs : Obs → String
  | .rep r => toString r
  | .classes css => encNatss css

def modelPayload {S} (I : Impl S) (ops : List Op) : String :=
  match run I Store.init ops with
  | .ok (_, obs) => if obs.isEmpty then "-" else joinToks (obs.map encObs)
  | .err => "DIVERGE"
  | .panic => "PANIC"

def handler : Handler := fun op inp out =>
  let bad := ("-", fail "driver-cannot-parse-input")
  match run (do let n ← P.nat; parseOps n) inp with
  | none => bad
  | some ops =>
    let m := match op with
      | "int" | "xint" => some (modelPayload intImpl ops)
      | "gen_usize" | "gen_pair" | "gen_string" | "xgen" => some (modelPayload genImpl ops)
      | _ => none
    match m with
    | none => ("-", fail s!"driver-unknown-op-{op}")
    | some m =>
      if out == #["PANIC"] then (m, fail "implementation-panicked")
      else
        match run (do let es ← parseEvents ops; let e ← P.atEnd; pure (es, e)) out with
        | some (evs, true) =>
          (m, match SpecC20.check evs with
              | none => ok
              | some c => fail c)
        | _ => (m, fail "answers-do-not-match-the-operations")

end DrvC20

def main : IO Unit := mainWith DrvC20.handler
