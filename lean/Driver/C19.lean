import DSymVerif.Driver.Proto
import DSymVerif.Model.Cutsets
import DSymVerif.Spec.C19

/-!
Driver for C19 (minimum cuts).

ops  `ec` `ecu` `vc` `vcu`          one (graph, source, sink) per case
       IN  s t <2m> v1 w1 … vm wm
       OUT <2c> cut edges flat, sorted   <i> inside, sorted           (edge cuts)
           <c>  cut vertices sorted      <i> inside, sorted           (vertex cuts)
     `all_ec` `all_ecu` `all_vc` `all_vcu`   one graph, every ordered pair of the domain
       IN  <2m> v1 w1 … vm wm
       OUT <npairs> then per pair: s t <cut> <inside> as above

For every pair the driver
  * runs the model (payload, compared token-wise with the implementation's answer),
  * decomposes the *model's* final flow into paths and lets the Spec's Boolean
    `validPaths…` judge them — the minimality certificate of `Props/C19.lean`,
  * evaluates the Spec clauses on the implementation's cut / inside set.
-/

open DSymVerif DSymVerif.Proto

namespace DrvC19
open DSymVerif.SpecC19

abbrev Edge := Nat × Nat

/-! ### small utilities (driver only) -/

def insSorted {α} (lt : α → α → Bool) (x : α) : List α → List α
  | [] => [x]
  | y :: ys => if lt y x then y :: insSorted lt x ys else x :: y :: ys

def sortBy {α} (lt : α → α → Bool) (l : List α) : List α := l.foldl (fun acc x => insSorted lt x acc) []

def edgeLt (a b : Edge) : Bool := a.1 < b.1 || (a.1 == b.1 && a.2 < b.2)

def sortNats (l : List Nat) : List Nat := sortBy (fun a b => decide (a < b)) l
def sortEdges (l : List Edge) : List Edge := sortBy edgeLt l

def pairUp : List Nat → Option (List Edge)
  | [] => some []
  | [_] => none
  | a :: b :: r => (pairUp r).map ((a, b) :: ·)

def flat (l : List Edge) : List Nat := l.flatMap (fun e => [e.1, e.2])

def P.edges : P (List Edge) := do
  let l ← P.nats
  match pairUp l with
  | some es => pure es
  | none => failure

/-! ### flow decomposition (untrusted: its result is judged by `validPaths…`) -/

/-- breadth-first parents in the digraph `F`, starting from the queue -/
def bfsParents (F : List Edge) : Nat → List Nat → List (Nat × Nat) → List (Nat × Nat)
  | 0, _, par => par
  | _ + 1, [], par => par
  | fuel + 1, v :: q, par =>
    let new := ((F.filter (fun e => e.1 == v && !(par.any (·.1 == e.2)))).map (·.2)).eraseDups
    bfsParents F fuel (q ++ new) (par ++ new.map (fun w => (w, v)))

def walkBack (par : List (Nat × Nat)) (s : Nat) : Nat → Nat → List Nat → Option (List Nat)
  | 0, _, _ => none
  | fuel + 1, w, acc =>
    if w == s then some (s :: acc) else
    match par.lookup w with
    | some v => walkBack par s fuel v (w :: acc)
    | none => none

/-- a simple path from `s` to `t` inside `F`, if any -/
def findPath (F : List Edge) (s t : Nat) : Option (List Nat) :=
  let par := bfsParents F (2 * F.length + 2) [s] [(s, s)]
  if s != t && par.any (·.1 == t) then walkBack par s (par.length + 1) t [] else none

/-- peel simple `s`–`t` paths off the flow until none is left -/
def decompose (s t : Nat) : Nat → List Edge → List (List Nat)
  | 0, _ => []
  | fuel + 1, F =>
    match findPath F s t with
    | none => []
    | some p => p :: decompose s t fuel (F.filter (fun e => !(walkEdges p).contains e))

/-- paths of the split graph read back in the original graph: keep the in-copies -/
def unsplit (offset s : Nat) (p : List Nat) : List Nat := s :: p.filter (· < offset)

/-! ### one pair -/

def modelTag {α} : Outcome α → String
  | .ok _ => "OK"
  | .err => "FUEL"
  | .panic => "PANIC"

structure Verdict where
  model : String
  clauses : List (String × Bool)

def edgeOutput (cut : List Edge) (inside : List Nat) : String :=
  s!"{encNats (flat (sortEdges cut))} {encNats (sortNats inside)}"

def vertexOutput (cut inside : List Nat) : String :=
  s!"{encNats (sortNats cut)} {encNats (sortNats inside)}"

/-- directed edge cut -/
def judgeEC (G : List Edge) (s t : Nat) (out : Option (List Edge × List Nat)) : Verdict :=
  let m := Cut.minEdgeCut G s t
  let (payload, paths) := match m with
    | .ok r => (edgeOutput r.cut r.inside, decompose s t (r.flow.length + 1) r.flow)
    | o => (modelTag o, [])
  match out with
  | none => { model := payload, clauses := [("in-domain", inDomainE G s t), ("returns-a-cut", false)] }
  | some (cut, inside) =>
    { model := payload
      clauses := [
        ("in-domain", inDomainE G s t),
        ("separates", separatesE G cut s t),
        ("no-repeats", nodupEdge cut),
        ("minimum-certificate", validPathsE G s t paths && paths.length == cut.length),
        ("minimum-bruteforce", (dedup G).length > 12 || noSmallerE G s t cut.length),
        ("cut-edges-in-graph", cut.all (G.contains ·)),
        ("inside-is-reachable-set", insideOkE G cut s inside)] }

/-- undirected edge cut; cut edges are unordered, both sides send them as (min,max) -/
def judgeECU (G : List Edge) (s t : Nat) (out : Option (List Edge × List Nat)) : Verdict :=
  let m := Cut.minEdgeCutUndirected G s t
  let (payload, paths) := match m with
    | .ok r => (edgeOutput (r.cut.map norm) r.inside, decompose s t (r.flow.length + 1) r.flow)
    | o => (modelTag o, [])
  match out with
  | none => { model := payload, clauses := [("in-domain", inDomainE G s t), ("returns-a-cut", false)] }
  | some (cut, inside) =>
    { model := payload
      clauses := [
        ("in-domain", inDomainE G s t),
        ("separates", separatesU G cut s t),
        ("no-repeats", nodupEdge (cut.map norm)),
        ("minimum-certificate", validPathsU G s t paths && paths.length == cut.length),
        ("minimum-bruteforce", (dedup (G.map norm)).length > 12 || noSmallerU G s t cut.length),
        ("cut-edges-in-graph", cut.all ((sym G).contains ·)),
        ("inside-is-reachable-set", insideOkU G cut s inside)] }

/-- vertex cut in the digraph `G` (`und`: the entry point is the undirected one, `G` is
    then the symmetric closure of the input for the Spec) -/
def judgeVC (und : Bool) (Gin : List Edge) (s t : Nat) (out : Option (List Nat × List Nat)) : Verdict :=
  let m := if und then Cut.minVertexCutUndirected Gin s t else Cut.minVertexCut Gin s t
  let G := if und then sym Gin else Gin
  let (payload, paths) := match m with
    | .ok r => (vertexOutput r.cut r.inside,
                (decompose (s + r.offset) t (r.flow.length + 1) r.flow).map (unsplit r.offset s))
    | o => (modelTag o, [])
  let dom := if und then inDomainVU Gin s t else inDomainV Gin s t
  match out with
  | none => { model := payload, clauses := [("in-domain", dom), ("returns-a-cut", false)] }
  | some (cut, inside) =>
    { model := payload
      clauses := [
        ("in-domain", dom),
        ("no-source-or-sink-in-cut", !cut.contains s && !cut.contains t),
        ("separates", separatesV G cut s t),
        ("no-repeats", nodupNat cut),
        ("minimum-certificate", validPathsV G s t paths && paths.length == cut.length),
        ("minimum-bruteforce", (dedup (endpoints G)).length > 7 || noSmallerV G s t cut.length),
        ("inside-is-reachable-set", insideOkV G cut s inside)] }

/-! ### parsing of answers -/

def P.edgeAnswer : P (List Edge × List Nat) := do
  let c ← P.edges; let i ← P.nats; pure (c, i)

def P.vertexAnswer : P (List Nat × List Nat) := do
  let c ← P.nats; let i ← P.nats; pure (c, i)

inductive Kind where | ec | ecu | vc | vcu
  deriving BEq

/-- parse one answer of kind `k` (or `PANIC`) and judge it -/
def judgeOne (k : Kind) (G : List Edge) (s t : Nat) : P Verdict := fun c =>
  let panicked := c.i < c.a.size && c.a[c.i]! == "PANIC"
  match k with
  | .ec | .ecu =>
    let f := if k == .ec then judgeEC else judgeECU
    if panicked then some (f G s t none, { c with i := c.i + 1 }) else
    match P.edgeAnswer c with
    | some (a, c') => some (f G s t (some a), c')
    | none => none
  | .vc | .vcu =>
    let und := k == .vcu
    if panicked then some (judgeVC und G s t none, { c with i := c.i + 1 }) else
    match P.vertexAnswer c with
    | some (a, c') => some (judgeVC und G s t (some a), c')
    | none => none

def firstFail (cl : List (String × Bool)) : Option String := (cl.find? (fun c => !c.2)).map (·.1)

/-- sink candidates, as in the harness: the endpoints, then the smallest label below the
    largest endpoint that occurs in no edge (if any) and one label beyond it -/
def sinks (G : List Edge) : List Nat :=
  let V := sortNats (dedup (endpoints G))
  match V.getLast? with
  | none => V
  | some mx =>
    V ++ (match (List.range mx).find? (fun x => !V.contains x) with
          | some g => [g]
          | none => []) ++ [mx + 2]

/-- ordered pairs of the domain, in the order the harness enumerates them -/
def domainPairs (k : Kind) (G : List Edge) : List (Nat × Nat) :=
  let V := sortNats (dedup (endpoints G))
  let T := sinks G
  V.flatMap (fun s => (T.filter (fun t =>
    match k with
    | .ec | .ecu => inDomainE G s t
    | .vc => inDomainV G s t
    | .vcu => inDomainVU G s t)).map (fun t => (s, t)))

def parseAll (k : Kind) (G : List Edge) : Nat → P (List (Nat × Nat × Verdict))
  | 0 => pure []
  | n + 1 => do
    let s ← P.nat
    let t ← P.nat
    let v ← judgeOne k G s t
    let r ← parseAll k G n
    pure ((s, t, v) :: r)

def single (k : Kind) (inp out : Array String) : String × String :=
  match run (do let s ← P.nat; let t ← P.nat; let g ← P.edges; pure (s, t, g)) inp with
  | none => ("-", fail "driver-cannot-parse-input")
  | some (s, t, G) =>
    match run (judgeOne k G s t) out with
    | none => ("-", fail "driver-cannot-parse-output")
    | some v => (v.model, check v.clauses)

def batch (k : Kind) (inp out : Array String) : String × String :=
  match run P.edges inp with
  | none => ("-", fail "driver-cannot-parse-input")
  | some G =>
    match run (do let n ← P.nat; let r ← parseAll k G n; pure r) out with
    | none => ("-", fail "driver-cannot-parse-output")
    | some rs =>
      let payload := joinToks (toString rs.length :: rs.map (fun (s, t, v) => s!"{s} {t} {v.model}"))
      let pairsOk := rs.map (fun (s, t, _) => (s, t)) == domainPairs k G
      let firstBad := rs.findSome? (fun (_, _, v) => firstFail v.clauses)
      (payload,
        if !pairsOk then fail "every-pair-of-the-domain-answered"
        else match firstBad with
          | some c => fail c
          | none => ok)

def handler : Handler := fun op inp out =>
  match op with
  | "ec" => single .ec inp out
  | "ecu" => single .ecu inp out
  | "vc" => single .vc inp out
  | "vcu" => single .vcu inp out
  | "all_ec" => batch .ec inp out
  | "all_ecu" => batch .ecu inp out
  | "all_vc" => batch .vc inp out
  | "all_vcu" => batch .vcu inp out
  | _ => ("-", fail s!"driver-unknown-op-{op}")

end DrvC19

def main : IO Unit := mainWith DrvC19.handler
