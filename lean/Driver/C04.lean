import DSymVerif.Driver.C04View
import DSymVerif.Model.Morphism

open DSymVerif DSymVerif.Proto DSymVerif.DS

namespace DrvC04
open DSymVerif.Mor DSymVerif.SpecC04

open DSymVerif.DrvC04View (specS)

/-- Model view: kind 0 = `PartialDSet`, kind 1 = `PartialDSym` (`none` = the modelled
    construction or a degree query panics) -/
def modelMV (kind : Nat) (s : RawSym) : Option MV :=
  if kind == 0 then some (ofSet s.dsetData)
  else match s.toSym with
    | .ok y => if mPanics y then none else some (ofSym y)
    | _ => none

def encMap (f : Array Nat) : String := encNats f.toList

def encOutcomeMap (o : Outcome (Array Nat)) : String :=
  match o with
  | .ok f => encNats f.toList
  | .err => "0"
  | .panic => "PANIC"

/-- `find(&d)` for the listed keys, in order, on the union–find (state threaded through the
    `UnsafeCell`) -/
def findAll : UF → List Nat → Option (UF × List Nat)
  | g, [] => some (g, [])
  | g, d :: ds =>
    match ufFind g d with
    | .ok (g1, r) => (findAll g1 ds).map fun (g2, rs) => (g2, r :: rs)
    | _ => none

/-- labels of 1..n by first member of the class, from the representatives -/
def firstLabels (reps : List Nat) : List Nat :=
  let a := reps.toArray
  (List.range a.size).map fun d0 =>
    match (List.range d0).find? (fun e0 => a.getD e0 0 == a.getD d0 0) with
    | some e0 => e0 + 1
    | none => d0 + 1

/-- what the harness reads off a `Partition<usize>` through its public API, in the same order of
    calls: `find` of 1..n, of n + 1 and of 0, then `classes(&[1..=n])` -/
def rawPartition (n : Nat) (g : UF) : Option (List Nat × List Nat × List (List Nat)) :=
  let elms := (List.range n).map (· + 1)
  match findAll g elms with
  | some (g1, reps) =>
    match findAll g1 [n + 1, 0] with
    | some (g2, probes) =>
      match DSymVerif.Part.classes DSymVerif.Part.genImpl g2 elms with
      | .ok (_, cls) => some (reps, probes, cls)
      | _ => none
    | none => none
  | none => none

def b2n (b : Bool) : Nat := if b then 1 else 0

/-- input domain of the property: connected complete symbols -/
def domainClauses (name : String) (r : RawSym) (a : S) (sym : Bool) : List (String × Bool) :=
  [ (s!"{name}-in-domain-of-the-theorems", !sym || DrvC04View.inDomain r),
    (s!"{name}-is-a-complete-d-set", a.valid),
    (s!"{name}-is-connected", a.connected),
    (s!"{name}-branching-defined", !sym || (a.branched && a.vConsistent)) ]

def minimgClauses (r : RawSym) (a : S) (flag : Nat) (o : S) : List (String × Bool) :=
  let ca := classes a
  domainClauses "input" r a true ++
  [ ("result-is-a-complete-symbol", o.valid && o.branched && o.vConsistent),
    ("input-maps-onto-result-by-a-morphism", mapsOnto a o),
    ("result-size-eq-number-of-coarsest-congruence-classes", o.size == ca),
    ("result-admits-no-proper-quotient", classes o == o.size),
    ("is_minimal-iff-classes-eq-size", (flag == 1) == (ca == a.size)) ]

/-- the symbol the implementation returned (transmitted tables `o`) is isomorphic to the model's
    symbol `r`: same size and dimension and, for some chamber e of `o`, the model's `morphism`
    from `r` with base image e exists and is injective on 1..size (a bijection commuting with
    every operation and preserving every degree).  The property does not pin the numbering of the
    minimal image, so the images are compared up to isomorphism: when this holds the
    implementation's own tokens are echoed as the model payload, otherwise the model's symbol is
    printed and the orchestrator reports the disagreement with both sides. -/
def isoImage (r : DSymData) (o : RawSym) : Bool :=
  match o.toSym with
  | .ok y =>
    !mPanics y && !mPanics r && r.size == y.size && r.dim == y.dim &&
    (List.range y.size).any fun e0 =>
      match morphism (ofSym r) (ofSym y) (e0 + 1) with
      | .ok f =>
        let img := (List.range r.size).map fun d0 => f.getD (d0 + 1) 0
        img.all (fun x => 1 ≤ x && x ≤ y.size) &&
          (List.range r.size).all fun k => (List.range k).all fun j => img.getD k 0 != img.getD j 0
      | _ => false
  | _ => false

def parseMaps (out : Array String) : Option (List (List Nat)) :=
  run (do let x ← P.natss; let e ← P.atEnd; if e then pure x else failure) out

/-- ops with suffix `_s`: the same question asked of the same tables held in another
    implementation of the `DSet` / `DSym` traits (`SimpleDSym`, `SimpleDSet`, generator output);
    same model, same Spec -/
def handler : Handler := fun op inp out =>
  let bad := ("-", fail "driver-cannot-parse-input")
  match op with
  | "minimg" | "minimg_s" =>
    match run P.rawSym inp with
    | none => bad
    | some s =>
      let res : Option (Bool × DSymData) := match s.toSym with
        | .ok y =>
          if mPanics y then none else
          (match isMinimalUF (ofSym y), minimalImage y with
           | .ok fl, .ok r => some (fl, r)
           | _, _ => none)
        | _ => none
      let model : String := match res with
        | some (fl, r) => s!"{b2n fl} {encSym r}"
        | none => "PANIC"
      match run (do let f ← P.nat; let o ← P.rawSym; let e ← P.atEnd; if e then pure (f, o) else failure) out with
      | some (flag, o) =>
        -- flag compared exactly, image up to isomorphism
        let model := match res with
          | some (fl, r) => if b2n fl == flag && isoImage r o then joinToks out.toList else model
          | none => model
        (model, check (minimgClauses s (specS s) flag (specS o)))
      | none => (model, fail "no-minimal-image-returned")
  | "ismin" | "ismin_s" =>
    match run (do let k ← P.nat; let s ← P.rawSym; pure (k, s)) inp with
    | none => bad
    | some (kind, s) =>
      let model : String := match modelMV kind s with
        | some mv => (match isMinimalUF mv with | .ok fl => toString (b2n fl) | _ => "PANIC")
        | none => "PANIC"
      let a := specS s
      match out.toList.map String.toNat? with
      | [some flag] =>
        (model, check (domainClauses "input" s a (kind == 1) ++
          [("is_minimal-iff-classes-eq-size", (flag == 1) == (classes a == a.size))]))
      | _ => (model, fail "no-flag-returned")
  | "auts" | "auts_s" =>
    match run (do let k ← P.nat; let s ← P.rawSym; pure (k, s)) inp with
    | none => bad
    | some (kind, s) =>
      let model : String := match modelMV kind s with
        | some mv => (match automorphisms mv with
          | .ok fs => encNatss (fs.map Array.toList)
          | _ => "PANIC")
        | none => "PANIC"
      let a := specS s
      match parseMaps out with
      | none => (model, fail "no-automorphism-list-returned")
      | some fs =>
        let fs := fs.map List.toArray
        let brute := autsBrute a
        (model, check (domainClauses "input" s a (kind == 1) ++
          [ ("every-listed-map-is-a-degree-preserving-op-commuting-bijection",
               fs.all fun f => isMorphism a a f && injective a f && surjective a a f),
            ("every-such-bijection-is-listed", brute.all fun g => fs.any fun f => mapEq a.size f g),
            ("no-map-listed-twice",
               let fa := fs.toArray
               (List.range fa.size).all fun k => (List.range k).all fun j =>
                 !(mapEq a.size (fa.getD k #[]) (fa.getD j #[]))) ]))
  | "morph" | "morph_s" =>
    match run (do let k ← P.nat; let a ← P.rawSym; let b ← P.rawSym; pure (k, a, b)) inp with
    | none => bad
    | some (kind, ra, rb) =>
      let es := List.range (rb.size + 2)
      let model : String := match modelMV kind ra, modelMV kind rb with
        | some ma, some mb =>
          let rs := es.map fun e => morphism ma mb e
          if rs.any (fun r => match r with | .panic => true | _ => false) then "PANIC"
          else joinToks (toString rs.length :: rs.map encOutcomeMap)
        | _, _ => "PANIC"
      let a := specS ra
      let b := specS rb
      match parseMaps out with
      | none => (model, fail "no-morphism-answers-returned")
      | some fs =>
        let ans := fs.toArray
        (model, check (domainClauses "source" ra a (kind == 1) ++
          [ ("target-in-domain-of-the-theorems", kind == 0 || DrvC04View.inDomain rb),
            ("target-is-a-complete-d-set", b.valid && (kind == 0 || (b.branched && b.vConsistent))),
            ("one-answer-per-base-image", fs.length == es.length),
            ("returned-map-is-a-morphism-with-the-base-image", es.all fun e =>
               match ans.getD e [] with
               | [] => true
               | f => isMorphism a b f.toArray && f.toArray.getD 1 0 == e && f.length == a.size + 1),
            ("some-iff-a-morphism-with-that-base-image-exists", es.all fun e =>
               (search a b e).isSome == !(ans.getD e []).isEmpty) ]))
  | "cover" | "cover_s" =>
    match run (do let a ← P.rawSym; let c ← P.rawSym; pure (a, c)) inp with
    | none => bad
    | some (ra, rc) =>
      let one (s : RawSym) : Option DSymData := match s.toSym with
        | .ok y => if mPanics y then none else
          (match minimalImage y with | .ok r => some r | _ => none)
        | _ => none
      let mx := one ra
      let my := one rc
      let model : String := match mx, my with
        | some x, some y => s!"{encSym x} {encSym y}"
        | _, _ => "PANIC"
      let a := specS ra
      let c := specS rc
      match run (do let x ← P.rawSym; let y ← P.rawSym; let e ← P.atEnd; if e then pure (x, y) else failure) out with
      | none => (model, fail "no-minimal-images-returned")
      | some (ox, oy) =>
        let x := specS ox
        let y := specS oy
        -- both images up to isomorphism
        let model := match mx, my with
          | some ix, some iy => if isoImage ix ox && isoImage iy oy then joinToks out.toList else model
          | _, _ => model
        (model, check (domainClauses "base" ra a true ++ domainClauses "cover" rc c true ++
          [ ("cover-maps-onto-base-by-a-morphism", mapsOnto c a),
            ("minimal-image-of-base-is-a-connected-symbol", x.valid && x.connected && x.branched),
            ("minimal-image-of-cover-is-a-connected-symbol", y.valid && y.connected && y.branched),
            ("base-maps-onto-its-minimal-image", mapsOnto a x),
            ("cover-maps-onto-its-minimal-image", mapsOnto c y),
            ("minimal-images-of-symbol-and-cover-isomorphic", isomorphic x y) ]))
  | "fold" | "fold_s" =>
    match run (do let k ← P.nat; let s ← P.rawSym; let n ← P.nat
                  let ps ← P.rep n (do let d ← P.nat; let e ← P.nat; pure (d, e)); pure (k, s, ps)) inp with
    | none => bad
    | some (kind, s, pairs) =>
      let model : String := match modelMV kind s with
        | some mv =>
          let r := pairs.foldl (fun (acc : Option (UF × List Nat)) (de : Nat × Nat) =>
            match acc with
            | none => none
            | some (p, flags) =>
              match foldUF mv p de.1 de.2 with
              | .ok q => some (q, flags ++ [1])
              | .err => some (p, flags ++ [0])
              | .panic => none) (some (UF.new, []))
          (match r with
           | some (p, flags) =>
             (match rawPartition s.size p with
              | some (reps, probes, cls) =>
                joinToks [natsToString (flags ++ firstLabels reps ++ reps ++ probes), encNatss cls]
              | none => "PANIC")
           | none => "PANIC")
        | none => "PANIC"
      let a := specS s
      -- flags, first-member labels | representatives, two probes, class listing (the raw partition
      -- is compared with the model exactly; the Spec reads the flags and the labels)
      match run (do let fl ← P.rep pairs.length P.nat; let lb ← P.rep s.size P.nat
                    let _ ← P.rep (s.size + 2) P.nat; let _ ← P.natss
                    let e ← P.atEnd; if e then pure (fl, lb) else failure) out with
      | none => (model, fail "no-fold-answers-returned")
      | some (flags, lbs) =>
      let labels := (0 :: lbs).toArray
      -- oracle: successively, the congruence generated by the partition so far and the pair,
      -- accepted iff it is degree-respecting
      let (expLabels, expFlags) := pairs.foldl (fun (acc : Array Nat × List Nat) (de : Nat × Nat) =>
        let g := generated a acc.1 de.1 de.2
        if degreeRespecting a g then (g, acc.2 ++ [1]) else (acc.1, acc.2 ++ [0])) (discrete a.size, [])
      (model, check (domainClauses "input" s a (kind == 1) ++
        [ ("pairs-in-range", pairs.all fun de => a.inRange de.1 && a.inRange de.2),
          ("fold-succeeds-iff-generated-congruence-respects-degrees", flags == expFlags),
          ("fold-result-is-the-generated-congruence", labels == expLabels) ]))
  | _ => ("-", fail s!"driver-unknown-op-{op}")

end DrvC04

def main : IO Unit := mainWith DrvC04.handler
