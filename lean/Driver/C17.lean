import DSymVerif.Driver.SymIO
import DSymVerif.Model.Euclidicity
import DSymVerif.Spec.C17

open DSymVerif DSymVerif.Proto DSymVerif.DS

namespace DrvC17
open DSymVerif.SpecC02 DSymVerif.SpecC15 DSymVerif.SpecC17

def specG (s : RawSym) : G := { size := s.size, dim := s.dim, op := s.opAt, v := s.vAt }
def sym03 (s : RawSym) : SpecC03.Sym := { size := s.size, dim := s.dim, op := s.op, v := s.v }

def isPanic (out : Array String) : Bool := out.size == 1 && out[0]! == "PANIC"

def modelStr {α} (f : α → String) : Outcome α → String
  | .ok a => f a
  | .err => "MODEL-FUEL"
  | .panic => "PANIC"

def withSym {α} (s : RawSym) (f : DSymData → Outcome α) : Outcome α :=
  match s.toSym with
  | .ok d => f d
  | .err => .err
  | .panic => .panic

def encGraph (g : List String × List (Nat × Nat)) : String :=
  joinToks ([toString g.1.length] ++ g.1 ++ [toString g.2.length] ++ g.2.flatMap fun e => [toString e.1, toString e.2])

def parseClasses (out : Array String) : Option (List Cls) := out.toList.mapM Cls.ofString

def handler : Handler := fun op inp out =>
  let bad := ("-", fail "driver-cannot-parse-input")
  match op with
  | "euc" | "euc_corpus" =>
    match run (do let deep ← P.nat; let _rep ← P.nat; let s ← P.rawSym; let e ← P.atEnd
                  if e then pure (deep, s) else failure) inp with
    | none => bad
    | some (deep, s) =>
      let pre := withSym s Euc.isEuclideanPrefix
      let m := match pre with
        | .ok (some v, _) => v.render
        | .ok (none, _) => "-"
        | .err => "MODEL-FUEL"
        | .panic => "PANIC"
      -- the model's prefix found the invariant in the table AND a pseudo-toroidal cover: the verdict
      -- is decided behind `simplify` (no model), but it can no longer be one of the two `no`s that
      -- are decided before it — checked here, since the exact payload comparison cannot express it
      let modelFoundCover := match pre with
        | .ok (none, some _) => true
        | _ => false
      let prefixClause (cls : Cls) (reason : String) : List (String × Bool) :=
        [("model-found-invariant-and-cover-so-verdict-is-not-decided-before-simplify",
          !modelFoundCover || !(cls == .no && (reason == Euc.NoReason.invariants.text ||
            reason == Euc.NoReason.noCover.text)))]
      let corpus := op == "euc_corpus"
      let g := specG s
      if isPanic out then (m, check (verdictClauses g .panic "-" none corpus (deep == 1)))
      else
        match run (do
            let c ← P.tok
            let reason ← P.tok
            match Cls.ofString c with
            | none => failure
            | some cls =>
              if cls == .yes then
                let f ← P.nat
                if f == 0 then
                  let e ← P.atEnd
                  if e then pure (cls, reason, (none : Option RawSym)) else failure
                else
                  let cov ← P.rawSym
                  let e ← P.atEnd
                  if e then pure (cls, reason, some cov) else failure
              else
                let e ← P.atEnd
                if e then pure (cls, reason, none) else failure) out with
        | none => (m, fail "no-verdict-returned")
        | some (cls, reason, cov) =>
          -- the model payload covers the verdict tokens only (a `yes` is never predicted)
          (m, check (verdictClauses g cls reason (cov.map specG) corpus (deep == 1) ++ prefixClause cls reason))
  | "eucinv" =>
    match run (do let k ← P.nat; let vs ← P.rep (k + 2) P.rawSym; let e ← P.atEnd; if e then pure vs else failure) inp with
    | none => bad
    | some vs =>
      match parseClasses out with
      | none => ("-", fail "no-verdicts-returned")
      | some cs =>
        ("-", check ([("harness-error-input-outside-domain", (vs.head?.map (fun s => inDomain3d (specG s))).getD false)] ++
          invarianceClauses (vs.map sym03) cs))
  | "euccov" =>
    match run (do let s ← P.rawSym; let m ← P.nat; let cs ← P.rep m P.rawSym; let e ← P.atEnd
                  if e then pure (s, cs) else failure) inp with
    | none => bad
    | some (s, cs) =>
      match parseClasses out with
      | none => ("-", fail "no-verdicts-returned")
      | some cls => ("-", check (coverConsistencyClauses (specG s) (cs.map specG) cls))
  | "ograph" =>
    match run (do let s ← P.rawSym; let e ← P.atEnd; if e then pure s else failure) inp with
    | none => bad
    | some s =>
      let m := modelStr encGraph (withSym s Euc.orbifoldGraph)
      (m, check [("harness-error-input-outside-domain", inDomain3d (specG s)),
                 ("returns-without-panic", !isPanic out)])
  | _ => ("-", fail s!"driver-unknown-op-{op}")

end DrvC17

def main : IO Unit := mainWith DrvC17.handler
