import DSymVerif.Driver.SymIO
import DSymVerif.Model.Euclidicity
import DSymVerif.Spec.C17

open DSymVerif DSymVerif.Proto DSymVerif.DS

namespace DrvC17
open DSymVerif.SpecC02 DSymVerif.SpecC15 DSymVerif.SpecC17

def specG (s : RawSym) : G := { size := s.size, dim := s.dim, op := s.opAt, v := s.vAt }
def sym03 (s : RawSym) : SpecC03.Sym := { size := s.size, dim := s.dim, op := s.op, v := s.v }

def isPanic (out : Array String) : Bool := out.size == 1 && out[0]! == "PANIC"

def modelStr {α} (f : α → String) : Outcome α → String
  | .ok a => f a
  | .err => "MODEL-FUEL"
  | .panic => "PANIC"

def withSym {α} (s : RawSym) (f : DSymData → Outcome α) : Outcome α :=
  match s.toSym with
  | .ok d => f d
  | .err => .err
  | .panic => .panic

def encGraph (g : List String × List (Nat × Nat)) : String :=
  joinToks ([toString g.1.length] ++ g.1 ++ [toString g.2.length] ++ g.2.flatMap fun e => [toString e.1, toString e.2])

def bit (b : Bool) : String := if b then "1" else "0"

/-- the presentation `⟨1..n | rels⟩` as a `FundGroup` (the hooks read the number of generators and
    the relators only; the harness builds the `FundamentalGroup` the same way) -/
def presOf (n : Nat) (rels : List (List Int)) : FG.FundGroup :=
  { relators := rels, cones := [], genToEdge := (List.range n).map (fun g => (g + 1, (g + 1, 0))),
    edgeToWord := [] }

def parseClasses (out : Array String) : Option (List Cls) := out.toList.mapM Cls.ofString

def handler : Handler := fun op inp out =>
  let bad := ("-", fail "driver-cannot-parse-input")
  match op with
  | "euc" | "euc_corpus" | "euc_s" | "euc_corpus_s" =>
    -- OUT: class reason t c [cover].  The message `reason` is informational (the property speaks of
    -- the verdict CLASS only): it is echoed into the model payload, never compared.  Compared
    -- exactly: the two facts decided before `simplify` as the code evaluates them (t: invariant in
    -- the table; c: a pseudo-toroidal cover exists, `-` when t = 0), the class whenever the model
    -- decides it (every `no` before `simplify`), and on `yes` the cover itself.
    match run (do let deep ← P.nat; let _rep ← P.nat; let s ← P.rawSym; let e ← P.atEnd
                  if e then pure (deep, s) else failure) inp with
    | none => bad
    | some (deep, s) =>
      let pre := withSym s Euc.isEuclideanPrefix
      let model (cls reason : String) : String := match pre with
        | .ok (some (.no .invariants), _) => joinToks ["no", reason, "0", "-"]
        | .ok (some _, _) => joinToks ["no", reason, "1", "0"]
        | .ok (none, some c) =>
          if cls == "yes" then joinToks [cls, reason, "1", "1", encSym c] else joinToks [cls, reason, "1", "1"]
        | .ok (none, none) => "MODEL-INCONSISTENT"
        | .err => "MODEL-FUEL"
        | .panic => "PANIC"
      let corpus := op == "euc_corpus" || op == "euc_corpus_s"
      let g := specG s
      if isPanic out then (model "panic" "-", check (verdictClauses g .panic none corpus (deep == 1)))
      else
        match run (do
            let c ← P.tok
            let reason ← P.tok
            let t ← P.tok
            let cv ← P.tok
            match Cls.ofString c with
            | none => failure
            | some cls =>
              if cls == .yes && cv == "1" then
                let cov ← P.rawSym
                let e ← P.atEnd
                if e then pure (c, cls, reason, t, cv, some cov) else failure
              else
                let e ← P.atEnd
                if e then pure (c, cls, reason, t, cv, (none : Option RawSym)) else failure) out with
        | none => (model "?" "-", fail "no-verdict-returned")
        | some (c, cls, reason, t, cv, cov) =>
          (model c reason, check (verdictClauses g cls (cov.map specG) corpus (deep == 1) ++
            [("facts-before-simplify-are-bits", (t == "0" && cv == "-") || (t == "1" && (cv == "0" || cv == "1")))]))
  | "eucinv" =>
    match run (do let k ← P.nat; let vs ← P.rep (k + 2) P.rawSym; let e ← P.atEnd; if e then pure vs else failure) inp with
    | none => bad
    | some vs =>
      match parseClasses out with
      | none => ("-", fail "no-verdicts-returned")
      | some cs =>
        ("-", check ([("harness-error-input-outside-domain", (vs.head?.map (fun s => inDomain3d (specG s))).getD false)] ++
          invarianceClauses (vs.map sym03) cs))
  | "euccov" =>
    match run (do let s ← P.rawSym; let m ← P.nat; let cs ← P.rep m P.rawSym; let e ← P.atEnd
                  if e then pure (s, cs) else failure) inp with
    | none => bad
    | some (s, cs) =>
      match parseClasses out with
      | none => ("-", fail "no-verdicts-returned")
      | some cls => ("-", check (coverConsistencyClauses (specG s) (cs.map specG) cls))
  | "ograph" | "ograph_s" =>
    match run (do let s ← P.rawSym; let e ← P.atEnd; if e then pure s else failure) inp with
    | none => bad
    | some s =>
      let m := modelStr encGraph (withSym s Euc.orbifoldGraph)
      (m, check [("harness-error-input-outside-domain", inDomain3d (specG s)),
                 ("returns-without-panic", !isPanic out)])
  | "oinv" | "oinv_s" =>
    -- the FULL string of `orbifold_invariant` and `INVARIANTS.contains` of it, on any 3D symbol
    match run (do let s ← P.rawSym; let e ← P.atEnd; if e then pure s else failure) inp with
    | none => bad
    | some s =>
      let m := modelStr (fun inv => inv ++ " " ++ bit (Euc.inInvariantTable inv)) (withSym s Euc.orbifoldInvariant)
      (m, check (invariantStringClauses (specG s) (isPanic out) (out.toList.head?.getD "")
        (out.toList.getLast?.getD "" == "1")))
  | "intable" =>
    match inp.toList with
    | [tok] => (bit (Euc.inInvariantTable tok), check [("returns-without-panic", !isPanic out)])
    | _ => bad
  | "bsc" =>
    match run (do let idx ← P.nat; let ex ← P.nat; let n ← P.nat; let rels ← P.intss; let e ← P.atEnd
                  if e then pure (idx, ex, n, rels) else failure) inp with
    | none => bad
    | some (idx, ex, n, rels) =>
      (modelStr bit (Euc.badSubgroupCount (presOf n rels) idx ex),
       check (subgroupCountClauses n rels idx ex (isPanic out) (out.toList.head?.getD "" == "1")))
  | "bsi" =>
    match run (do let idx ← P.nat; let ex ← P.nats; let n ← P.nat; let rels ← P.intss; let e ← P.atEnd
                  if e then pure (idx, ex, n, rels) else failure) inp with
    | none => bad
    | some (idx, ex, n, rels) =>
      (modelStr bit (Euc.badSubgroupInvariants (presOf n rels) idx ex),
       check (subgroupInvariantsClauses n rels idx ex (isPanic out) (out.toList.head?.getD "" == "1")))
  | "bcc" =>
    match run (do let s ← P.rawSym; let e ← P.atEnd; if e then pure s else failure) inp with
    | none => bad
    | some s =>
      (modelStr bit (withSym s Euc.badConnectedComponents),
       check [("returns-without-panic", s.dim == 0 || !isPanic out)])
  | _ => ("-", fail s!"driver-unknown-op-{op}")

end DrvC17

def main : IO Unit := mainWith DrvC17.handler
