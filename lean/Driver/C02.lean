import DSymVerif.Driver.SymIO
import DSymVerif.Spec.C02

open DSymVerif DSymVerif.Proto DSymVerif.DS

namespace DrvC02
open DSymVerif.SpecC02

def encO (o : Outcome (Option Nat)) : Int :=
  match o with
  | .ok (some x) => x
  | .ok none => -1
  | _ => -2

def encOpt (o : Option Nat) : Int :=
  match o with
  | some x => x
  | none => -1

def specG (s : RawSym) : G := { size := s.size, dim := s.dim, op := s.opAt, v := s.vAt }

/-- answer tables of one representation, in the layout of harness/src/bin/c02.rs -/
structure Rep where
  op : Nat → Nat → Int
  r : Nat → Nat → Nat → Int
  m : Nat → Nat → Nat → Int
  v : Option (Nat → Nat → Nat → Int)

def repTokens (is ds : List Nat) (rep : Rep) : List Int :=
  (is.flatMap fun i => ds.map fun d => rep.op i d) ++
  (is.flatMap fun i => is.flatMap fun j => ds.flatMap fun d =>
    match rep.v with
    | some v => [rep.r i j d, rep.m i j d, v i j d]
    | none => [rep.r i j d, rep.m i j d])

/-- the dense grid of op `tables`: one out-of-range value on each side -/
def denseGrid (size dim : Nat) : List Nat × List Nat := (List.range (dim + 2), List.range (size + 2))

def usizeMax : Nat := 18446744073709551615

/-- the sparse far grid of op `probe` (harness/src/bin/c02.rs `probe_grid`) -/
def probeGrid (size dim : Nat) : List Nat × List Nat :=
  (List.range (dim + 7) ++ [1000, usizeMax - 1, usizeMax], [0, 1, size, size + 1, usizeMax].eraseDups)

def setRep (v : View) : Rep :=
  { op := fun i d => encOpt (v.op i d), r := fun i j d => encO (v.r i j d),
    m := fun i j d => encOpt (v.m i j d), v := none }

def symRepP (y : DSymData) : Rep :=
  { op := fun i d => encOpt (y.op i d), r := fun i j d => encO (y.rPartial i j d),
    m := fun i j d => encO (y.mPartial i j d), v := some (fun i j d => encO (y.vPartial i j d)) }

def symRepS (y : DSymData) : Rep :=
  { op := fun i d => encOpt (y.op i d), r := fun i j d => encO (y.rSimple i j d),
    m := fun i j d => encO (y.mSimple i j d), v := some (fun i j d => encO (y.vSimple i j d)) }

/-- mask bits as in the harness: 1 PartialDSet, 2 SimpleDSet, 4 PartialDSym, 8 SimpleDSym,
    16 as_dset(&PartialDSym), 32 as_dsym(&SimpleDSet), 64 as_partial_dsym(&PartialDSym) -/
def modelReps (s : RawSym) (mask : Nat) : List Rep :=
  let dd := s.dsetData
  let sym : List DSymData := match s.toSym with | .ok y => [y] | _ => []
  let asDset : List Rep := sym.flatMap fun y =>
    match buildSet y.size y.dim y.op with
    | .ok ds => [setRep ds.viewPartial]
    | _ => []
  let asDsym : List Rep :=
    match dd.toSimple with
    | .ok ss =>
      (match buildSet ss.size ss.dim ss.opSimple with
       | .ok ds => (match buildSymUsingVs ds (fun _ _ => some 1) with
         | .ok z => [symRepP z]
         | _ => [])
       | _ => [])
    | _ => []
  let asPsym : List Rep := sym.flatMap fun y =>
    match asPartialDSym y with
    | .ok z => [symRepP z]
    | _ => []
  (if mask &&& 1 != 0 then [setRep dd.viewPartial] else []) ++
  (if mask &&& 2 != 0 then [setRep dd.viewSimple] else []) ++
  (if mask &&& 4 != 0 then sym.map symRepP else []) ++ (if mask &&& 8 != 0 then sym.map symRepS else []) ++
  (if mask &&& 16 != 0 then asDset else []) ++ (if mask &&& 32 != 0 then asDsym else []) ++
  (if mask &&& 64 != 0 then asPsym else [])

/-- parsed answer tables of the implementation, over the grid `is × is × ds` -/
structure Parsed where
  hasV : Bool
  a : Array Int
  is : Array Nat
  ds : Array Nat
  /-- dense grid: position = value -/
  dense : Bool

namespace Parsed
def nI (p : Parsed) : Nat := p.is.size
def nD (p : Parsed) : Nat := p.ds.size
def posI (p : Parsed) (i : Nat) : Option Nat :=
  if p.dense then (if i < p.nI then some i else none) else p.is.toList.findIdx? (· == i)
def posD (p : Parsed) (d : Nat) : Option Nat :=
  if p.dense then (if d < p.nD then some d else none) else p.ds.toList.findIdx? (· == d)
def stride (p : Parsed) : Nat := if p.hasV then 3 else 2
/-- answers addressed by argument value; -3 = not on the grid -/
def opAt (p : Parsed) (i d : Nat) : Int :=
  match p.posI i, p.posD d with
  | some a, some c => p.a.getD (a * p.nD + c) (-3)
  | _, _ => -3
def q (p : Parsed) (k i j d : Nat) : Int :=
  match p.posI i, p.posI j, p.posD d with
  | some a, some b, some c => p.a.getD (p.nI * p.nD + ((a * p.nI + b) * p.nD + c) * p.stride + k) (-3)
  | _, _, _ => -3
def r (p : Parsed) := p.q 0
def m (p : Parsed) := p.q 1
def v (p : Parsed) := p.q 2
def len (nI nD : Nat) (hasV : Bool) : Nat :=
  nI * nD + nI * nI * nD * (if hasV then 3 else 2)
end Parsed

def splitReps (grid : List Nat × List Nat) (dense : Bool) (mask : Nat) (out : Array Int) : Option (List Parsed) :=
  let kinds := (if mask &&& 1 != 0 then [false] else []) ++ (if mask &&& 2 != 0 then [false] else []) ++
               (if mask &&& 4 != 0 then [true] else []) ++ (if mask &&& 8 != 0 then [true] else []) ++
               (if mask &&& 16 != 0 then [false] else []) ++ (if mask &&& 32 != 0 then [true] else []) ++
               (if mask &&& 64 != 0 then [true] else [])
  let is := grid.1.toArray
  let ds := grid.2.toArray
  let rec go (ks : List Bool) (off : Nat) (acc : List Parsed) : Option (List Parsed) :=
    match ks with
    | [] => if off == out.size then some acc.reverse else none
    | k :: ks =>
      let n := Parsed.len is.size ds.size k
      if off + n > out.size then none
      else go ks (off + n) ({ hasV := k, a := out.extract off (off + n), is := is, ds := ds, dense := dense } :: acc)
  go kinds 0 []

def oi (o : Option Nat) : Int := match o with | some x => x | none => -1

/-- the clauses of C02 about op/r/v/m, evaluated on one representation's answers (every grid
    point; the clauses that compare with the answer at a neighbouring chamber only on the dense
    grid, where that chamber is on the grid) -/
def tableClauses (g : G) (valid : Bool) (p : Parsed) : List (String × Bool) :=
  let is := p.is.toList
  let ds := p.ds.toList
  let all3 (f : Nat → Nat → Nat → Bool) : Bool := is.all fun i => is.all fun j => ds.all fun d => f i j d
  let inR (i j d : Nat) : Bool := i ≤ g.dim && j ≤ g.dim && 1 ≤ d && d ≤ g.size
  let complete := g.complete
  [ ("no-panic", p.a.all (· != -2)),
    ("op-out-of-range-none", is.all fun i => ds.all fun d => g.inRange i d || p.opAt i d == -1),
    ("op-is-the-given-involution", is.all fun i => ds.all fun d => !g.inRange i d ||
        p.opAt i d == (if g.op i d == 0 then -1 else (g.op i d : Int))),
    ("r-out-of-range-none", all3 fun i j d => inR i j d || p.r i j d == -1),
    ("r-is-orbit-length", all3 fun i j d => !inR i j d || !(valid || !p.hasV) ||
        p.r i j d == oi (g.orbitLen i j d)),
    ("r-symmetric", all3 fun i j d => !complete || p.r i j d == p.r j i d),
    ("r-constant-on-orbits", all3 fun i j d => !inR i j d || !complete || !p.dense ||
        (p.r i j d == p.r i j (g.op i d) && p.r i j d == p.r i j (g.op j d))) ] ++
  (if p.hasV then
   [ ("v-out-of-range-none", all3 fun i j d => inR i j d || (p.v i j d == -1 && p.m i j d == -1)),
     ("v-is-branching-number", all3 fun i j d => !inR i j d || !valid || p.v i j d == oi (g.vDef i j d)),
     ("m-eq-r-times-v", all3 fun i j d => !inR i j d || p.m i j d == p.r i j d * p.v i j d),
     ("v-m-symmetric", all3 fun i j d => p.v i j d == p.v j i d && p.m i j d == p.m j i d),
     ("v-m-constant-on-orbits", all3 fun i j d => !inR i j d || !p.dense ||
        (p.v i j d == p.v i j (g.op i d) && p.v i j d == p.v i j (g.op j d) &&
         p.m i j d == p.m i j (g.op i d) && p.m i j d == p.m i j (g.op j d))) ]
   else [])

def agreeClauses (ps : List Parsed) : List (String × Bool) :=
  match ps with
  | [] => []
  | p0 :: rest =>
    let is := p0.is.toList
    let ds := p0.ds.toList
    [ ("representations-agree-op", rest.all fun p => is.all fun i => ds.all fun d => p.opAt i d == p0.opAt i d),
      ("representations-agree-r", rest.all fun p => is.all fun i => is.all fun j => ds.all fun d => p.r i j d == p0.r i j d),
      ("representations-agree-v-m", (ps.filter (·.hasV)).all fun p => (ps.filter (·.hasV)).all fun p' =>
          is.all fun i => is.all fun j => ds.all fun d => p.v i j d == p'.v i j d && p.m i j d == p'.m i j d) ]

def viewOf (s : RawSym) (rep : String) : Option View :=
  match rep with
  | "pset" => some s.dsetData.viewPartial
  | "sset" => some s.dsetData.viewSimple
  | "psym" | "ssym" => match s.toSym with
    | .ok y => some y.view
    | _ => none
  | _ => none

def encItem (t : Option Nat × Nat × Nat) : List Int := [encOpt t.1, t.2.1, t.2.2]

def parseTriples (out : Array String) : Option (List (Int × Nat × Nat)) :=
  let xs := out.toList.map String.toInt?
  if xs.any (·.isNone) || xs.length % 3 != 0 then none else
  let v := (xs.map (·.getD 0)).toArray
  some ((List.range (v.size / 3)).map fun k => (v[3*k]!, v[3*k+1]!.toNat, v[3*k+2]!.toNat))

/-- soundness and completeness of a reported traversal, from the definitions -/
def travClauses (g : G) (idx seeds : List Nat) (ts : List (Int × Nat × Nat)) : List (String × Bool) :=
  let reached := g.reach idx seeds
  let visited := (ts.map (·.2.2)) ++ (ts.map (·.2.1))
  let nexts (i d : Nat) : Nat := if g.op i d == 0 then d else g.op i d
  -- prefix-reached check
  let okOrder := (ts.foldl (fun (acc : Bool × List Nat) t =>
      let (i, d, di) := t
      if i == -1 then (acc.1 && d == di && seeds.contains d && !acc.2.contains d, d :: acc.2)
      else (acc.1 && acc.2.contains d && idx.contains i.toNat && di == nexts i.toNat d, di :: acc.2))
      (true, [])).1
  [ ("every-report-is-an-edge-from-a-reached-chamber", okOrder),
    ("visits-exactly-the-reachable-chambers",
        reached.all (visited.contains ·) && visited.all (reached.contains ·)),
    ("one-start-per-component",
        let starts := (ts.filter (·.1 == -1)).map (·.2.1)
        starts.all (fun d => (starts.filter (fun e => (g.component idx d).contains e)).length == 1) &&
        reached.all (fun d => starts.any fun e => (g.component idx e).contains d)),
    ("every-edge-of-a-traversed-component-exactly-once",
        idx.eraseDups.all fun i => reached.all fun d =>
          (ts.filter fun t => t.1 == (i : Int) && (t.2.1 == d || t.2.2 == d)).length == 1) ]

def handler : Handler := fun op inp out =>
  let bad := ("-", fail "driver-cannot-parse-input")
  match op with
  | "tables" | "probe" | "gentables" =>
    match run (do let mask ← P.nat; let valid ← P.nat; let s ← P.rawSym; pure (mask, valid, s)) inp with
    | some (mask, valid, s) =>
      let dense := op != "probe"
      let grid := if dense then denseGrid s.size s.dim else probeGrid s.size s.dim
      let model := (modelReps s mask).flatMap (repTokens grid.1 grid.2)
      let g := specG s
      let outI := out.map (fun t => t.toInt?.getD (-3))
      -- "valid D-symbol" (DESIGN §5.2) is recomputed here from the transmitted tables with the
      -- Spec's own predicates; the harness's flag is only cross-checked (a disagreement is an error
      -- of the harness's filter, reported under its own clause name, never used for gating)
      let validS := g.involutive && g.complete && g.farCommute
      match splitReps grid dense mask outI with
      | some ps =>
        (intsToString model,
         check (("harness-error-valid-flag-disagrees-with-spec", (valid == 1) == validS) ::
                ("input-is-involutive", g.involutive) ::
                (ps.flatMap (tableClauses g validS) ++ agreeClauses ps)))
      | none => (intsToString model, fail "answer-tables-missing-or-panic")
    | none => bad
  | "counts" =>
    match run (do let c ← P.nat; let k ← P.nat; let _s ← P.rawSym; pure (c, k)) inp with
    | some (c, k) =>
      -- PartialDSet (1,1); SimpleDSet::from_partial(_, c) (c,1); PartialDSym over it (c,1);
      -- SimpleDSym::from_partial(_, k) (c,k): the counters are the ones given at construction
      let expect : List Nat := [1, 1, c, 1, c, 1, c, k]
      (natsToString expect,
       check [("counters-are-the-ones-given-at-construction", out.toList.map String.toNat? == expect.map some)])
    | none => bad
  | "trav" | "orbit" | "orbit_reps" =>
    match run (do let rep ← P.tok; let s ← P.rawSym; let idx ← P.nats; let seeds ← P.nats; pure (rep, s, idx, seeds)) inp with
    | some (rep, s, idx, seeds) =>
      match viewOf s rep with
      | none => bad
      | some vw =>
        let g := specG s
        if op == "trav" then
          let m := (vw.traversal idx seeds).flatMap encItem
          match parseTriples out with
          | some ts => (intsToString m, check (travClauses g idx seeds ts))
          | none => (intsToString m, fail "no-traversal-returned")
        else if op == "orbit" then
          let seed := seeds.headD 0
          let m := vw.orbit idx seed
          match out.toList.map String.toNat? with
          | xs => if xs.any (·.isNone) then (natsToString m, fail "no-orbit-returned") else
            let o := xs.map (·.getD 0)
            (natsToString m, check [("orbit-is-reachable-set-ascending", o == g.component idx seed)])
        else
          let m := vw.orbitReps idx seeds
          let xs := out.toList.map String.toNat?
          if xs.any (·.isNone) then (natsToString m, fail "no-reps-returned") else
          let o := xs.map (·.getD 0)
          (natsToString m, check [
            ("reps-are-seeds", o.all (seeds.contains ·)),
            ("exactly-one-rep-per-component",
              (g.reach idx seeds).all fun d => (o.filter fun e => (g.component idx e).contains d).length == 1)])
    | none => bad
  | "preds" =>
    match run (do let rep ← P.tok; let s ← P.rawSym; pure (rep, s)) inp with
    | some (rep, s) =>
      match viewOf s rep with
      | none => bad
      | some vw =>
        let g := specG s
        let isSym := rep == "psym" || rep == "ssym"
        let completeM : Bool := match rep with
          | "pset" => s.dsetData.isCompletePartial
          | "psym" => (match s.toSym with | .ok y => y.isCompletePartial | _ => false)
          | _ => true
        let b (x : Bool) : Nat := if x then 1 else 0
        let m := [b vw.isConnected, b completeM, b vw.isLoopless, b vw.isWeaklyOriented, b vw.isOriented]
        match out.toList.map String.toNat? with
        | [some c, some k, some l, some w, some o] =>
          let vsDefined := (List.range g.dim).all fun i => g.chambers.all fun d => g.v i d != 0
          (natsToString m, check [
            ("connected-iff-one-component", (c == 1) == g.connected),
            ("complete-iff-all-defined", (k == 1) == (g.complete && (!isSym || vsDefined))),
            ("loopless-iff-no-fixed-chamber", (l == 1) == g.loopless),
            ("weakly-oriented-iff-bipartite", (w == 1) == g.bipartite),
            ("oriented-iff-loopless-and-bipartite", (o == 1) == (g.loopless && g.bipartite))])
        | _ => (natsToString m, fail "no-predicates-returned")
    | none => bad
  | "ori" =>
    match run (do let rep ← P.tok; let s ← P.rawSym; pure (rep, s)) inp with
    | some (rep, s) =>
      match viewOf s rep with
      | none => bad
      | some vw =>
        let g := specG s
        let m := vw.partialOrientation.toList
        let xs := out.toList.map String.toNat?
        if xs.any (·.isNone) then (natsToString m, fail "no-orientation-returned") else
        let o := (xs.map (·.getD 0)).toArray
        (natsToString m, check [
          ("every-chamber-signed", g.chambers.all fun d => o.getD d 0 == 1 || o.getD d 0 == 2),
          ("proper-colouring-when-bipartite", !g.bipartite || g.properColouring o)])
    | none => bad
  | "reps2d" =>
    match run (do let rep ← P.tok; let s ← P.rawSym; let i ← P.nat; let j ← P.nat; pure (rep, s, i, j)) inp with
    | some (rep, s, i, j) =>
      match viewOf s rep with
      | none => bad
      | some vw =>
        let g := specG s
        let m := vw.orbitReps2d i j
        let xs := out.toList.map String.toNat?
        if xs.any (·.isNone) then (natsToString m, fail "no-reps-returned") else
        let o := xs.map (·.getD 0)
        let expect := g.chambers.filter fun d => listMin (g.component [i, j] d) == d
        (natsToString m, check [("least-chamber-of-each-2-orbit-ascending", o == expect)])
    | none => bad
  | "collect" =>
    match run P.rawSym inp with
    | some s =>
      let g := specG s
      let o := collectOrbits s.dsetData
      let enc := (o.rs.toList.map Int.ofNat) ++ [-9] ++ (o.isChain.toList.map fun b => if b then (1 : Int) else 0) ++ [-9] ++
        (o.index.toList.flatMap fun row => row.toList.map Int.ofNat)
      -- spec: parse the implementation's answer in the same layout
      let xs := out.toList.map (fun t => t.toInt?.getD (-3))
      let parts := xs.splitOn (-9)
      match parts with
      | [rs, ch, ix] =>
        let ixA := ix.toArray
        let ixAt (i d : Nat) : Nat := (ixA.getD (i * (g.size + 1) + d) (-1)).toNat
        let rsA := rs.toArray
        let chA := ch.toArray
        (intsToString enc, check [
          ("orbit-r-is-orbit-length", (List.range g.dim).all fun i => g.chambers.all fun d =>
              oi (g.orbitLen i (i + 1) d) == rsA.getD (ixAt i d) (-1)),
          ("orbit-index-constant-exactly-on-orbits", (List.range g.dim).all fun i => g.chambers.all fun d => g.chambers.all fun e =>
              ((g.component [i, i + 1] d).contains e) == (ixAt i d == ixAt i e)),
          ("chain-flag-iff-orbit-has-a-fixed-chamber", (List.range g.dim).all fun i => g.chambers.all fun d =>
              (chA.getD (ixAt i d) (-1) == 1) ==
              ((g.component [i, i + 1] d).any fun e => g.op i e == e || g.op (i + 1) e == e))])
      | _ => (intsToString enc, fail "no-orbit-tables-returned")
    | none => bad
  | _ => ("-", fail s!"driver-unknown-op-{op}")

end DrvC02

def main : IO Unit := mainWith DrvC02.handler
