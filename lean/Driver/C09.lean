import DSymVerif.Driver.SymIO
import DSymVerif.Driver.C09View
import DSymVerif.Model.FundGroup
import DSymVerif.Spec.C09

open DSymVerif DSymVerif.Proto DSymVerif.DS

namespace DrvC09
open DSymVerif.SpecC02 DSymVerif.SpecC09

open DSymVerif.DrvC09View (specG inDomain)

/-! ### the canonical textual layout of a `FundamentalGroup` value (harness: `enc_fg`) -/

def encFg (f : FG.FundGroup) : String :=
  joinToks ([toString f.nrGenerators, encIntss f.relators, toString f.cones.length] ++
    f.cones.map (fun c => encInts c.1 ++ " " ++ toString c.2) ++
    [toString f.genToEdge.length] ++
    f.genToEdge.map (fun e => s!"{e.1} {e.2.1} {e.2.2}") ++
    [toString f.edgeToWord.length] ++
    f.edgeToWord.map (fun e => s!"{e.1.1} {e.1.2} " ++ encInts e.2))

structure FgOut where
  ngens : Nat
  relators : List (List Int)
  cones : List (List Int × Nat)
  g2e : List (Nat × Nat × Nat)
  e2w : List ((Nat × Nat) × List Int)

def P.fgOut : P FgOut := do
  let ngens ← P.nat
  let relators ← P.intss
  let nc ← P.nat
  let cones ← P.rep nc (do let w ← P.ints; let d ← P.nat; pure (w, d))
  let ng ← P.nat
  let g2e ← P.rep ng (do let g ← P.nat; let d ← P.nat; let i ← P.nat; pure (g, d, i))
  let ne ← P.nat
  let e2w ← P.rep ne (do let d ← P.nat; let i ← P.nat; let w ← P.ints; pure ((d, i), w))
  let fin ← P.atEnd
  if fin then pure { ngens, relators, cones, g2e, e2w } else failure

def P.edgeList : P (List (Nat × Nat)) := do
  let n ← P.nat
  let es ← P.rep n (do let d ← P.nat; let i ← P.nat; pure (d, i))
  let fin ← P.atEnd
  if fin then pure es else failure

/-- the chamber graph restricted to the facets `es` (other facets become loops) -/
def innerG (g : G) (es : List (Nat × Nat)) : G :=
  { size := g.size, dim := g.dim, v := g.v,
    op := fun i d => if (es.contains (d, i) || es.contains (g.op i d, i)) then g.op i d else d }

def optEq {α} [BEq α] (a b : Option α) : Bool :=
  match a, b with
  | some x, some y => x == y
  | _, _ => false

/-- evaluate groups of clauses in order and stop at the first group with a failing clause
    (the later groups are the expensive oracles) -/
def stages : List (Unit → List (String × Bool)) → String
  | [] => ok
  | s :: rest =>
    match (s ()).find? (fun c => !c.2) with
    | some c => fail c.1
    | none => stages rest

/-- the clauses of C09 on one returned value, cheapest group first -/
def fgClauses (g : G) (kmax tclimit : Nat) (o : FgOut) : List (Unit → List (String × Bool)) :=
  let n := o.ngens
  let facetOk := fun (d i : Nat) => 1 ≤ d && d ≤ g.size && i ≤ g.dim
  let word := fun (d i : Nat) => ((o.e2w.find? (fun e => e.1 == (d, i))).map (·.2)).getD []
  let allWords := o.relators ++ o.cones.map (·.1) ++ o.e2w.map (·.2)
  -- structural clauses
  let structural : List (String × Bool) :=
    [ ("nr-generators-is-size-of-gen-to-edge", n == o.g2e.length),
      ("generators-are-numbered-1-to-n", o.g2e.map (·.1) == (List.range n).map (· + 1)),
      ("generator-facets-in-range", o.g2e.all fun e => facetOk e.2.1 e.2.2),
      ("each-generator-on-its-own-facet-pair", o.g2e.all fun a => o.g2e.all fun b =>
          a.1 == b.1 || (a.2 != b.2 && a.2 != (g.op b.2.2 b.2.1, b.2.2))),
      ("generator-facet-carries-its-letter", o.g2e.all fun e =>
          word e.2.1 e.2.2 == [(e.1 : Int)] || word e.2.1 e.2.2 == [-(e.1 : Int)]),
      ("edge-words-keyed-by-distinct-facets", (o.e2w.all fun e => facetOk e.1.1 e.1.2) &&
          (o.e2w.map (·.1)).eraseDups.length == o.e2w.length),
      ("letters-are-generators", allWords.all (lettersInRange n)),
      ("all-words-freely-reduced", allWords.all SpecC10.isReduced),
      ("two-sides-of-a-facet-carry-inverse-words", g.chambers.all fun d => g.indices.all fun i =>
          g.op i d == d || word d i == SpecC09.inv (word (g.op i d) i)) ]
  -- the words traced around 2-orbits with the returned edge words
  let traced : List (List Int × Nat) := (indexPairs g).flatMap fun (i, j) =>
    (orbitReps g i j).map fun d => (orbitWord g word i j d, vOf g i j d)
  let facetPairs : List (List Int) := g.chambers.flatMap fun d =>
    (g.indices.filter fun i => d ≤ g.op i d).map fun i => word d i ++ word (g.op i d) i
  let expCones := (traced.filter (·.2 > 1)).map fun t => (conjRep t.1, t.2)
  let expRels := ((traced.map fun t => conjRep (pow t.1 t.2)) ++ facetPairs.map conjRep).filter (!·.isEmpty)
  let tracing : List (String × Bool) :=
    [ ("cones-are-the-words-around-the-branched-2-orbits-with-their-v",
        sameSet (o.cones.map fun c => (conjRep c.1, c.2)) expCones),
      ("relators-are-the-2-orbit-words-to-the-power-v",
        sameSet ((o.relators.map conjRep).filter (!·.isEmpty)) expRels) ]
  -- invariants of the two presentations
  let okLetters := allWords.all (lettersInRange n)
  let pImpl := simplify { ngens := n, rels := if okLetters then o.relators else [] }
  let pText := simplify (textbook g)
  let abelian : Unit → List (String × Bool) := fun _ =>
    let abI := abelianInvariants pImpl
    let abT := abelianInvariants pText
    [ ("abelianisation-oracle-within-budget", abI.isSome && abT.isSome),
      ("same-abelianisation", optEq abI abT) ]
  let budget := 3000000
  let idxClauses : List (Unit → List (String × Bool)) :=
    ((List.range (kmax + 1)).filter (· ≥ 2)).map fun k => fun _ =>
      let cI := subgroupCounts pImpl k budget
      let cT := subgroupCounts pText k budget
      [ (s!"subgroup-oracle-within-budget-index-{k}", cI.isSome && cT.isSome),
        (s!"same-number-of-subgroups-of-index-{k}", cI.isNone || cT.isNone || (cI.map (·.1)) == (cT.map (·.1))),
        (s!"same-number-of-conjugacy-classes-of-subgroups-of-index-{k}",
          cI.isNone || cT.isNone || (cI.map (·.2)) == (cT.map (·.2))) ]
  -- HLT enumeration can need far more cosets than the order of the group; a second stage with a
  -- large limit is run only where finiteness is already known
  let bigLimit := 3000000
  let orderClauses : Unit → List (String × Bool) := fun _ =>
    if g.dim == 2 then
      let (num, _) := curvature2d g
      if num > 0 then
        let oI := orderTC2 pImpl 20000 bigLimit
        let oT := orderTC2 pText 20000 bigLimit
        [ ("positive-curvature-group-finite", oI.isSome && oT.isSome),
          ("same-finite-order", optEq oI oT),
          ("spherical-order-is-4-over-curvature",
            match sphericalOrder g with
            | some N => oI == some N && oT == some N
            | none => true) ]
      else []
    else if tclimit > 0 then
      let oI := orderTC pImpl tclimit
      let oT := orderTC pText tclimit
      match oI, oT with
      | some a, some b => [("same-finite-order", a == b)]
      | some a, none => [("same-finite-order", orderTC pText bigLimit == some a)]
      | none, some b => [("same-finite-order", orderTC pImpl bigLimit == some b)]
      | none, none => []
    else []
  [fun _ => structural, fun _ => tracing, abelian] ++ idxClauses ++ [orderClauses]

def handler : Handler := fun op inp out =>
  let bad := ("-", fail "driver-cannot-parse-input")
  match op with
  | "fg" | "fg_s" =>
    match run (do let k ← P.nat; let t ← P.nat; let s ← P.rawSym; pure (k, t, s)) inp with
    | some (kmax, tclimit, s) =>
      let g := specG s
      let model := match s.toSym with
        | .ok y => (match FG.fundamentalGroup y with
          | .ok f => encFg f
          | _ => "PANIC")
        | _ => "PANIC"
      if !validSymbol g then (model, fail "input-is-not-a-connected-complete-symbol") else
      if !inDomain s then (model, fail "input-outside-the-domain-of-the-theorems") else
      match run P.fgOut out with
      | some o => (model, stages (fgClauses g kmax tclimit o))
      | none => (model, fail "no-presentation-returned")
    | none => bad
  | "inner" | "inner_s" =>
    match run P.rawSym inp with
    | some s =>
      let g := specG s
      let model := match s.toSym with
        | .ok y => (match FG.innerEdges y with
          | .ok es => joinToks (toString es.length :: es.map fun e => s!"{e.1} {e.2}")
          | _ => "PANIC")
        | _ => "PANIC"
      if !validSymbol g then (model, fail "input-is-not-a-connected-complete-symbol") else
      if !inDomain s then (model, fail "input-outside-the-domain-of-the-theorems") else
      match run P.edgeList out with
      | some es =>
        -- chambers joined by the reported inner facets
        let gi : G := innerG g es
        (model, check [
          ("inner-facets-in-range", es.all fun e => 1 ≤ e.1 && e.1 ≤ g.size && e.2 ≤ g.dim),
          ("inner-facets-are-distinct-facet-pairs", es.all fun a =>
              (es.filter fun b => b == a || b == (g.op a.2 a.1, a.2)).length == 1),
          ("inner-facets-connect-all-chambers", connectedBfs gi) ])
      | none => (model, fail "no-edge-list-returned")
    | none => bad
  | _ => ("-", fail s!"driver-unknown-op-{op}")

end DrvC09

def main : IO Unit := mainWith DrvC09.handler
