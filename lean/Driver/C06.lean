import DSymVerif.Driver.Proto
import DSymVerif.Model.DSetGen
import DSymVerif.Spec.C06

open DSymVerif DSymVerif.Proto

namespace DrvC06
open DSymVerif.SpecC06

/-- `count (size dim counter op(1,0) … op(size,dim))*` — every set carries the size and
    dimension the library reports for it; the op table has `size * (dim + 1)` entries of
    the set's OWN dimension -/
def parseEmitted : P (List Emitted) := do
  let cnt ← P.nat
  let l ← P.rep cnt (do
    let size ← P.nat
    let dim ← P.nat
    let counter ← P.nat
    let op ← P.rep (size * (dim + 1)) P.nat
    pure ({ size := size, dim := dim, op := op.toArray, counter := counter } : Emitted))
  let fin ← P.atEnd
  if fin then pure l else failure

def encModel (l : List (DS.DSetData × Nat)) : String :=
  joinToks (toString l.length ::
    l.flatMap fun (ds, c) =>
      toString ds.size :: toString ds.dim :: toString c :: ds.op.toList.map toString)

/-- lexicographic `≤` on token lists (driver-side canonicalisation only) -/
def lexLe : List Nat → List Nat → Bool
  | [], _ => true
  | _ :: _, [] => false
  | a :: as, b :: bs => if a < b then true else if b < a then false else lexLe as bs

/-- The property (C06) fixes the emitted D-sets only as a SET — "numbered consecutively from 1"
    is a Spec clause on the emission order the implementation chose — so the model/implementation
    comparison is made on the lists sorted by (size, dim, op table), counters dropped.  When they
    agree the implementation's own tokens are echoed as the model payload; otherwise the model's
    emission is printed, so that the orchestrator reports the disagreement with both sides. -/
def sameAsSets (model : List (DS.DSetData × Nat)) (es : List Emitted) : Bool :=
  let km := (model.map fun (ds, _) => ds.size :: ds.dim :: ds.op.toList).mergeSort lexLe
  let ke := (es.map fun e => e.size :: e.dim :: e.op.toList).mergeSort lexLe
  km == ke

def handler : Handler := fun op inp out =>
  let bad := ("-", fail "driver-cannot-parse-input")
  match op with
  | "gen" =>
    match run (do let dim ← P.nat; let max ← P.nat; pure (dim, max)) inp with
    | some (dim, max) =>
      let ml := DSG.dsetsNumbered dim max
      let model := match ml with
        | some l => encModel l
        | none => "PANIC"
      match run parseEmitted out with
      | some es =>
        let model := match ml with
          | some l => if sameAsSets l es then joinToks out.toList else model
          | none => model
        (model, check (genClauses dim max es))
      | none => (model, fail "no-sequence-returned-or-panic")
    | none => bad
  | "hit" =>
    match run (do let dim ← P.nat; let max ← P.nat; let n ← P.nat; let part ← P.nat; let nparts ← P.nat
                  pure (dim, max, n, part, nparts)) inp with
    | some (dim, _max, n, part, nparts) =>
      if nparts == 0 || part ≥ nparts then bad else
      match run parseEmitted out with
      | some es => ("-", check (hitClauses dim n part nparts es))
      | none => ("-", fail "no-sequence-returned-or-panic")
    | none => bad
  | _ => ("-", fail s!"driver-unknown-op-{op}")

end DrvC06

def main : IO Unit := mainWith DrvC06.handler
