import DSymVerif.Driver.SymIO
import DSymVerif.Model.DSymGen
import DSymVerif.Model.Delaney2d
import DSymVerif.Spec.C07

open DSymVerif DSymVerif.Proto DSymVerif.DS

/-!
Driver of property C07.  One op:

  IN  id gen <geom 0..3 = S,E,H,All> <D-set as `sym` with all v = 0>
  OUT id <k> { <symbol_count> <sym> <curvature num> <curvature den> <orbifold_symbol> }^k

Model payload: the same sequence computed by `SymGen.generate` (the `vs` vectors of the model
of `DSyms`, spread over the chambers through `orbit_index`) followed, per symbol, by the C08
model's `curvature` and `orbifold_symbol` of that symbol.
-/
namespace DrvC07
open DSymVerif.SymGen

def specSym (s : RawSym) : SpecC03.Sym := { size := s.size, dim := s.dim, op := s.op, v := s.v }

/-- tokens of one emitted symbol of the model -/
def modelSymbol (ds : RawSym) (c : Ctx) (counter : Nat) (vs : List Nat) : Option (List String) :=
  let v : Array Nat := ((List.range ds.dim).flatMap fun i => (List.range ds.size).map fun d0 =>
    vTable c vs i (d0 + 1)).toArray
  let raw : RawSym := { ds with v := v }
  match raw.toSym with
  | .ok y =>
    (match D2.curvature ⟨y, .simpleSym⟩, D2.orbifoldSymbolString ⟨y, .simpleSym⟩ with
     | .ok k, .ok str =>
       some ([toString counter, toString ds.size, toString ds.dim] ++ ds.op.toList.map toString ++
             v.toList.map toString ++ [toString k.num, toString k.den, str])
     | _, _ => none)
  | _ => none

def modelPayload (ds : RawSym) (g : Geom) : String :=
  match generate ds.dsetData g with
  | .ok (l, c) =>
    let parts := l.map fun p => modelSymbol ds c p.1 p.2
    if parts.any (·.isNone) then "PANIC"
    else joinToks (toString l.length :: parts.flatMap fun p => p.getD [])
  | _ => "PANIC"

def parseEmitted : P SpecC07.Emitted := do
  let counter ← P.nat
  let s ← P.rawSym
  let n ← P.int
  let d ← P.nat
  let str ← P.tok
  pure { counter := counter, sym := specSym s, k := ⟨n, d⟩, orb := str }

def parseOut : P (List SpecC07.Emitted) := do
  let k ← P.nat
  let l ← P.rep k parseEmitted
  let e ← P.atEnd
  if e then pure l else failure

def parseIn : P (Nat × RawSym) := do
  let g ← P.nat
  let s ← P.rawSym
  pure (g, s)

/-! ### comparison up to the freedom the property leaves

For a D-set with non-trivial automorphisms the property fixes each emitted symbol only up to
isomorphism (which branching assignment of an automorphism orbit is kept is not stated), and the
emission order only through "numbered consecutively" (a Spec clause on the implementation's own
order).  The model's sequence and the implementation's are therefore compared as multisets of
isomorphism classes: same length, and a matching that pairs every model symbol with an isomorphic
implementation symbol of the same curvature (greedy matching is complete because isomorphism is an
equivalence).  When they agree the implementation's tokens are echoed as the model payload,
otherwise the model's payload is printed and the orchestrator reports the disagreement. -/
def matchUpToIso : List SpecC07.Emitted → List SpecC07.Emitted → Bool
  | [], rest => rest.isEmpty
  | m :: ms, impl =>
    match impl.findIdx? (fun e => e.k.num == m.k.num && e.k.den == m.k.den && SpecC03.isomorphic m.sym e.sym) with
    | some i => matchUpToIso ms (impl.eraseIdx i)
    | none => false

def isoEcho (model : String) (out : Array String) : String :=
  let impl := joinToks out.toList
  if model == impl then model else
  match run parseOut (((model.splitOn " ").filter (· != "")).toArray), run parseOut out with
  | some ml, some il => if ml.length == il.length && matchUpToIso ml il then impl else model
  | _, _ => model

def handler : Handler := fun op inp out =>
  let bad := ("-", fail "driver-cannot-parse-input")
  match op with
  | "gen" =>
    match run parseIn inp with
    | some (gi, s) =>
      match Geom.ofIdx gi with
      | some g =>
        let m := modelPayload s g
        if out == #["PANIC"] then (m, fail "generator-panics")
        else
          match run parseOut out with
          | some l => (isoEcho m out, check (SpecC07.clauses (specSym s) gi l))
          | none => (m, fail "driver-cannot-parse-output")
      | none => bad
    | none => bad
  | _ => ("-", fail "unknown-op")

end DrvC07

def main : IO Unit := mainWith DrvC07.handler
