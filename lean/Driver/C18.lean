import DSymVerif.Driver.Proto
import DSymVerif.Model.LinAlg
import DSymVerif.Model.PGraph
import DSymVerif.Spec.C18

open DSymVerif DSymVerif.Proto

namespace DrvC18
open DSymVerif.LA DSymVerif.SpecC18

/-- model side of a scalar back-end: the `Backend`, the injection of the integer input
    (`From<i64>` / `BigRational::from_integer`), the token encoding of an entry -/
structure ME (α : Type) where
  B : Backend α
  inj : Int → α
  enc : α → List String

/-- spec side: reference field and decoder of one output entry (with its validity check) -/
structure SE (β : Type) where
  F : Fld β
  dec : P β
  /-- over a field `solve`/`inverse` must be complete -/
  complete : Bool

def meI64 (c : Int → Outcome Int) : ME Int := ⟨i64Backend c, id, fun x => [toString x]⟩
def meRat : ME Q := ⟨ratBackend, Q.ofInt, fun x => [toString x.num, toString x.den]⟩
def mePrc (p : Int) : ME Int := ⟨prcBackend p, PRC.fromI64 p, fun x => [toString x]⟩

def seInt : SE R := ⟨ratF, do let n ← P.int; pure (R.ofInt n), false⟩
def seRat : SE R :=
  ⟨ratF, do let n ← P.int; let d ← P.int; if d > 0 then pure (R.frac n d) else failure, true⟩
def sePrc (p : Int) : SE Int :=
  ⟨zpF p, do let v ← P.int; if 0 ≤ v && v < p then pure v else failure, true⟩

def chunk {α} (nc : Nat) : Nat → List α → List (List α)
  | 0, _ => []
  | nr + 1, xs => xs.take nc :: chunk nc nr (xs.drop nc)

def pMat (nr nc : Nat) : P (List (List Int)) := do
  let xs ← P.rep (nr * nc) P.int
  pure (chunk nc nr xs)

def pMatOf {β} (nr nc : Nat) (e : P β) : P (List (List β)) := do
  let xs ← P.rep (nr * nc) e
  pure (chunk nc nr xs)

def encRows {α} (enc : α → List String) (nr nc : Nat) (rows : List (List α)) : String :=
  joinToks (toString nr :: toString nc :: rows.flatMap (·.flatMap enc))

def encOutcome {α} (f : α → String) : Outcome α → String
  | .ok a => f a
  | .err => "ERR"
  | .panic => "PANIC"

def isTok (out : Array String) (t : String) : Bool := out.size == 1 && out[0]! == t

/-- the model's answer for one routine, as protocol tokens -/
def runModel {α} (me : ME α) (routine : String) (nr nc k : Nat) (a b : List (List Int)) :
    Option String :=
  match Mat.ofLists? nr nc (a.map (·.map me.inj)) with
  | none => none
  | some A =>
    match routine with
    | "rank" => some (encOutcome toString (rank me.B A))
    | "nsm" =>
      some (encOutcome (fun rows => encRows me.enc nc ((rows.headD []).length) rows)
        (nullSpaceMatrix me.B A))
    | "ns" =>
      some (encOutcome (fun vs => joinToks (toString vs.length :: vs.map (encRows me.enc nc 1)))
        (nullSpace me.B A))
    | "solve" =>
      match Mat.ofLists? nr k (b.map (·.map me.inj)) with
      | none => none
      | some Bm => some (encOutcome (fun x => encRows me.enc nc k x.toLists) (solve me.B A Bm))
    | "det" =>
      if h : nc = nr then
        some (encOutcome (fun d => joinToks (me.enc d)) (determinant me.B (n := nr) (h ▸ A)))
      else none
    | "inv" =>
      if h : nc = nr then
        some (encOutcome (fun x => encRows me.enc nr nr x.toLists) (inverse me.B (n := nr) (h ▸ A)))
      else none
    | _ => none

/-- parse `nr nc entries…` from the implementation's output -/
def pOutMat {β} (e : P β) : P (Nat × Nat × List (List β)) := do
  let nr ← P.nat
  let nc ← P.nat
  let rows ← pMatOf nr nc e
  let fin ← P.atEnd
  if fin then pure (nr, nc, rows) else failure

def nullClauses {β} (se : SE β) (nc : Nat) (a : List (List Int)) (k : Nat) (n : List (List β)) :
    String :=
  check [("null-space-column-count", nullCount se.F nc a k),
         ("null-space-annihilated", nullAnnihilated se.F a n k),
         ("null-space-independent", nullIndependent se.F n k)]

/-- the Spec verdict for one routine on the implementation's output -/
def runSpec {β} (se : SE β) (routine : String) (nr nc k : Nat) (a b : List (List Int))
    (out : Array String) : String :=
  if isTok out "PANIC" then fail "no-panic" else
  match routine with
  | "rank" =>
    match run P.nat out with
    | some r => check [("rank", rankOk se.F nc a r)]
    | none => fail "no-rank-returned"
  | "det" =>
    match run (do let d ← se.dec; let fin ← P.atEnd; if fin then pure d else failure) out with
    | some d => check [("oracles-agree", oraclesAgree se.F nr a), ("determinant-exact", detOk se.F nr a d)]
    | none => fail "no-canonical-scalar-returned"
  | "nsm" =>
    match run (pOutMat se.dec) out with
    | some (r, c, n) =>
      if r != nc then fail "null-space-row-count" else nullClauses se nc a c n
    | none => fail "no-canonical-matrix-returned"
  | "ns" =>
    match run (do
        let cnt ← P.nat
        let vs ← P.rep cnt (do
          let r ← P.nat; let c ← P.nat
          if r = nc ∧ c = 1 then P.rep nc se.dec else failure)
        let fin ← P.atEnd
        if fin then pure vs else failure) out with
    | some vs => nullClauses se nc a vs.length (transposeL nc vs)
    | none => fail "no-canonical-vector-list-returned"
  | "solve" =>
    if isTok out "ERR" then
      check [("solve-complete-over-field", !se.complete || !consistent se.F nc k a b)]
    else match run (pOutMat se.dec) out with
    | some (r, c, x) =>
      check [("solution-shape", r == nc && c == k), ("solve-sound", solutionOk se.F a b x k)]
    | none => fail "no-canonical-matrix-returned"
  | "inv" =>
    let idm : List (List Int) :=
      (List.range nr).map fun i => (List.range nr).map fun j => if i = j then 1 else 0
    if isTok out "ERR" then
      check [("inverse-exists-iff-full-rank", !se.complete || !fullRankSquare se.F nr a)]
    else match run (pOutMat se.dec) out with
    | some (r, c, x) =>
      check [("inverse-shape", r == nr && c == nr), ("inverse-sound", solutionOk se.F a idm x nr),
             ("inverse-exists-iff-full-rank", fullRankSquare se.F nr a)]
    | none => fail "no-canonical-matrix-returned"
  | _ => fail "driver-unknown-routine"

/-- input of a matrix routine: `nr nc A` (`rank det nsm ns inv`) or `nr nc k A B` (`solve`) -/
def pMatInput (routine : String) : P (Nat × Nat × Nat × List (List Int) × List (List Int)) := do
  let nr ← P.nat
  let nc ← P.nat
  if routine == "solve" then
    let k ← P.nat
    let a ← pMat nr nc
    let b ← pMat nr k
    pure (nr, nc, k, a, b)
  else
    let a ← pMat nr nc
    pure (nr, nc, 0, a, [])

/-- every integer token of a model payload lies in the `i64` range -/
def fitsI64 (payload : String) : Bool :=
  (toks payload).all fun t =>
    match t.toInt? with
    | some v => PRC.inI64 v
    | none => true

def bad : String × String := ("-", fail "driver-cannot-parse-input")

def matCase {α β} (me : ME α) (meIdeal : Option (ME α)) (se : SE β) (routine : String)
    (inp out : Array String) : String × String :=
  match run (pMatInput routine) inp with
  | none => bad
  | some (nr, nc, k, a, b) =>
    if (routine == "det" || routine == "inv") && nr != nc then bad else
    match runModel me routine nr nc k a b with
    | none => bad
    | some m =>
      -- machine integers.  `m` is the answer of the overflow-checked model (`i64Backend PRC.chk`:
      -- every `+ - * / abs neg` of the Rust text followed by the range check of the
      -- overflow-checked harness build) and is ALWAYS the payload compared with the
      -- implementation — value, ERR or PANIC.  `exact` is the answer of the idealised integer
      -- model.  By `i64_checked_refines_exact` (Props/C18.lean) they differ only if the checked
      -- model panics, i.e. an intermediate of the i64 computation left the 63-bit range.  Then
      --  * the exact answer itself does not fit i64: the property's "exact value" cannot be
      --    asked of a type that cannot hold it — case excluded (DESIGN §5.6), verdict ok;
      --  * the exact answer fits and the implementation returned exactly it: ordinary Spec
      --    (and the payload PANIC ≠ out shows up as a model disagreement: the checked model
      --    mispredicted an overflow);
      --  * the exact answer fits (the checked model panics although the exact answer fits) and
      --    the implementation panicked or answered something else:
      --    `fail machine-integer-overflow` (known finding F-C18-overflow, by cause class).
      match meIdeal with
      | none =>
        -- field back-ends (big rationals, prime residues).  The property fixes the null space only
        -- as a subspace ("exactly columns-minus-rank independent columns annihilated by the
        -- matrix"), not its basis — which non-zero pivot the elimination picks is free (found by
        -- the harmless-rewrite study).  Over a field, n − rank independent vectors of the kernel
        -- are a basis of it, so when the three null-space clauses hold for the implementation's
        -- columns they span the same space as the model's: the implementation's tokens are then
        -- echoed as the model payload; otherwise the model's basis is printed.
        let sv := runSpec se routine nr nc k a b out
        let m := if (routine == "nsm" || routine == "ns") && se.complete && sv == ok
                    && m != "PANIC" && m != "ERR" then joinToks out.toList else m
        (m, sv)
      | some mi =>
        match runModel mi routine nr nc k a b with
        | none => bad
        | some exact =>
          if exact == m then (m, runSpec se routine nr nc k a b out)
          else if !fitsI64 exact then (m, ok)
          else if (toks exact) == out then (m, runSpec se routine nr nc k a b out)
          else (m, fail "machine-integer-overflow")

/-! ### prime residue classes -/

def b2i (b : Bool) : Int := if b then 1 else 0

def encO (xs : List (Outcome Int)) : String :=
  if xs.any (fun x => match x with | .ok _ => false | _ => true) then "PANIC"
  else intsToString (xs.map fun x => match x with | .ok v => v | _ => 0)

/-- the model's value of every expression the harness evaluates on a triple -/
def fieldModel (p a b c : Int) : String :=
  let va := PRC.fromI64 p a
  let vb := PRC.fromI64 p b
  let vc := PRC.fromI64 p c
  let add := PRC.add p
  let sub := PRC.sub p
  let mul := PRC.mul p
  let o (x : Int) : Outcome Int := .ok x
  let bnz := !PRC.isZero vb
  let core : List (Outcome Int) := [
    o va, o vb, o vc,
    add va vb, sub va vb, mul va vb, PRC.neg p va,
    (add va vb).bind (add · vc), (add vb vc).bind (add va ·),
    (mul va vb).bind (mul · vc), (mul vb vc).bind (mul va ·),
    (add vb vc).bind (mul va ·), (mul va vb).bind fun x => (mul va vc).bind fun y => add x y,
    add va (PRC.zero p), mul va (PRC.one p), (PRC.neg p va).bind (add va ·),
    o (b2i (PRC.isZero va)), o (b2i (PRC.isOne va)),
    -- the by-reference impls
    add va vb, sub va vb, mul va vb, add va vb, sub va vb, mul va vb, PRC.neg p va,
    o (b2i bnz)]
  let divs : List (Outcome Int) :=
    if bnz then
      [PRC.div p va vb, (PRC.div p va vb).bind (mul · vb), (PRC.div p (PRC.one p) vb).bind (mul vb ·),
       PRC.div p va vb, PRC.div p va vb]
    else [o 0, o 0, o 0, o 0, o 0]
  encO (core ++ divs)

def fieldSpec (p a b c : Int) (out : Array String) : String :=
  if isTok out "PANIC" then fail "no-panic" else
  match out.toList.mapM String.toInt? with
  | none => fail "no-values-returned"
  | some vs =>
    if vs.length != 31 then fail "no-values-returned" else
    let F := zpF p
    let g (i : Nat) : Int := vs.getD i (-1)
    let ra := F.ofInt a
    let rb := F.ofInt b
    let rc := F.ofInt c
    let bnz := !F.isZero rb
    let flags : List Nat := [16, 17, 25]
    let canon := (List.range 31).all fun i => flags.contains i || (0 ≤ g i && g i < p)
    check [
      ("canonical-representative", canon && canonicalFor p a (g 0) && canonicalFor p b (g 1) && canonicalFor p c (g 2)),
      ("add-is-field-add", g 3 == F.add ra rb && g 18 == g 3 && g 21 == g 3),
      ("sub-is-field-sub", g 4 == F.sub ra rb && g 19 == g 4 && g 22 == g 4),
      ("mul-is-field-mul", g 5 == F.mul ra rb && g 20 == g 5 && g 23 == g 5),
      ("neg-is-field-neg", g 6 == F.sub 0 ra && g 24 == g 6),
      ("add-associative", g 7 == g 8 && g 7 == F.add (F.add ra rb) rc),
      ("mul-associative", g 9 == g 10 && g 9 == F.mul (F.mul ra rb) rc),
      ("distributive", g 11 == g 12 && g 11 == F.mul ra (F.add rb rc)),
      ("zero-neutral", g 13 == g 0),
      ("one-neutral", g 14 == g 0),
      ("additive-inverse", g 15 == 0),
      ("is-zero-iff-multiple-of-p", g 16 == b2i (F.isZero ra)),
      ("is-one-iff-one", g 17 == b2i (F.eq ra 1)),
      ("harness-divisor-filter", g 25 == b2i bnz),
      ("div-is-field-div", !bnz || (g 26 == F.mul ra (F.inv rb) && g 29 == g 26 && g 30 == g 26)),
      ("div-then-mul", !bnz || g 27 == g 0),
      ("multiplicative-inverse", !bnz || g 28 == F.ofInt 1)]

/-! ### modular solver -/

def modsolveCase (inp out : Array String) : String × String :=
  match run (do
      let p ← P.int; let steps ← P.nat; let n ← P.nat; let k ← P.nat
      let a ← pMat n n; let b ← pMat n k
      pure (p, steps, n, k, a, b)) inp with
  | none => bad
  | some (p, steps, n, k, a, b) =>
    match Mat.ofLists? n n a, Mat.ofLists? n k b with
    | some A, some Bm =>
      let m := encOutcome (fun x => encRows meRat.enc n k x.toLists) (modSolve p steps A Bm)
      let Fp := zpF p
      let nonsing := !Fp.isZero (detF Fp n (ofIntMat Fp a))
      let s :=
        if isTok out "PANIC" then fail "no-panic"
        else if !oraclesAgree Fp n a then fail "oracles-agree"
        else if isTok out "ERR" then check [("solves-every-system-nonsingular-mod-p", !nonsing)]
        else match run (pOutMat seRat.dec) out with
          | some (r, c, x) =>
            check [("solution-shape", r == n && c == k),
                   ("exact-rational-solution", !nonsing || solutionOk ratF a b x k)]
          | none => fail "no-canonical-matrix-returned"
      (m, s)
    | _, _ => bad

/-! ### periodic graphs -/

def pgCase (inp out : Array String) : String × String :=
  match run (do
      let p ← P.int; let steps ← P.nat; let d ← P.nat; let ne ← P.nat
      let es ← P.rep ne (do
        let h ← P.nat; let t ← P.nat; let s ← P.rep d P.int
        pure (h, t, s))
      pure (p, steps, d, es)) inp with
  | none => bad
  | some (p, steps, d, es) =>
    let model : Outcome (List (Nat × List Q)) :=
      (PG.Graph.ofEdges (es.map fun e => ⟨e.1, e.2.1, e.2.2⟩)).bind fun g =>
        PG.placement p steps g
    let m := encOutcome (fun ps => joinToks (toString ps.length ::
      ps.map fun pq => joinToks (toString pq.1 :: pq.2.flatMap meRat.enc))) model
    let s :=
      if isTok out "PANIC" then fail "no-panic"
      else match run (do
          let nv ← P.nat
          let ps ← P.rep nv (do
            let v ← P.nat
            let xs ← P.rep d seRat.dec
            pure (v, xs))
          let fin ← P.atEnd
          if fin then pure ps else failure) out with
        | some ps => check [("placement-barycentric", barycentricOk es d ps)]
        | none => fail "no-positions-returned"
    (m, s)

def splitOp (op : String) : String × String :=
  match op.splitOn "_" with
  | [r, b] => (r, b)
  | _ => (op, "")

def handler : Handler := fun op inp out =>
  match op with
  | "prc_from" | "prc_from32" =>
    match run (do let p ← P.int; let n ← P.int; pure (p, n)) inp with
    | some (p, n) =>
      let s := if isTok out "PANIC" then fail "no-panic" else
        match run P.int out with
        | some v => check [("canonical-representative", canonicalFor p n v)]
        | none => fail "no-value-returned"
      (toString (PRC.toI64 (PRC.fromI64 p n)), s)
    | none => bad
  | "prc_frombig" =>
    match run (do let p ← P.int; let n ← P.int; pure (p, n)) inp with
    | some (p, n) =>
      let s := if isTok out "PANIC" then fail "no-panic" else
        match run P.int out with
        | some v => check [("canonical-representative", canonicalFor p n v)]
        | none => fail "no-value-returned"
      (toString (PRC.fromBigInt p n), s)
    | none => bad
  | "prc_field" =>
    match run (do let p ← P.int; let a ← P.int; let b ← P.int; let c ← P.int; pure (p, a, b, c)) inp with
    | some (p, a, b, c) => (fieldModel p a b c, fieldSpec p a b c out)
    | none => bad
  | "modsolve" => modsolveCase inp out
  | "pgpos" => pgCase inp out
  | "f64_all" | "mf64_all" => ("-", if isTok out "PANIC" then fail "no-panic" else ok)
  | _ =>
    let (r0, bk) := splitOp op
    -- the const-generic twin `Matrix<T, N, M>` (ops `m…`) is the same model
    let r := if r0.startsWith "m" then (r0.drop 1).toString else r0
    match bk with
    | "i" => matCase (meI64 PRC.chk) (some (meI64 .ok)) seInt r inp out
    | "q" => matCase meRat none seRat r inp out
    | "p" =>
      -- leading token: the modulus
      if h : 0 < inp.size then
        match inp[0].toInt? with
        | some p => matCase (mePrc p) none (sePrc p) r (inp.extract 1 inp.size) out
        | none => bad
      else bad
    | _ => ("-", fail s!"driver-unknown-op-{op}")

end DrvC18

def main : IO Unit := mainWith DrvC18.handler
