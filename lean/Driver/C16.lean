import DSymVerif.Driver.SymIO
import DSymVerif.Model.Simplify
import DSymVerif.Model.Canonical
import DSymVerif.Model.Morphism
import DSymVerif.Spec.C03
import DSymVerif.Spec.C16

open DSymVerif DSymVerif.Proto DSymVerif.DS

namespace DrvC16
open DSymVerif.Simp DSymVerif.SpecC02 DSymVerif.SpecC09 DSymVerif.SpecC16

/-! ### protocol -/

/-- `size dim op(1,0) … op(size,dim)` -/
def P.dset : P DSetData := do
  let size ← P.nat
  let dim ← P.nat
  let op ← P.rep (size * (dim + 1)) P.nat
  pure { size := size, dim := dim, op := op.toArray }

def P.pairs : P (List (Nat × Nat)) := do
  let n ← P.nat
  P.rep n (do let a ← P.nat; let b ← P.nat; pure (a, b))

def encDs (s : DSetData) : String :=
  joinToks (toString s.size :: toString s.dim ::
    (List.range s.size).flatMap (fun d0 => (List.range (s.dim + 1)).map (fun i => toString (s.opU i (d0 + 1)))))

def encStep : Step → String
  | .ok none => "N"
  | .ok (some .empty) => "E"
  | .ok (some (.dset s)) => "D " ++ encDs s
  | .err => "ERR"
  | .panic => "PANIC"

def encOptDs : Outcome (Option DSetData) → String
  | .ok none => "N"
  | .ok (some s) => "D " ++ encDs s
  | .err => "ERR"
  | .panic => "PANIC"

def encOutDs : Outcome DSetData → String
  | .ok s => "D " ++ encDs s
  | .err => "ERR"
  | .panic => "PANIC"

def encPairs (ps : List (Nat × Nat)) : String :=
  joinToks (toString ps.length :: ps.flatMap fun p => [toString p.1, toString p.2])

/-- a D-set as the Spec sees it (all branching numbers 1) -/
def specOfSet (s : DSetData) : G :=
  { size := s.size, dim := s.dim, op := fun i d => if i ≤ s.dim && 1 ≤ d && d ≤ s.size then s.opU i d else 0,
    v := fun _ _ => 1 }

def specOfRaw (s : RawSym) : G := { size := s.size, dim := s.dim, op := s.opAt, v := s.vAt }

def c03Sym (s : RawSym) : SpecC03.Sym := { size := s.size, dim := s.dim, op := s.op, v := s.v }

def rawOfSym (s : DSymData) : RawSym :=
  { size := s.size, dim := s.dim,
    op := ((List.range s.size).flatMap fun d0 => (List.range (s.dim + 1)).map fun i => s.dset.opU i (d0 + 1)).toArray,
    v := ((List.range s.dim).flatMap fun i => (List.range s.size).map fun d0 => (s.vAdj i (d0 + 1)).getD 0).toArray }

/-! ### Spec of `simplify` -/

def nodeBudget : Nat := 60000

/-- is the hypothesis of the topology clause confirmed for this input?
    1: the fundamental group is finite (Todd–Coxeter closes); 2: pseudo-toroidal (H₁ = Z³) -/
def hypothesisHolds (hyp : Nat) (pin : Pres) (iin : Invariants) : Bool :=
  if hyp == 1 then (orderTC pin 4000).isSome
  else if hyp == 2 then iin.h1 == some (3, [])
  else false

def simplifySpec (hyp : Nat) (gin : G) (out : Array String) : String :=
  if !isManifold gin then
    fail ("harness-input-outside-domain-" ++ (((manifoldClauses gin).find? (!·.2)).map (·.1)).getD "?")
  else if out == #["PANIC"] then
    (if hyp == 2 || hyp == 3 then fail "panic-on-pseudo-toroidal-cover" else ok)
  else if out == #["N"] then ok
  else
    match run (do let t ← P.tok; let s ← P.rawSym; let fin ← P.atEnd; pure (t, s, fin)) out with
    | some ("D", s, true) =>
      let gout := specOfRaw s
      let manifold := manifoldClauses gout
      if !(manifold.all (·.2)) then check manifold
      else if !connected gout then ok
      else
        let census := if hyp == 2 || hyp == 3 then censusClauses gout else []
        let topo :=
          if (hyp == 1 || hyp == 2) && connected gin then
            let pin := groupOf gin
            let iin := invariants pin nodeBudget
            if hypothesisHolds hyp pin iin then topologyClauses iin (invariants (groupOf gout) nodeBudget)
            else []
          else []
        check (census ++ topo)
    | _ => fail "unreadable-result"

/-! ### Spec of the invariance case -/

/-- tables of a Spec symbol -/
def symOfG (g : G) : SpecC03.Sym :=
  { size := g.size, dim := g.dim,
    op := (g.chambers.flatMap fun d => g.indices.map fun i => g.op i d).toArray,
    v := ((List.range g.dim).flatMap fun i => g.chambers.map fun d => g.v i d).toArray }

/-- the minimal image of a result, by partition refinement (Spec) -/
def keyOf (s : RawSym) : SpecC03.Sym := symOfG (SpecC16.minimalImage (specOfRaw s))

/-- one result of the invariance case: `N` or `D result key` -/
def P.invItem : P (Option (RawSym × RawSym)) := do
  let t ← P.tok
  if t == "N" then pure none
  else if t == "D" then do
    let r ← P.rawSym
    let k ← P.rawSym
    pure (some (r, k))
  else failure

def allEq {α} [BEq α] : List α → Bool
  | [] => true
  | x :: xs => xs.all (· == x)

def invSpec (n : Nat) (out : Array String) : String :=
  match run (do let items ← P.rep n P.invItem; let fin ← P.atEnd; pure (items, fin)) out with
  | some (items, true) =>
    if items.all (·.isNone) then ok
    else if items.any (·.isNone) then fail "some-numberings-give-a-result-and-some-do-not"
    else
      let rs := items.filterMap id
      let keys := rs.map (fun rk => keyOf rk.1)
      let libKeys := rs.map (fun rk => c03Sym rk.2)
      check [
        ("results-connected", rs.all fun rk => SpecC16.connected (specOfRaw rk.1)),
        ("minimal-images-isomorphic-across-numberings-and-runs",
          match keys with
          | [] => true
          | k :: ks => k.wellFormed && ks.all (fun k' => SpecC03.isomorphic k k')),
        ("library-key-equal-across-numberings-and-runs", allEq libKeys),
        ("library-key-isomorphic-to-independent-minimal-image",
          match libKeys.head?, keys.head? with
          | some lk, some k => SpecC03.isomorphic k lk
          | _, _ => false) ]
  | _ => fail "unreadable-result"

/-! ### inner walls are whole faces: a check of the implementation

`FGP.innerWallsAreFaces` (w-c09) proves about the model of `inner_edges` that the 3-edges it
declares inner come in whole faces (the junk list of `merge_tiles` is closed under s0 and s1); the
invariant theorems for `merge_tiles` / `merge_all` rest on it.  The clause below re-checks the same
fact on every explored input — on the junk list that the model, which the run compares with the
real `merge_tiles`, computes — as a pure check of the implementation. -/

def innerWallsSpec (ds : DSetData) : String :=
  match asDSym ds with
  | .ok sym =>
    (match FG.innerEdges sym with
     | .ok inner =>
       let junk := tilesJunk ds inner
       let mark := markOf ds.size junk
       check [("hypothesis-inner-walls-are-whole-faces",
         junk.all fun x => mark.getD (ds.opU 0 x) false && mark.getD (ds.opU 1 x) false)]
     | _ => ok)
  | _ => ok

/-! ### Spec of the steps that have no model payload (`split_and_glue`: HashSet order; `merge_all`
on D-sets above the size limit of the full `inner_edges` model)

Asked of the implementation's output whenever the input satisfies the same clauses: the clauses
that are proved invariants of every modelled step (`simplify_step_preserves_oriented_manifold`):
entries in range and involutive, complete, far operations commute and differ, no fixed points,
oriented (bipartite chamber graph).  For `split_and_glue` moreover: a returned D-set is strictly
smaller (the only results the code lets through).  Not asked: sphericity and the first homology —
neither is a proved step invariant, and `split_and_glue` may legitimately perform sphere surgery. -/

def stepClauses (g : G) : List (String × Bool) :=
  [ ("step-entries-in-range-and-involutive", inRangeInvolutive g),
    ("step-complete", g.complete),
    ("step-far-operations-commute", farCommute g),
    ("step-far-operations-differ", farDiffer g),
    ("step-no-fixed-points", g.loopless),
    ("step-oriented", g.bipartite) ]

def stepSpec (isSplit : Bool) (gin : G) (out : Array String) : String :=
  if !((stepClauses gin).all (·.2)) then ok
  else if out == #["PANIC"] || out == #["N"] || out == #["E"] then ok
  else
    match run (do let t ← P.tok; let s ← P.dset; let fin ← P.atEnd; pure (t, s, fin)) out with
    | some ("D", s, true) =>
      check (stepClauses (specOfSet s) ++
        (if isSplit then [("split-and-glue-result-is-strictly-smaller", decide (s.size < gin.size))] else []))
    | _ => fail "unreadable-result"

/-! ### the cut network of `split_and_glue` (explicit choice of `start`) -/

def sortPairs (l : List (Nat × Nat)) : List (Nat × Nat) :=
  l.foldl (fun acc p =>
    let rec ins : List (Nat × Nat) → List (Nat × Nat)
      | [] => [p]
      | q :: qs => if pairLt p q then p :: q :: qs else q :: ins qs
    ins acc) []

/-- `network_edges`: the deterministic prefix as it is, the two stars (HashSet order) sorted -/
def canonNet (k : Nat) (net : List (Nat × Nat)) : List (Nat × Nat) := net.take k ++ sortPairs (net.drop k)

def encOutPairs : Outcome (List (Nat × Nat)) → String
  | .ok l => encPairs l
  | .err => "ERR"
  | .panic => "PANIC"

def encCut : Outcome (List (Nat × Nat)) → String
  | .ok l => "S " ++ encPairs l
  | .err => "ERR"
  | .panic => "PANIC"

/-- every outcome `network_cut(ds, d, mode)` can have, over the iteration orders of `marked`:
    one per admissible start; `N` when there is none; `PANIC` as well when some member of `marked`
    has no 0-neighbour (the `unwrap` inside `find` may meet it first) -/
def netCutOutcomes (ds : DSetData) (d : Nat) (mode : Bool) : List String :=
  match networkCutPre ds d mode with
  | .ok pre =>
    let marked := memFn ds.size pre.marked
    let special := memFn ds.size pre.special
    let starts := admissibleStarts ds pre.marked
    let mayPanic := (View.sortDedup pre.marked).any fun e => (ds.opPartial 0 e).isNone
    let rs := (starts.map fun s => encCut (cutPairsInOrder ds s marked special)).eraseDups
    rs ++ (if mayPanic && !rs.contains "PANIC" then ["PANIC"] else []) ++ (if starts.isEmpty && !mayPanic then ["N"] else [])
  | .err => ["ERR"]
  | .panic => ["PANIC"]

/-- the model's answer among several admissible ones: the implementation's if it is admissible -/
def pickOutcome (cands : List String) (out : Array String) : String :=
  let o := joinToks out.toList
  if cands.contains o then o else cands.headD "?"

/-- the candidates of one call of `network_cut` inside `split_and_glue`, as entries of `cuts`
    (complete D-sets: every admissible start is a possible choice) -/
def sgCallCands (ds : DSetData) (d : Nat) (mode : Bool) : Outcome (List CutEntry) :=
  match networkCutPre ds d mode with
  | .ok pre =>
    let marked := memFn ds.size pre.marked
    let special := memFn ds.size pre.special
    (admissibleStarts ds pre.marked).foldl (fun (acc : Outcome (List CutEntry)) s =>
      match acc with
      | .ok es =>
        (match cutPairsInOrder ds s marked special with
         | .ok ordered =>
           (match makeKey ds d ordered with
            | .ok key =>
              let e : CutEntry := { key := key, d := d, ordered := ordered }
              .ok (if es.contains e then es else es ++ [e])
            | .err => .err
            | .panic => .panic)
         | .err => .err
         | .panic => .panic)
      | o => o) (.ok [])
  | .err => .err
  | .panic => .panic

/-- all calls of `split_and_glue` with their candidate entries (after the `key.0` filter) -/
def sgCalls (ds : DSetData) : Outcome (List (List CutEntry)) :=
  let faces := ds.viewPartial.orbitReps [0, 1, 3] (seedsIncl ds)
  let edges := (ds.viewPartial.orbitReps [0] (seedsIncl ds)).filter fun d => ds.viewPartial.r 2 3 d == .ok (some 3)
  let step (mode : Bool) (acc : Outcome (List (List CutEntry))) (d : Nat) : Outcome (List (List CutEntry)) :=
    match acc with
    | .ok cs =>
      (match sgCallCands ds d mode with
       | .ok es =>
         let kept := es.filter fun e => if mode then e.key.1 == 0 else decide (e.key.1 < 0)
         .ok (if kept.isEmpty then cs else cs ++ [kept])
       | .err => .err
       | .panic => .panic)
    | o => o
  edges.foldl (step true) (faces.foldl (step false) (.ok []))

/-- is the key the same for all candidates of a call (true whenever the candidates are rotations or
    mirror images of one another)? -/
def uniformKey (es : List CutEntry) : Bool :=
  match es with
  | [] => true
  | e :: rest => rest.all fun e' => e'.key == e.key

/-- The results `split_and_glue` can return over all choices of `start`, matched against the
    implementation's.  With uniform keys the order of the calls in `cuts` is fixed; the call whose
    attempt first yields a smaller D-set wins, so the implementation's result must be a successful
    attempt of some candidate of a call all of whose predecessors have a failing candidate. -/
def sgMatch (ds : DSetData) (out : Array String) : String :=
  let o := joinToks out.toList
  match sgCalls ds with
  | .ok calls =>
    let isWin (r : Step) : Bool :=
      match r with
      | .ok (some (.dset s)) => decide (s.size < ds.size)
      | .ok _ => false
      | _ => true          -- a panic ends the run as well
    if calls.all uniformKey then
      let sorted := cutSort (calls.filterMap List.head?)
      let rec go : List CutEntry → String
        | [] => "N"
        | c :: rest =>
          let cands := (calls.find? fun es => es.head?.map (·.d) == some c.d && es.head?.map (·.key) == some c.key).getD [c]
          let rs := cands.map (sgTry ds)
          let wins := (rs.filter isWin).map encStep
          if wins.contains o then o
          else if rs.all isWin then wins.headD "?"
          else go rest
      go sorted
    else
      -- keys depend on the choice: the order of `cuts` does too; accept any attempt that wins
      let wins := (calls.flatMap fun es => (es.map (sgTry ds)).filter isWin).map encStep
      if wins.contains o then o else if o == "N" then "N" else wins.headD "N"
  | .err => "ERR"
  | .panic => "PANIC"

/-! ### handler -/

def dsOnly (inp : Array String) : Option DSetData :=
  run (do let s ← P.dset; let fin ← P.atEnd; if fin then pure s else failure) inp

def handler : Handler := fun op inp out =>
  let bad := ("-", fail "driver-cannot-parse-input")
  match op with
  | "simplify" | "simplify_sds" | "simplify_ssym" =>
    (match run (do let h ← P.nat; let s ← P.dset; let fin ← P.atEnd; pure (h, s, fin)) inp with
     | some (hyp, s, true) => ("-", simplifySpec hyp (specOfSet s) out)
     | _ => bad)
  | "simplify_inv" =>
    (match run (do let k ← P.nat; let r ← P.nat; pure (k, r)) inp with
     | some (k, r) => ("-", invSpec (k * r) out)
     | none => bad)
  | "corpus_cover" =>
    ("-", if out == #["N"] then fail "corpus-symbol-has-no-pseudo-toroidal-cover" else ok)
  | "split_and_glue_s" | "merge_all_s" =>
    (match dsOnly inp with
     | some s => ("-", stepSpec (op == "split_and_glue_s") (specOfSet s) out)
     | none => bad)
  | "split_and_glue" =>
    (match dsOnly inp with
     | some s => (sgMatch s out, stepSpec true (specOfSet s) out)
     | none => bad)
  | "net_edges" =>
    (match run (do let s ← P.dset; let d ← P.nat; let m ← P.nat; let e2i ← P.nats; let es ← P.pairs
                   let so ← P.nat; let si ← P.nat; let fin ← P.atEnd; pure (s, d, m, e2i, es, so, si, fin)) inp with
     | some (s, d, m, e2i, es, so, si, true) =>
       (match networkEdges s d (m == 1) e2i.toArray es so si with
        | .ok net => (encPairs (canonNet es.length net), ok)
        | .err => ("ERR", ok)
        | .panic => ("PANIC", ok))
     | _ => bad)
  | "cut_insides" =>
    (match run (do let cv ← P.nats; let iv ← P.nats; let reps ← P.nats; let s ← P.dset; let d ← P.nat
                   let fin ← P.atEnd; pure (cv, iv, reps, s, d, fin)) inp with
     | some (cv, iv, reps, s, d, true) =>
       (match cutWithInsides cv iv reps s d with
        | .ok l => (encNats l, ok)
        | .err => ("ERR", ok)
        | .panic => ("PANIC", ok))
     | _ => bad)
  | "make_key" =>
    (match run (do let s ← P.dset; let d ← P.nat; let ps ← P.pairs; let fin ← P.atEnd; pure (s, d, ps, fin)) inp with
     | some (s, d, ps, true) =>
       (match makeKey s d ps with
        | .ok k => (joinToks [toString k.1, toString k.2.1, toString k.2.2], ok)
        | .err => ("ERR", ok)
        | .panic => ("PANIC", ok))
     | _ => bad)
  | "cut_pairs" =>
    (match run (do let s ← P.dset; let st ← P.nat; let mk ← P.nats; let sp ← P.nats; let fin ← P.atEnd
                   pure (s, st, mk, sp, fin)) inp with
     | some (s, st, mk, sp, true) => (encOutPairs (cutPairsInOrder s st (memFn s.size mk) (memFn s.size sp)), ok)
     | _ => bad)
  | "net_cut" =>
    (match run (do let s ← P.dset; let d ← P.nat; let m ← P.nat; let fin ← P.atEnd; pure (s, d, m, fin)) inp with
     | some (s, d, m, true) => (pickOutcome (netCutOutcomes s d (m == 1)) out, ok)
     | _ => bad)
  | "sg_attempt" =>
    (match run (do let s ← P.dset; let g ← P.nat; let ps ← P.pairs; let fin ← P.atEnd; pure (s, g, ps, fin)) inp with
     | some (s, g, ps, true) => (encStep (splitAndGlueAttempt s g ps), ok)
     | _ => bad)
  | "collapse" =>
    (match run (do let s ← P.dset; let rem ← P.nats; let c ← P.nat; let fin ← P.atEnd; pure (s, rem, c, fin)) inp with
     | some (s, rem, c, true) => (encStep (collapse (.dset s) rem c), ok)
     | _ => bad)
  | "reglue" =>
    (match run (do let s ← P.dset; let ps ← P.pairs; let i ← P.nat; let fin ← P.atEnd; pure (s, ps, i, fin)) inp with
     | some (s, ps, i, true) => (encOptDs (reglue s ps i), ok)
     | _ => bad)
  | "grow" =>
    (match run (do let s ← P.dset; let m ← P.nat; let fin ← P.atEnd; pure (s, m, fin)) inp with
     | some (s, m, true) => (encOutDs (grow s m), ok)
     | _ => bad)
  | "cut_face" =>
    (match run (do let s ← P.dset; let a ← P.nat; let b ← P.nat; let fin ← P.atEnd; pure (s, a, b, fin)) inp with
     | some (s, a, b, true) => (encOutDs (cutFace s a b), ok)
     | _ => bad)
  | "cut_tile" =>
    (match run (do let s ← P.dset; let cut ← P.nats; let fin ← P.atEnd; pure (s, cut, fin)) inp with
     | some (s, cut, true) => (encOutDs (cutTile s cut), ok)
     | _ => bad)
  | "squeeze" =>
    (match run (do let s ← P.dset; let a ← P.nat; let b ← P.nat; let fin ← P.atEnd; pure (s, a, b, fin)) inp with
     | some (s, a, b, true) => (encOutDs (squeezeTile3d s a b), ok)
     | _ => bad)
  | "merge_tiles" =>
    (match dsOnly inp with
     | some s => (encStep (mergeTiles (.dset s)), innerWallsSpec s)
     | none => bad)
  | "merge_tiles_g" =>
    (match run (do let s ← P.dset; let inner ← P.pairs; let fin ← P.atEnd; pure (s, inner, fin)) inp with
     | some (s, inner, true) => (encStep (collapse (.dset s) (tilesJunk s inner) 3), ok)
     | _ => bad)
  | "merge_facets" =>
    (match dsOnly inp with
     | some s => (encStep (mergeFacets (.dset s)), ok)
     | none => bad)
  | "merge_all" =>
    (match dsOnly inp with
     | some s => (encStep (mergeAll (.dset s)), ok)
     | none => bad)
  | "fix1" =>
    (match dsOnly inp with
     | some s => (encStep (fixLocal1Vertex (.dset s)), ok)
     | none => bad)
  | "fix2" =>
    (match dsOnly inp with
     | some s => (encStep (fixLocal2Vertex (.dset s)), ok)
     | none => bad)
  | "fnd" =>
    (match dsOnly inp with
     | some s => (encStep (fixNonDiskFace (.dset s)), ok)
     | none => bad)
  | "skeleton" =>
    (match dsOnly inp with
     | some s =>
       (match makeSkeleton s with
        | .ok (e2i, reps, edges) => (joinToks [encNats e2i.toList, encNats reps, encPairs edges], ok)
        | .err => ("ERR", ok)
        | .panic => ("PANIC", ok))
     | none => bad)
  | _ => ("-", fail s!"driver-unknown-op-{op}")

end DrvC16

def main : IO Unit := mainWith DrvC16.handler
