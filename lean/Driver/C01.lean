import DSymVerif.Driver.SymIO
import DSymVerif.Model.Text
import DSymVerif.Spec.C01

open DSymVerif DSymVerif.Proto DSymVerif.DS

/-
Driver of property C01.

  parse <n b₁ … b_n>                      the string as bytes
      OUT  ERR | PANIC | OK <sym> <n text bytes> <again>
  print <rep> <setCount> <symCount> <sym-in>   rep ∈ pset sset psym ssym
      OUT  <n text bytes> <again>
  bigprint <rep> <setCount> <symCount> <sym-in>        symbols with ≥ 10^4 chambers: Spec only
      OUT  <text length> <again>
  bigparse <layout> <sym-in>              the harness writes the text of sym-in itself and parses it
      OUT  <text length> (ERR | PANIC | OK <sym> <again>)
  bigdigest <what> <size> <dim>           ≥ 2^20 chambers: the tables stay in the harness, which
      OUT  <text length> <bits…>           compares them with its own code and reports verdict bits
  <sym>   := size dim op… v… m…   (SymIO layout, then m(i,i+1,d) for i < dim, d = 1..size)
  <again> := ERR | PANIC | OK <sym>       result of parsing the printed text

Decoding is array based (no recursion over the token list): answers hold millions of tokens.
-/
namespace DrvC01
open DSymVerif.Text DSymVerif.SpecC01

def bytesToChars (bs : List Nat) : List Char := bs.map Char.ofNat
def charsToBytes (cs : List Char) : List Nat := cs.map Char.toNat

def encSymM (s : DSymData) : String :=
  let ms := (List.range s.dim).flatMap fun i => (List.range s.size).map fun d0 => (s.mAdj i (d0 + 1)).getD 0
  joinToks [encSym s, natsToString ms]

def encRes (r : Outcome DSymData) : String :=
  match r with
  | .ok s => joinToks ["OK", encSymM s]
  | .err => "ERR"
  | .panic => "PANIC"

/-- model: text of a parsed symbol and the result of parsing it again -/
def textAndAgain (p : Printable) : String :=
  match fmt p with
  | .ok cs => joinToks [encNats (charsToBytes cs), encRes (parse cs)]
  | .err => "ERR"
  | .panic => "PANIC"

def modelParse (cs : List Char) : String :=
  match parse cs with
  | .ok s => joinToks ["OK", encSymM s, textAndAgain (Printable.ofPartialDSym s 1)]
  | .err => "ERR"
  | .panic => "PANIC"

/-! decoding the implementation's answer: a cursor `(tokens, position)`, loops only -/

abbrev D := StateT Nat Option

def D.tok (a : Array String) : D String := fun i =>
  if h : i < a.size then some (a[i], i + 1) else none

def D.nat (a : Array String) : D Nat := do
  let t ← D.tok a
  match t.toNat? with
  | some v => pure v
  | none => failure

/-- the next n tokens as numbers -/
def D.nats (a : Array String) (n : Nat) : D (Array Nat) := fun i =>
  if i + n ≤ a.size then
    match (a.extract i (i + n)).mapM String.toNat? with
    | some v => some (v, i + n)
    | none => none
  else none

/-- a length-prefixed list -/
def D.lnats (a : Array String) : D (Array Nat) := do
  let n ← D.nat a
  D.nats a n

def D.rawSym (a : Array String) : D RawSym := do
  let size ← D.nat a
  let dim ← D.nat a
  let op ← D.nats a (size * (dim + 1))
  let v ← D.nats a (dim * size)
  pure { size := size, dim := dim, op := op, v := v }

def specSym (s : RawSym) (m : Array Nat) : Sym :=
  { size := s.size, dim := s.dim, op := s.opAt, v := s.vAt,
    m := fun i d => m.getD (i * s.size + (d - 1)) 0 }

def D.symM (a : Array String) : D Sym := do
  let s ← D.rawSym a
  let m ← D.nats a (s.dim * s.size)
  pure (specSym s m)

def D.res (a : Array String) : D Res := do
  let t ← D.tok a
  match t with
  | "ERR" => pure Res.err
  | "PANIC" => pure Res.panic
  | "OK" => do let s ← D.symM a; pure (Res.ok s)
  | _ => failure

def D.done (a : Array String) : D Unit := fun i => if i ≥ a.size then some ((), i) else none

def runD {α} (p : D α) : Option α := (p 0).map (·.1)

/-- the symbol handed to a `print` case, with degrees from the Spec's own orbit lengths -/
def inputSym (s : RawSym) (isSym : Bool) : Sym :=
  let base : Sym := { size := s.size, dim := s.dim, op := s.opAt, v := fun _ _ => 0, m := fun _ _ => 0 }
  if isSym then
    if s.size ≤ naiveLimit then
      { base with v := s.vAt, m := fun i d => (base.orbitLen i d).getD 0 * s.vAt i d }
    else
      let tabs := (List.range s.dim).toArray.map fun i => base.orbitLenTable i
      { base with v := s.vAt, m := fun i d => (tabs.getD i #[]).getD d 0 * s.vAt i d }
  else base

def printable (rep : String) (s : RawSym) (setc symc : Nat) : Option Printable :=
  match rep with
  | "pset" => some (Printable.ofPartialDSet s.dsetData)
  | "sset" => some (Printable.ofSimpleDSet s.dsetData setc)
  | "psym" => match s.toSym with
    | .ok y => some (Printable.ofPartialDSym y setc)
    | _ => none
  | "ssym" => match s.toSym with
    | .ok y => some (Printable.ofSimpleDSym y setc symc)
    | _ => none
  | _ => none

def isSymRep (rep : String) : Bool := rep == "psym" || rep == "ssym"

def bit (b : Nat) : Bool := b == 1

def handler : Handler := fun op inp out =>
  let bad := ("-", fail "driver-cannot-parse-input")
  match op with
  | "parse" =>
    match runD (D.lnats inp) with
    | some bs =>
      let model := modelParse (bytesToChars bs.toList)
      if out == #["ERR"] then (model, ok)
      else if out == #["PANIC"] then (model, fail "parsing-never-panics")
      else
        match runD (do
            let t ← D.tok out
            if t != "OK" then failure
            let s ← D.symM out
            let _text ← D.lnats out
            let again ← D.res out
            D.done out
            pure (s, again)) with
        | some (s, again) => (model, check (parsedClauses (Res.ok s) ++ reparseClauses s again))
        | none => (model, fail "answer-not-understood")
    | none => bad
  | "print" =>
    match runD (do
        let rep ← D.tok inp
        let setc ← D.nat inp
        let symc ← D.nat inp
        let s ← D.rawSym inp
        pure (rep, setc, symc, s)) with
    | some (rep, setc, symc, s) =>
      match printable rep s setc symc with
      | none => bad
      | some p =>
        let model := textAndAgain p
        if out == #["PANIC"] then (model, fail "printing-never-panics")
        else
          match runD (do let _text ← D.lnats out; let again ← D.res out; D.done out; pure again) with
          | some again => (model, check (printClauses (inputSym s (isSymRep rep)) again))
          | none => (model, fail "answer-not-understood")
    | none => bad
  | "bigprint" =>
    match runD (do
        let rep ← D.tok inp
        let _setc ← D.nat inp
        let _symc ← D.nat inp
        let s ← D.rawSym inp
        pure (rep, s)) with
    | some (rep, s) =>
      if out == #["PANIC"] then ("-", fail "printing-never-panics")
      else
        match runD (do let _len ← D.nat out; let again ← D.res out; D.done out; pure again) with
        | some again => ("-", check (printClauses (inputSym s (isSymRep rep)) again))
        | none => ("-", fail "answer-not-understood")
    | none => bad
  | "bigparse" =>
    if out == #["PANIC"] then ("-", fail "parsing-never-panics")
    else
      match runD (do
          let _len ← D.nat out
          let t ← D.tok out
          match t with
          | "ERR" => do D.done out; pure none
          | "OK" => do
            let s ← D.symM out
            let again ← D.res out
            D.done out
            pure (some (s, again))
          | _ => failure) with
      | some none => ("-", ok)
      | some (some (s, again)) => ("-", check (parsedClauses (Res.ok s) ++ reparseClauses s again))
      | none => ("-", fail "answer-not-understood")
  | "bigdigest" =>
    -- verdict bits computed by the harness's own table comparison (tables of 2^20+ chambers are
    -- not shipped): printed, parsed-back, equal tables, involutions, second round trip equal
    if out == #["PANIC"] then ("-", fail "printing-or-parsing-never-panics")
    else
      match out.toList.map String.toNat? with
      | [some _len, some parsed, some equal, some invol, some again, some equal2] =>
        ("-", check [
          ("printed-text-parses-again", bit parsed),
          ("printed-text-parses-to-the-same-symbol", bit equal),
          ("parsed-ops-are-involutions-on-1..size", bit invol),
          ("printed-text-parses-again", bit again),
          ("printed-text-parses-to-the-same-symbol", bit equal2)])
      | _ => ("-", fail "answer-not-understood")
  | "setup" => ("-", fail "library-constructor-panicked-while-building-the-input-universe")
  | _ => ("-", fail s!"driver-unknown-op-{op}")

end DrvC01

def main : IO Unit := mainWith DrvC01.handler
