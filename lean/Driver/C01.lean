import DSymVerif.Driver.SymIO
import DSymVerif.Model.Text
import DSymVerif.Spec.C01

open DSymVerif DSymVerif.Proto DSymVerif.DS

/-
Driver of property C01.

  parse <n b₁ … b_n>                      the string as bytes
      OUT  ERR | PANIC | OK <sym> <n text bytes> <again>
  print <rep> <setCount> <symCount> <sym-in>   rep ∈ pset sset psym ssym
      OUT  <n text bytes> <again>
  <sym>   := size dim op… v… m…   (SymIO layout, then m(i,i+1,d) for i < dim, d = 1..size)
  <again> := ERR | PANIC | OK <sym>       result of parsing the printed text
-/
namespace DrvC01
open DSymVerif.Text DSymVerif.SpecC01

def bytesToChars (bs : List Nat) : List Char := bs.map Char.ofNat
def charsToBytes (cs : List Char) : List Nat := cs.map Char.toNat

def encSymM (s : DSymData) : String :=
  let ms := (List.range s.dim).flatMap fun i => (List.range s.size).map fun d0 => (s.mAdj i (d0 + 1)).getD 0
  joinToks [encSym s, natsToString ms]

def encRes (r : Outcome DSymData) : String :=
  match r with
  | .ok s => joinToks ["OK", encSymM s]
  | .err => "ERR"
  | .panic => "PANIC"

/-- model: text of a parsed symbol and the result of parsing it again -/
def textAndAgain (p : Printable) : String :=
  match fmt p with
  | .ok cs => joinToks [encNats (charsToBytes cs), encRes (parse cs)]
  | .err => "ERR"
  | .panic => "PANIC"

def modelParse (cs : List Char) : String :=
  match parse cs with
  | .ok s => joinToks ["OK", encSymM s, textAndAgain (Printable.ofPartialDSym s 1)]
  | .err => "ERR"
  | .panic => "PANIC"

/-! decoding the implementation's answer -/

def specSym (s : RawSym) (m : Array Nat) : Sym :=
  { size := s.size, dim := s.dim, op := s.opAt, v := s.vAt,
    m := fun i d => m.getD (i * s.size + (d - 1)) 0 }

def P.symM : P Sym := do
  let s ← P.rawSym
  let m ← P.rep (s.dim * s.size) P.nat
  pure (specSym s m.toArray)

def P.res : P Res := do
  let t ← P.tok
  match t with
  | "ERR" => pure Res.err
  | "PANIC" => pure Res.panic
  | "OK" => do let s ← P.symM; pure (Res.ok s)
  | _ => failure

def P.done : P Unit := do
  let e ← P.atEnd
  if e then pure () else failure

/-- the symbol handed to a `print` case, with degrees from the Spec's own orbit lengths -/
def inputSym (s : RawSym) (isSym : Bool) : Sym :=
  let base : Sym := { size := s.size, dim := s.dim, op := s.opAt, v := fun _ _ => 0, m := fun _ _ => 0 }
  if isSym then
    { base with v := s.vAt, m := fun i d => (base.orbitLen i d).getD 0 * s.vAt i d }
  else base

def printable (rep : String) (s : RawSym) (setc symc : Nat) : Option Printable :=
  match rep with
  | "pset" => some (Printable.ofPartialDSet s.dsetData)
  | "sset" => some (Printable.ofSimpleDSet s.dsetData setc)
  | "psym" => match s.toSym with
    | .ok y => some (Printable.ofPartialDSym y setc)
    | _ => none
  | "ssym" => match s.toSym with
    | .ok y => some (Printable.ofSimpleDSym y setc symc)
    | _ => none
  | _ => none

def handler : Handler := fun op inp out =>
  let bad := ("-", fail "driver-cannot-parse-input")
  match op with
  | "parse" =>
    match run P.nats inp with
    | some bs =>
      let model := modelParse (bytesToChars bs)
      if out == #["ERR"] then (model, ok)
      else if out == #["PANIC"] then (model, fail "parsing-never-panics")
      else
        match run (do
            let t ← P.tok
            if t != "OK" then failure
            let s ← P.symM
            let _text ← P.nats
            let again ← P.res
            P.done
            pure (s, again)) out with
        | some (s, again) => (model, check (parsedClauses (Res.ok s) ++ reparseClauses s again))
        | none => (model, fail "answer-not-understood")
    | none => bad
  | "print" =>
    match run (do
        let rep ← P.tok
        let setc ← P.nat
        let symc ← P.nat
        let s ← P.rawSym
        pure (rep, setc, symc, s)) inp with
    | some (rep, setc, symc, s) =>
      match printable rep s setc symc with
      | none => bad
      | some p =>
        let model := textAndAgain p
        if out == #["PANIC"] then (model, fail "printing-never-panics")
        else
          match run (do let _text ← P.nats; let again ← P.res; P.done; pure again) out with
          | some again =>
            (model, check (printClauses (inputSym s (rep == "psym" || rep == "ssym")) again))
          | none => (model, fail "answer-not-understood")
    | none => bad
  | "setup" => ("-", fail "library-constructor-panicked-while-building-the-input-universe")
  | _ => ("-", fail s!"driver-unknown-op-{op}")

end DrvC01

def main : IO Unit := mainWith DrvC01.handler
