import DSymVerif.Driver.Proto
import DSymVerif.Model.FreeWord
import DSymVerif.Model.Cosets
import DSymVerif.Spec.C11

open DSymVerif DSymVerif.Proto

namespace DrvC11
open DSymVerif.Cosets DSymVerif.SpecC11

/-- one corpus group + subgroup, as echoed in the IN line:
    `name order nrGens rels subs degree images` -/
structure Inp where
  name : String
  order : Nat
  n : Nat
  rels : List (List Int)
  subs : List (List Int)
  d : Nat
  imgs : Array Perm

def parseInp : P Inp := do
  let name ← P.tok
  let order ← P.nat
  let n ← P.nat
  let rels ← P.intss
  let subs ← P.intss
  let d ← P.nat
  let imgs ← P.natss
  pure { name, order, n, rels, subs, d, imgs := (imgs.map List.toArray).toArray }

def tabOfLists (ls : List (List Int)) : Tab := (ls.map List.toArray).toArray
def encTab (t : Tab) : String := encIntss (t.toList.map Array.toList)
def encTabOpt : Option Tab → String
  | some t => encTab t
  | none => "0"

def parseReps : P (List (Nat × List Int)) := do
  let k ← P.nat
  P.rep k (do let r ← P.nat; let w ← P.ints; pure (r, w))

def encReps (reps : List (Nat × List Int)) : String :=
  joinToks (toString reps.length :: reps.map (fun (k, w) => s!"{k} {encInts w}"))

def modelTable (i : Inp) : Outcome (List (List Int)) :=
  match cosetTable i.n (i.rels.map FW.new) (i.subs.map FW.new) with
  | .ok t => t.view
  | .err => .err
  | .panic => .panic

/-- `usize::MAX` on the 64-bit target of the harness -/
def usizeMax : Nat := 18446744073709551615

/-- the model's answers to the harness's probes outside the table -/
def probeRow (t : Table) (c : Nat) : Outcome (List Int) :=
  t.allGens.foldr (fun g acc =>
    match t.get c g, acc with
    | .ok (some d), .ok r => .ok ((d : Int) :: r)
    | .ok none, .ok r => .ok (-1 :: r)
    | .panic, _ => .panic
    | _, .panic => .panic
    | _, _ => .err) (.ok [])

def modelCt (i : Inp) : Outcome String :=
  match cosetTable i.n (i.rels.map FW.new) (i.subs.map FW.new) with
  | .ok t =>
    match t.view, probeRow t t.len, probeRow t usizeMax with
    | .ok v, .ok p1, .ok p2 =>
      .ok s!"{encIntss v} {encTabOpt (renumberFrom (tabOfLists v) i.n 0)} {t.nrGens} {encInts p1} {encInts p2}"
    | .panic, _, _ => .panic
    | _, .panic, _ => .panic
    | _, _, .panic => .panic
    | _, _, _ => .err
  | .err => .err
  | .panic => .panic

def outcomeStr {α} (f : α → String) : Outcome α → String
  | .ok a => f a
  | .err => "MODEL-FUEL"
  | .panic => "PANIC"

def handler : Handler := fun op inp out =>
  let bad := ("-", fail "driver-cannot-parse-input")
  match run parseInp inp with
  | none => bad
  | some i =>
    let corpus := corpusClauses i.n i.rels i.d i.imgs i.order
    match op with
    | "ct" =>
      let m := outcomeStr id (modelCt i)
      match run (do let t ← P.intss; let b ← P.intss; let g ← P.nat; let p1 ← P.ints; let p2 ← P.ints
                    pure (t, b, g, p1, p2)) out with
      | none => (m, fail "no-table-returned")
      | some (tl, _, g, p1, p2) =>
        let t := tabOfLists tl
        (m, check (corpus ++ validTableClauses t i.n i.rels i.subs ++
          [("rows-equal-index", exactIndex t.size i.subs i.d i.imgs),
           ("nr-gens-and-get-beyond-last-row-is-none", probesOk i.n g p1 p2)]))
    | "ct_nc" =>
      -- presentations without a stored permutation representation: validity clauses only
      let m := outcomeStr id (modelCt i)
      match run (do let t ← P.intss; let b ← P.intss; let g ← P.nat; let p1 ← P.ints; let p2 ← P.ints
                    pure (t, b, g, p1, p2)) out with
      | none => (m, fail "no-table-returned")
      | some (tl, _, g, p1, p2) =>
        let t := tabOfLists tl
        (m, check (validTableClauses t i.n i.rels i.subs ++
          [("nr-gens-and-get-beyond-last-row-is-none", probesOk i.n g p1 p2)]))
    | "reps" =>
      match run (do let t ← P.intss; let r ← parseReps; pure (t, r)) out with
      | none =>
        (outcomeStr (fun _ => "-") (modelTable i), fail "no-representatives-returned")
      | some (tl, reps) =>
        let t := tabOfLists tl
        -- The property fixes a representative only up to the coset it represents (any word that traces
        -- from row 0 to its row), not the word: the model's breadth-first words and the
        -- implementation's are compared by the row each word reaches in the table.  When every
        -- implementation word reaches the row the model's word for that row reaches (i.e. its own row)
        -- the implementation's tokens are echoed as the model payload; otherwise the model's words are
        -- printed and the orchestrator reports the disagreement.
        let mr := cosetRepresentative (Table.ofView i.n t)
        let ok := repsOk t i.n reps
        let m := match mr with
          | .ok r => if ok then joinToks out.toList else s!"{encTab t} {encReps r}"
          | o => outcomeStr (fun r => s!"{encTab t} {encReps r}") o
        (m, check [("one-representative-per-row-tracing-to-it", ok)])
    | _ => ("-", fail s!"driver-unknown-op-{op}")

end DrvC11

def main : IO Unit := mainWith DrvC11.handler
