import DSymVerif.Driver.SymIO
import DSymVerif.Model.Canonical
import DSymVerif.Spec.C03

open DSymVerif DSymVerif.Proto DSymVerif.DS

namespace DrvC03
open DSymVerif.SpecC03

def specSym (s : RawSym) : Sym := { size := s.size, dim := s.dim, op := s.op, v := s.v }

/-- model: canonical form of a transmitted symbol, as protocol tokens -/
def modelCanon (s : RawSym) : Outcome DSymData :=
  match s.toSym with
  | .ok y => canonical y
  | .err => .err
  | .panic => .panic

def encOutcomeSym (o : Outcome DSymData) : String :=
  match o with
  | .ok c => encSym c
  | .err => "ERR"
  | .panic => "PANIC"

/-- canonical forms of a list of symbols: the model payload and nothing else -/
def modelCanons (ss : List RawSym) : String :=
  joinToks (ss.map fun s => encOutcomeSym (modelCanon s))

def P.syms (n : Nat) : P (List RawSym) := P.rep n P.rawSym

def parseSyms (n : Nat) (out : Array String) : Option (List Sym) :=
  match run (do let ss ← P.syms n; let e ← P.atEnd; pure (ss, e)) out with
  | some (ss, true) => some (ss.map specSym)
  | _ => none

def handler : Handler := fun op inp out =>
  let bad := ("-", fail "driver-cannot-parse-input")
  match op with
  | "canon" | "canon_s" =>
    -- IN sym ; OUT canonical(sym)  code  map
    match run P.rawSym inp with
    | some s =>
      let a := specSym s
      let model : String :=
        match s.toSym with
        | .ok y =>
          (match minimalTraversalCode y with
           | .ok best =>
             (match rebuild y best.map with
              | .ok c => joinToks [encSym c, encInts best.code, encNats best.map.toList]
              | _ => "PANIC")
           | _ => "PANIC")
        | _ => "PANIC"
      match run (do let c ← P.rawSym; let code ← P.ints; let m ← P.nats; let e ← P.atEnd; pure (c, code, m, e)) out with
      | some (c, _code, m, true) =>
        let c := specSym c
        (model, check [
          ("input-in-domain", inDomain a),
          ("canonical-form-is-a-symbol", c.wellFormed && c.vOnOrbits),
          ("canonical-form-isomorphic-to-input", isomorphic a c),
          ("traversal-map-is-that-isomorphism", isIso m.toArray a c)])
      | _ => (model, fail "no-canonical-form-returned")
    | none => bad
  | "idem" =>
    -- IN sym ; OUT canonical(sym) canonical(canonical(sym))
    match run P.rawSym inp with
    | some s =>
      let m1 := modelCanon s
      let m2 := match m1 with
        | .ok c => canonical c
        | o => o
      let model := joinToks [encOutcomeSym m1, encOutcomeSym m2]
      match parseSyms 2 out with
      | some [c1, c2] =>
        (model, check [
          ("input-in-domain", inDomain (specSym s)),
          ("canonical-form-is-a-fixed-point", c1 == c2)])
      | _ => (model, fail "no-canonical-form-returned")
    | none => bad
  | "renum" | "renum_s" =>
    -- IN sym k (perm_j sym_j)*k ; OUT canonical(sym) canonical(sym_1) … canonical(sym_k)
    match run (do
        let s ← P.rawSym
        let k ← P.nat
        let rs ← P.rep k (do let p ← P.nats; let b ← P.rawSym; pure (p, b))
        pure (s, rs)) inp with
    | some (s, rs) =>
      let a := specSym s
      let model := modelCanons (s :: rs.map (·.2))
      match parseSyms (rs.length + 1) out with
      | some (c0 :: cs) =>
        (model, check [
          ("input-in-domain", inDomain a),
          ("harness-error-renumbered-input-outside-domain", rs.all fun (_, b) => inDomain (specSym b)),
          ("inputs-are-renumberings", rs.all fun (p, b) => isIso p.toArray a (specSym b)),
          ("renumbering-is-what-the-definition-says", rs.all fun (p, b) => renumber a p.toArray == specSym b),
          ("canonical-form-invariant-under-renumbering", cs.all (· == c0))])
      | _ => (model, fail "no-canonical-form-returned")
    | none => bad
  | "pair" =>
    -- IN a b ; OUT canonical(a) canonical(b)
    match run (do let a ← P.rawSym; let b ← P.rawSym; pure (a, b)) inp with
    | some (sa, sb) =>
      let a := specSym sa
      let b := specSym sb
      let model := modelCanons [sa, sb]
      match parseSyms 2 out with
      | some [ca, cb] =>
        (model, check [
          ("input-in-domain", inDomain a && inDomain b),
          ("equal-canonical-forms-iff-isomorphic", separationClause a b ca cb)])
      | _ => (model, fail "no-canonical-form-returned")
    | none => bad
  | "seeds" =>
    -- IN sym ; OUT minimal-code (code_d map_d) for d = 1..size
    match run P.rawSym inp with
    | some s =>
      let a := specSym s
      let model : String :=
        match s.toSym with
        | .ok y =>
          (match minimalTraversalCode y with
           | .ok best =>
             joinToks (encInts best.code :: (List.range y.size).map fun d0 =>
               match traversalCode y (d0 + 1) with
               | .ok c => joinToks [encInts c.code, encNats c.map.toList]
               | _ => "PANIC")
           | _ => "PANIC")
        | _ => "PANIC"
      match run (do
          let best ← P.ints
          let cms ← P.rep s.size (do let c ← P.ints; let m ← P.nats; pure (c, m.toArray))
          let e ← P.atEnd
          pure (best, cms, e)) out with
      | some (best, cms, true) =>
        (model, check [
          ("input-in-domain", inDomain a),
          ("every-seed-numbers-all-chambers", seedsNumberAll a.size (cms.map (·.2))),
          ("all-codes-have-one-length", codesOneLength (cms.map (·.1))),
          ("equal-codes-rebuild-equal-symbols", equalCodesEqualSymbols a cms),
          ("minimal-code-is-the-least-code", isLeastCode best (cms.map (·.1)))])
      | _ => (model, fail "no-codes-returned")
    | none => bad
  | "history" =>
    -- IN k sym_1 … sym_k ; OUT (canonical(sym_j) canonical(canonical(sym_j))) for j = 1..k
    match run (do let k ← P.nat; P.rep k P.rawSym) inp with
    | some ss =>
      let model := joinToks (ss.map fun s =>
        let m1 := modelCanon s
        let m2 := match m1 with
          | .ok c => canonical c
          | o => o
        joinToks [encOutcomeSym m1, encOutcomeSym m2])
      match parseSyms (2 * ss.length) out with
      | some cs =>
        let ins := (ss.map specSym).toArray
        let ca := cs.toArray
        let n := ins.size
        let c1 (j : Nat) : Sym := ca.getD (2 * j) default
        let c2 (j : Nat) : Sym := ca.getD (2 * j + 1) default
        let js := List.range n
        (model, check [
          ("input-in-domain", js.all fun j => inDomain (ins.getD j default)),
          ("canonical-form-is-a-symbol", js.all fun j => (c1 j).wellFormed && (c1 j).vOnOrbits),
          ("canonical-form-isomorphic-to-input", js.all fun j => isomorphic (ins.getD j default) (c1 j)),
          ("canonical-form-is-a-fixed-point", js.all fun j => c1 j == c2 j),
          ("equal-canonical-forms-iff-isomorphic", js.all fun j => js.all fun k =>
              !(j < k) || separationClause (ins.getD j default) (ins.getD k default) (c1 j) (c1 k))])
      | none => (model, fail "no-canonical-form-returned")
    | none => bad
  | _ => ("-", fail s!"driver-unknown-op-{op}")

end DrvC03

def main : IO Unit := mainWith DrvC03.handler
