import DSymVerif.Driver.Proto
import DSymVerif.Model.FreeWord
import DSymVerif.Model.Cosets
import DSymVerif.Model.LowIndex
import DSymVerif.Spec.C11
import DSymVerif.Spec.C12

open DSymVerif DSymVerif.Proto

namespace DrvC12
open DSymVerif.Cosets DSymVerif.SpecC11 DSymVerif.SpecC12

def tabOfLists (ls : List (List Int)) : Tab := (ls.map List.toArray).toArray

/-- search-node budget of the model run (the Rust iterator has none): `searchFuel n k`, proved
    to exhaust the search tree for every input (`C12.coset_tables_fuel_adequate`), so the
    `MODEL-FUEL` payload below is unreachable; the iterator model stops when its stack is empty -/
def nodeFuel (n k : Nat) : Nat := searchFuel n k

def viewAll : List (Outcome Table) → Outcome (List (List (List Int)))
  | [] => .ok []
  | .ok t :: r =>
    match t.view, viewAll r with
    | .ok v, .ok vs => .ok (v :: vs)
    | .panic, _ => .panic
    | _, .panic => .panic
    | _, _ => .err
  | .panic :: _ => .panic
  | .err :: _ => .err

def encTables (ts : List (List (List Int))) : String :=
  joinToks (toString ts.length :: ts.map encIntss)

def handler : Handler := fun op inp out =>
  match op with
  | "lowindex" | "lowindex_nc" =>
    match run (do let _name ← P.tok; let n ← P.nat; let rels ← P.intss; let k ← P.nat; pure (n, rels, k)) inp with
    | none => ("-", fail "driver-cannot-parse-input")
    | some (n, rels, k) =>
      let m := match viewAll (cosetTables n (rels.map FW.new) k (nodeFuel n k)) with
        | .ok vs => encTables vs
        | .err => "MODEL-FUEL"
        | .panic => "PANIC"
      match run (do let c ← P.nat; P.rep c P.intss) out with
      | none => (m, fail "no-tables-returned")
      | some tl =>
        let tables := tl.map tabOfLists
        (m, check (if op == "lowindex" then clauses n rels k tables else basicClauses n rels k tables))
  | _ => ("-", fail s!"driver-unknown-op-{op}")

end DrvC12

def main : IO Unit := mainWith DrvC12.handler
