import DSymVerif.Driver.SymIO
import DSymVerif.Model.Delaney2d
import DSymVerif.Spec.C08

open DSymVerif DSymVerif.Proto DSymVerif.DS

namespace DrvC08
open DSymVerif.D2 DSymVerif.SpecC08

def specG (s : RawSym) : G := { size := s.size, op := s.opAt, v := s.vAt }

/-- the five answers of one representation, rendered as tokens -/
def modelAnswers (y : Sym) : Option (List String) :=
  match curvature y, isEuclidean y, isHyperbolic y, isSpherical y, orbifoldSymbolString y with
  | .ok k, .ok e, .ok h, .ok sp, .ok str =>
    let b (x : Bool) : String := if x then "1" else "0"
    some [toString k.num, toString k.den, b e, b h, b sp, str]
  | _, _, _, _, _ => none

def modelKS (y : Sym) : Option (List String) :=
  match curvature y, orbifoldSymbolString y with
  | .ok k, .ok str => some [toString k.num, toString k.den, str]
  | _, _ => none

def modelK (y : Sym) : Option (List String) :=
  match curvature y with
  | .ok k => some [toString k.num, toString k.den]
  | _ => none

def symOf (s : RawSym) (rep : Rep) : Option Sym :=
  match s.toSym with
  | .ok y => some ⟨y, rep⟩
  | _ => none

def payload (parts : List (Option (List String))) : String :=
  if parts.any (·.isNone) then "PANIC" else joinToks (parts.flatMap fun p => p.getD [])

/-- one representation's answers as returned by the implementation -/
structure Ans where
  k : Fr
  e : Bool
  h : Bool
  s : Bool
  str : String

def parseAns : P Ans := do
  let n ← P.int
  let d ← P.nat
  let e ← P.nat
  let h ← P.nat
  let s ← P.nat
  let str ← P.tok
  pure { k := ⟨n, d⟩, e := e == 1, h := h == 1, s := s == 1, str := str }

def parseKS : P (Fr × String) := do
  let n ← P.int
  let d ← P.nat
  let str ← P.tok
  pure (⟨n, d⟩, str)

def parseK : P Fr := do
  let n ← P.int
  let d ← P.nat
  pure ⟨n, d⟩

/-- the structured model symbol in the vocabulary of the Spec -/
def orbOfModel (o : OrbSym) : Orb :=
  { cones := o.cones, bnds := o.bnds,
    handles := if o.orientable then o.count else 0, caps := if o.orientable then 0 else o.count }

/-- clauses of C08 about one representation's answers on the symbol `g` -/
def geoClauses (g : G) (tag : String) (a : Ans) : List (String × Bool) :=
  match parseSymbol a.str with
  | none => [(s!"{tag}-symbol-is-in-the-orbifold-symbol-language", false)]
  | some o =>
    let chi := orbifoldChi o
    [ (s!"{tag}-curvature-is-sum-over-chambers-of-1/m01+1/m12-1/2", Fr.eqv a.k g.curvature),
      (s!"{tag}-curvature-eq-twice-chi-of-symbol", Fr.eqv a.k (Fr.scale 2 chi)),
      (s!"{tag}-euclidean-iff-curvature-zero", a.e == a.k.isZero),
      (s!"{tag}-hyperbolic-iff-curvature-negative", a.h == a.k.isNeg),
      (s!"{tag}-spherical-iff-positive-and-not-teardrop-or-spindle", a.s == (a.k.isPos && !bad o)) ]

def renumRaw (s : RawSym) (p : Nat → Nat) : RawSym :=
  let ch := (List.range s.size).map (· + 1)
  let pinv (e : Nat) : Nat := (ch.find? fun d => p d == e).getD 0
  { size := s.size, dim := s.dim,
    op := ((List.range s.size).flatMap fun e0 => (List.range (s.dim + 1)).map fun i =>
            p (s.opAt i (pinv (e0 + 1)))).toArray,
    v := ((List.range s.dim).flatMap fun i => (List.range s.size).map fun e0 =>
            s.vAt i (pinv (e0 + 1))).toArray }

def dualRaw (s : RawSym) : RawSym :=
  { size := s.size, dim := s.dim,
    op := ((List.range s.size).flatMap fun d0 => (List.range (s.dim + 1)).map fun i =>
            s.opAt (s.dim - i) (d0 + 1)).toArray,
    v := ((List.range s.dim).flatMap fun i => (List.range s.size).map fun d0 =>
            s.vAt (s.dim - 1 - i) (d0 + 1)).toArray }

def invClauses (k k' : Fr) (str str' : String) : List (String × Bool) :=
  match parseSymbol str, parseSymbol str' with
  | some o, some o' =>
    [ ("curvature-unchanged", Fr.eqv k k'),
      ("orbifold-symbol-unchanged-up-to-boundary-rotation-and-reversal", sameOrbifold o o') ]
  | _, _ => [("symbols-are-in-the-orbifold-symbol-language", false)]

/-! ### symbols that are not connected (op `geod`) -/

/-- the answers taken one by one: `!` where the model of that call panics -/
def sepK (y : Sym) : List String :=
  match curvature y with
  | .ok k => [toString k.num, toString k.den]
  | _ => ["!", "!"]

def sepB (o : Outcome Bool) : String :=
  match o with
  | .ok true => "1"
  | .ok false => "0"
  | _ => "!"

def sepS (y : Sym) : String :=
  match orbifoldSymbolString y with
  | .ok str => str
  | _ => "!"

def sepAnswers (y : Sym) : List String :=
  sepK y ++ [sepB (isEuclidean y), sepB (isHyperbolic y), sepB (isSpherical y), sepS y]

/-- the part `c` of a labelled table, chambers renumbered in increasing order -/
def partRaw (s : RawSym) (lab : Nat → Nat) (c : Nat) : RawSym :=
  let ch := ((List.range s.size).map (· + 1)).filter fun d => lab d == c
  let num (d : Nat) : Nat := (ch.takeWhile (· != d)).length + 1
  { size := ch.length, dim := s.dim,
    op := (ch.flatMap fun d => (List.range (s.dim + 1)).map fun i => num (s.opAt i d)).toArray,
    v := ((List.range s.dim).flatMap fun i => ch.map fun d => s.vAt i d).toArray }

/-- one answer of the implementation: a fraction, or `none` if the call panicked -/
def parseKOpt : P (Option Fr) := do
  let a ← P.tok
  let b ← P.tok
  match a.toInt?, b.toNat? with
  | some n, some d => pure (some ⟨n, d⟩)
  | _, _ => if a == "!" && b == "!" then pure none else failure

def parseBOpt : P (Option Bool) := do
  let a ← P.tok
  if a == "1" then pure (some true) else if a == "0" then pure (some false)
  else if a == "!" then pure none else failure

structure AnsSep where
  k : Option Fr
  e : Option Bool
  h : Option Bool
  s : Option Bool
  str : String

def parseAnsSep : P AnsSep := do
  let k ← parseKOpt
  let e ← parseBOpt
  let h ← parseBOpt
  let s ← parseBOpt
  let str ← P.tok
  pure { k := k, e := e, h := h, s := s, str := str }

/-- clauses about one representation's answers on a complete 2D symbol that need not be connected:
    only what holds by the definition of the curvature (the orbifold symbol and `is_spherical` of a
    symbol that is not connected are outside the property's quantifier) -/
def sepClauses (g : G) (tag : String) (a : AnsSep) (parts : List (Option Fr)) : List (String × Bool) :=
  match a.k with
  | none => [(s!"{tag}-curvature-answers-on-every-complete-2d-symbol", false)]
  | some k =>
    [ (s!"{tag}-curvature-is-sum-over-chambers-of-1/m01+1/m12-1/2", Fr.eqv k g.curvature),
      (s!"{tag}-curvature-is-the-sum-of-the-curvatures-of-the-parts",
        parts.all (·.isSome) && Fr.eqv k (Fr.sum (parts.map fun p => p.getD ⟨0, 1⟩))),
      (s!"{tag}-euclidean-iff-curvature-zero", a.e == some k.isZero),
      (s!"{tag}-hyperbolic-iff-curvature-negative", a.h == some k.isNeg) ]

def handler : Handler := fun op inp out =>
  let bad := ("-", fail "driver-cannot-parse-input")
  let panicked := out == #["PANIC"]
  match op with
  | "geo" | "geov" =>
    -- `geov`: the same five answers in both representations on a variant of an explored symbol
    -- (its renumbering, its library dual)
    match run P.rawSym inp with
    | some s =>
      let g := specG s
      let m := payload [(symOf s .partialSym).bind modelAnswers, (symOf s .simpleSym).bind modelAnswers]
      -- sanity of the driver's own reader: the model's string parses back to the model's structure
      let rt : Bool := match symOf s .partialSym with
        | some y => (match orbifoldSymbol y with
          | .ok o => (match parseSymbol o.render with
            | some o' => sameOrbifold (orbOfModel o) o' && (o.orientable == (o'.caps == 0) || o.count == 0)
            | none => false)
          | _ => true)
        | none => true
      -- monitor: the premise `symbolExact` of the conditional theorems (gauss_bonnet_conditional,
      -- isSpherical_iff_spec_conditional) holds for the model on this symbol, both representations
      let mon : Bool := match symOf s .partialSym, symOf s .simpleSym with
        | some y, some y' => symbolExact y && symbolExact y'
        | _, _ => false
      if panicked then (m, fail "no-panic-on-complete-2d-symbol") else
      match run (do let a ← parseAns; let b ← parseAns; pure (a, b)) out with
      | some (a, b) =>
        (m, check (
          [("input-is-a-complete-2d-symbol", s.dim == 2 && g.wellFormed),
           ("driver-parser-roundtrip", rt),
           ("monitor-symbolExact-premise-of-conditional-gauss-bonnet-holds-for-the-model", mon)] ++
          geoClauses g "partial" a ++ geoClauses g "simple" b ++
          [("representations-agree",
            Fr.eqv a.k b.k && a.e == b.e && a.h == b.h && a.s == b.s && a.str == b.str)]))
      | none => (m, fail "answers-missing")
    | none => bad
  | "geod" =>
    -- complete 2D symbols that are not connected (outside the property's quantifier): every
    -- answer of the model is compared separately; the Spec only holds the curvature to its
    -- definition (chamber sum, hence additive over the parts)
    match run (do let s ← P.rawSym; let k ← P.nat; let lab ← P.nats; pure (s, k, lab)) inp with
    | some (s, k, lab) =>
      let labf (d : Nat) : Nat := lab.getD (d - 1) 0
      let partsRaw := (List.range k).map fun c => partRaw s labf (c + 1)
      let m : String :=
        match symOf s .partialSym, symOf s .simpleSym with
        | some y, some y' =>
          let ps := partsRaw.map fun p => (symOf p .partialSym).map fun yp => sepK yp ++ [sepS yp]
          if ps.any (·.isNone) then "PANIC"
          else joinToks (sepAnswers y ++ sepAnswers y' ++ ps.flatMap fun p => p.getD [])
        | _, _ => "PANIC"
      if panicked then (m, fail "harness-catches-every-panic-of-geod") else
      match run (do
          let a ← parseAnsSep; let b ← parseAnsSep
          let ps ← P.rep k (do let kk ← parseKOpt; let _ ← P.tok; pure kk)
          pure (a, b, ps)) out with
      | some (a, b, ps) =>
        let g := specG s
        let chambers := (List.range s.size).map (· + 1)
        (m, check (
          [("input-is-a-complete-2d-symbol", s.dim == 2 && g.wellFormed),
           ("parts-are-unions-of-components",
             chambers.all fun d => 1 ≤ labf d && labf d ≤ k &&
               [0, 1, 2].all fun i => labf (s.opAt i d) == labf d),
           ("parts-are-complete-2d-symbols", partsRaw.all fun p => p.dim == 2 && (specG p).wellFormed)] ++
          sepClauses g "partial" a ps ++ sepClauses g "simple" b ps))
      | none => (m, fail "answers-missing")
    | none => bad
  | "geog" =>
    -- symbols yielded by the library's own generator over the D-set of the input: the tables of
    -- every yielded symbol come back with the answers on the yielded `SimpleDSym` itself and on
    -- a `PartialDSym` rebuilt from these tables; the model payload repeats the tables and gives
    -- the model's answers, the Spec clauses are those of `geo`
    match run P.rawSym inp with
    | some s0 =>
      if panicked then ("-", fail "no-panic-on-complete-2d-symbol") else
      match run (do
          let k ← P.nat
          P.rep k (do
            let size ← P.nat
            let dim ← P.nat
            let op ← P.rep (size * (dim + 1)) P.nat
            let v ← P.rep (dim * size) P.nat
            let a ← parseAns
            let b ← parseAns
            pure (({ size := size, dim := dim, op := op.toArray, v := v.toArray } : RawSym), a, b))) out with
      | some items =>
        let encRaw (s : RawSym) : List String :=
          toString s.size :: toString s.dim :: (s.op.toList.map toString ++ s.v.toList.map toString)
        let m := payload (some [toString items.length] :: items.flatMap fun (s, _, _) =>
          [some (encRaw s), (symOf s .simpleSym).bind modelAnswers, (symOf s .partialSym).bind modelAnswers])
        let chambers := (List.range s0.size).map (· + 1)
        (m, check (items.flatMap fun (s, a, b) =>
          let g := specG s
          [("generated-symbol-is-a-complete-2d-symbol", s.dim == 2 && g.wellFormed),
           ("generated-symbol-lives-on-the-given-D-set",
             s.size == s0.size && chambers.all fun d => [0, 1, 2].all fun i => s.opAt i d == s0.opAt i d)] ++
          geoClauses g "generated-simple" a ++ geoClauses g "rebuilt-partial" b ++
          [("representations-agree",
            Fr.eqv a.k b.k && a.e == b.e && a.h == b.h && a.s == b.s && a.str == b.str)]))
      | none => ("-", fail "answers-missing")
    | none => bad
  | "geo1" =>
    -- outside the property's quantifier (dim ≠ 2 or incomplete): model observable only
    match run P.rawSym inp with
    | some s =>
      let m := payload [(symOf s .partialSym).bind modelAnswers]
      (m, ok)
    | none => bad
  | "renum" =>
    match run (do let s ← P.rawSym; let p ← P.nats; pure (s, p)) inp with
    | some (s, p) =>
      let pf (d : Nat) : Nat := p.getD (d - 1) 0
      let s' := renumRaw s pf
      let mv : Option (List String) := (symOf s' .partialSym).bind fun y' =>
        (modelKS y').map fun ks => ks ++ [encSym y'.data]
      let m := payload [(symOf s .partialSym).bind modelKS, mv]
      if panicked then (m, fail "no-panic-on-complete-2d-symbol") else
      match run (do let a ← parseKS; let b ← parseKS; let d ← P.rawSym; pure (a, b, d)) out with
      | some (a, b, d) =>
        (m, check (
          [("input-is-a-complete-2d-symbol", s.dim == 2 && (specG s).wellFormed),
           ("variant-is-a-renumbering", d.dim == 2 && (specG s).isRenumbering (specG d) pf)] ++
          invClauses a.1 b.1 a.2 b.2))
      | none => (m, fail "answers-missing")
    | none => bad
  | "dual" =>
    match run P.rawSym inp with
    | some s =>
      let md : Option (List String) := match s.toSym with
        | .ok y => (match dual y with
          | .ok yd => (modelKS ⟨yd, .partialSym⟩).map fun ks => ks ++ [encSym yd]
          | _ => none)
        | _ => none
      let m := payload [(symOf s .partialSym).bind modelKS, md]
      if panicked then (m, fail "no-panic-on-complete-2d-symbol") else
      match run (do let a ← parseKS; let b ← parseKS; let d ← P.rawSym; pure (a, b, d)) out with
      | some (a, b, d) =>
        (m, check (
          [("input-is-a-complete-2d-symbol", s.dim == 2 && (specG s).wellFormed),
           ("dual-has-the-indices-reversed", d.dim == 2 && (specG s).isDual (specG d))] ++
          invClauses a.1 b.1 a.2 b.2))
      | none => (m, fail "answers-missing")
    | none => bad
  | "cover" =>
    -- optional last input token 1: the cover itself also went through the five functions in both
    -- representations (answers appended to the output; clauses of `geo` on the cover)
    match run (do let s ← P.rawSym; let k ← P.nat; let c ← P.rawSym; let t ← (P.nat <|> pure 0); pure (s, k, c, t)) inp with
    | some (s, k, c, take) =>
      let m := payload ([(symOf s .partialSym).bind modelK, (symOf c .partialSym).bind modelK] ++
        (if take == 1 then [(symOf c .partialSym).bind modelAnswers, (symOf c .simpleSym).bind modelAnswers] else []))
      if panicked then (m, fail "no-panic-on-complete-2d-symbol") else
      match run (do
          let a ← parseK; let b ← parseK
          let xs ← (if take == 1 then (do let x ← parseAns; let y ← parseAns; pure [x, y]) else pure [])
          pure (a, b, xs)) out with
      | some (a, b, xs) =>
        let g := specG s
        let gc := specG c
        (m, check ([
          ("input-is-a-complete-2d-symbol", s.dim == 2 && g.wellFormed),
          ("cover-is-a-complete-2d-symbol", c.dim == 2 && gc.wellFormed),
          ("cover-is-a-k-sheeted-covering", g.isCovering gc k (fun e => (e - 1) % g.size + 1)),
          ("curvature-multiplied-by-sheet-number", Fr.eqv b (Fr.scale (k : Int) a))] ++
          (match xs with
           | [x, y] =>
             geoClauses gc "cover-partial" x ++ geoClauses gc "cover-simple" y ++
             [("cover-representations-agree",
               Fr.eqv x.k y.k && x.e == y.e && x.h == y.h && x.s == y.s && x.str == y.str)]
           | _ => [])))
      | none => (m, fail "answers-missing")
    | none => bad
  | _ => ("-", fail s!"driver-unknown-op-{op}")

end DrvC08

def main : IO Unit := mainWith DrvC08.handler
