import DSymVerif.Driver.SymIO
import DSymVerif.Model.Delaney2d
import DSymVerif.Spec.C08

open DSymVerif DSymVerif.Proto DSymVerif.DS

namespace DrvC08
open DSymVerif.D2 DSymVerif.SpecC08

def specG (s : RawSym) : G := { size := s.size, op := s.opAt, v := s.vAt }

/-- the five answers of one representation, rendered as tokens -/
def modelAnswers (y : Sym) : Option (List String) :=
  match curvature y, isEuclidean y, isHyperbolic y, isSpherical y, orbifoldSymbolString y with
  | .ok k, .ok e, .ok h, .ok sp, .ok str =>
    let b (x : Bool) : String := if x then "1" else "0"
    some [toString k.num, toString k.den, b e, b h, b sp, str]
  | _, _, _, _, _ => none

def modelKS (y : Sym) : Option (List String) :=
  match curvature y, orbifoldSymbolString y with
  | .ok k, .ok str => some [toString k.num, toString k.den, str]
  | _, _ => none

def modelK (y : Sym) : Option (List String) :=
  match curvature y with
  | .ok k => some [toString k.num, toString k.den]
  | _ => none

def symOf (s : RawSym) (rep : Rep) : Option Sym :=
  match s.toSym with
  | .ok y => some ⟨y, rep⟩
  | _ => none

def payload (parts : List (Option (List String))) : String :=
  if parts.any (·.isNone) then "PANIC" else joinToks (parts.flatMap fun p => p.getD [])

/-- one representation's answers as returned by the implementation -/
structure Ans where
  k : Fr
  e : Bool
  h : Bool
  s : Bool
  str : String

def parseAns : P Ans := do
  let n ← P.int
  let d ← P.nat
  let e ← P.nat
  let h ← P.nat
  let s ← P.nat
  let str ← P.tok
  pure { k := ⟨n, d⟩, e := e == 1, h := h == 1, s := s == 1, str := str }

def parseKS : P (Fr × String) := do
  let n ← P.int
  let d ← P.nat
  let str ← P.tok
  pure (⟨n, d⟩, str)

def parseK : P Fr := do
  let n ← P.int
  let d ← P.nat
  pure ⟨n, d⟩

/-- the structured model symbol in the vocabulary of the Spec -/
def orbOfModel (o : OrbSym) : Orb :=
  { cones := o.cones, bnds := o.bnds,
    handles := if o.orientable then o.count else 0, caps := if o.orientable then 0 else o.count }

/-- clauses of C08 about one representation's answers on the symbol `g` -/
def geoClauses (g : G) (tag : String) (a : Ans) : List (String × Bool) :=
  match parseSymbol a.str with
  | none => [(s!"{tag}-symbol-is-in-the-orbifold-symbol-language", false)]
  | some o =>
    let chi := orbifoldChi o
    [ (s!"{tag}-curvature-is-sum-over-chambers-of-1/m01+1/m12-1/2", Fr.eqv a.k g.curvature),
      (s!"{tag}-curvature-eq-twice-chi-of-symbol", Fr.eqv a.k (Fr.scale 2 chi)),
      (s!"{tag}-euclidean-iff-curvature-zero", a.e == a.k.isZero),
      (s!"{tag}-hyperbolic-iff-curvature-negative", a.h == a.k.isNeg),
      (s!"{tag}-spherical-iff-positive-and-not-teardrop-or-spindle", a.s == (a.k.isPos && !bad o)) ]

def renumRaw (s : RawSym) (p : Nat → Nat) : RawSym :=
  let ch := (List.range s.size).map (· + 1)
  let pinv (e : Nat) : Nat := (ch.find? fun d => p d == e).getD 0
  { size := s.size, dim := s.dim,
    op := ((List.range s.size).flatMap fun e0 => (List.range (s.dim + 1)).map fun i =>
            p (s.opAt i (pinv (e0 + 1)))).toArray,
    v := ((List.range s.dim).flatMap fun i => (List.range s.size).map fun e0 =>
            s.vAt i (pinv (e0 + 1))).toArray }

def dualRaw (s : RawSym) : RawSym :=
  { size := s.size, dim := s.dim,
    op := ((List.range s.size).flatMap fun d0 => (List.range (s.dim + 1)).map fun i =>
            s.opAt (s.dim - i) (d0 + 1)).toArray,
    v := ((List.range s.dim).flatMap fun i => (List.range s.size).map fun d0 =>
            s.vAt (s.dim - 1 - i) (d0 + 1)).toArray }

def invClauses (k k' : Fr) (str str' : String) : List (String × Bool) :=
  match parseSymbol str, parseSymbol str' with
  | some o, some o' =>
    [ ("curvature-unchanged", Fr.eqv k k'),
      ("orbifold-symbol-unchanged-up-to-boundary-rotation-and-reversal", sameOrbifold o o') ]
  | _, _ => [("symbols-are-in-the-orbifold-symbol-language", false)]

def handler : Handler := fun op inp out =>
  let bad := ("-", fail "driver-cannot-parse-input")
  let panicked := out == #["PANIC"]
  match op with
  | "geo" =>
    match run P.rawSym inp with
    | some s =>
      let g := specG s
      let m := payload [(symOf s .partialSym).bind modelAnswers, (symOf s .simpleSym).bind modelAnswers]
      -- sanity of the driver's own reader: the model's string parses back to the model's structure
      let rt : Bool := match symOf s .partialSym with
        | some y => (match orbifoldSymbol y with
          | .ok o => (match parseSymbol o.render with
            | some o' => sameOrbifold (orbOfModel o) o' && (o.orientable == (o'.caps == 0) || o.count == 0)
            | none => false)
          | _ => true)
        | none => true
      -- monitor: the premise `symbolExact` of the conditional theorems (gauss_bonnet_conditional,
      -- isSpherical_iff_spec_conditional) holds for the model on this symbol, both representations
      let mon : Bool := match symOf s .partialSym, symOf s .simpleSym with
        | some y, some y' => symbolExact y && symbolExact y'
        | _, _ => false
      if panicked then (m, fail "no-panic-on-complete-2d-symbol") else
      match run (do let a ← parseAns; let b ← parseAns; pure (a, b)) out with
      | some (a, b) =>
        (m, check (
          [("input-is-a-complete-2d-symbol", s.dim == 2 && g.wellFormed),
           ("driver-parser-roundtrip", rt),
           ("monitor-symbolExact-premise-of-conditional-gauss-bonnet-holds-for-the-model", mon)] ++
          geoClauses g "partial" a ++ geoClauses g "simple" b ++
          [("representations-agree",
            Fr.eqv a.k b.k && a.e == b.e && a.h == b.h && a.s == b.s && a.str == b.str)]))
      | none => (m, fail "answers-missing")
    | none => bad
  | "geo1" =>
    -- outside the property's quantifier (dim ≠ 2 or incomplete): model observable only
    match run P.rawSym inp with
    | some s =>
      let m := payload [(symOf s .partialSym).bind modelAnswers]
      (m, ok)
    | none => bad
  | "renum" =>
    match run (do let s ← P.rawSym; let p ← P.nats; pure (s, p)) inp with
    | some (s, p) =>
      let pf (d : Nat) : Nat := p.getD (d - 1) 0
      let s' := renumRaw s pf
      let mv : Option (List String) := (symOf s' .partialSym).bind fun y' =>
        (modelKS y').map fun ks => ks ++ [encSym y'.data]
      let m := payload [(symOf s .partialSym).bind modelKS, mv]
      if panicked then (m, fail "no-panic-on-complete-2d-symbol") else
      match run (do let a ← parseKS; let b ← parseKS; let d ← P.rawSym; pure (a, b, d)) out with
      | some (a, b, d) =>
        (m, check (
          [("input-is-a-complete-2d-symbol", s.dim == 2 && (specG s).wellFormed),
           ("variant-is-a-renumbering", d.dim == 2 && (specG s).isRenumbering (specG d) pf)] ++
          invClauses a.1 b.1 a.2 b.2))
      | none => (m, fail "answers-missing")
    | none => bad
  | "dual" =>
    match run P.rawSym inp with
    | some s =>
      let md : Option (List String) := match s.toSym with
        | .ok y => (match dual y with
          | .ok yd => (modelKS ⟨yd, .partialSym⟩).map fun ks => ks ++ [encSym yd]
          | _ => none)
        | _ => none
      let m := payload [(symOf s .partialSym).bind modelKS, md]
      if panicked then (m, fail "no-panic-on-complete-2d-symbol") else
      match run (do let a ← parseKS; let b ← parseKS; let d ← P.rawSym; pure (a, b, d)) out with
      | some (a, b, d) =>
        (m, check (
          [("input-is-a-complete-2d-symbol", s.dim == 2 && (specG s).wellFormed),
           ("dual-has-the-indices-reversed", d.dim == 2 && (specG s).isDual (specG d))] ++
          invClauses a.1 b.1 a.2 b.2))
      | none => (m, fail "answers-missing")
    | none => bad
  | "cover" =>
    match run (do let s ← P.rawSym; let k ← P.nat; let c ← P.rawSym; pure (s, k, c)) inp with
    | some (s, k, c) =>
      let m := payload [(symOf s .partialSym).bind modelK, (symOf c .partialSym).bind modelK]
      if panicked then (m, fail "no-panic-on-complete-2d-symbol") else
      match run (do let a ← parseK; let b ← parseK; pure (a, b)) out with
      | some (a, b) =>
        let g := specG s
        let gc := specG c
        (m, check [
          ("input-is-a-complete-2d-symbol", s.dim == 2 && g.wellFormed),
          ("cover-is-a-complete-2d-symbol", c.dim == 2 && gc.wellFormed),
          ("cover-is-a-k-sheeted-covering", g.isCovering gc k (fun e => (e - 1) % g.size + 1)),
          ("curvature-multiplied-by-sheet-number", Fr.eqv b (Fr.scale (k : Int) a))])
      | none => (m, fail "answers-missing")
    | none => bad
  | _ => ("-", fail s!"driver-unknown-op-{op}")

end DrvC08

def main : IO Unit := mainWith DrvC08.handler
