import DSymVerif.Driver.SymIO
import DSymVerif.Model.Covers
import DSymVerif.Model.CoversWired
import DSymVerif.Model.CoversAll
import DSymVerif.Spec.C05

open DSymVerif DSymVerif.Proto DSymVerif.DS DSymVerif.Covers

namespace DrvC05
open DSymVerif.SpecC02 DSymVerif.SpecC05

def specG (s : RawSym) : G := { size := s.size, dim := s.dim, op := s.opAt, v := s.vAt }

def encOut (o : Outcome DSymData) : String :=
  match o with
  | .ok c => encSym c
  | .err => "ERR"
  | .panic => "PANIC"

/-- group data as transmitted by the harness:
    nrGens  nE (d i word)*  nT (rows)*        rows = list of length-prefixed rows -/
structure GroupData where
  nrGens : Nat
  e2w : EdgeWords
  tables : List Table

def P.edgeWord : P ((Nat × Nat) × List Int) := do
  let d ← P.nat
  let i ← P.nat
  let w ← P.ints
  pure ((d, i), w)

def P.groupData : P GroupData := do
  let nrGens ← P.nat
  let nE ← P.nat
  let e2w ← P.rep nE P.edgeWord
  let nT ← P.nat
  let ts ← P.rep nT P.intss
  pure { nrGens := nrGens, e2w := e2w,
         tables := ts.map fun rows => { nrGens := nrGens, rows := (rows.map List.toArray).toArray } }

def P.syms : P (List RawSym) := do
  let n ← P.nat
  P.rep n P.rawSym

def isPanic (out : Array String) : Bool := out.size == 1 && out[0]! == "PANIC"

/-- explicit sheet map table: entry ((k * (dim+1) + i) * size + (d-1)) -/
def sigmaOf (tab : Array Nat) (size dim : Nat) (k i d : Nat) : Nat :=
  tab.getD ((k * (dim + 1) + i) * size + (d - 1)) 0

def baseClauses (g : G) : List (String × Bool) :=
  (validSym g).map (fun c => ("input-" ++ c.1, c.2)) ++ [("input-connected", SpecC05.connected g)]

/-- ops ending in `_dc` run on bases with several components (outside the quantifier of the
    property): no connectedness clause on the input, and the cover is connected only after joining
    the sheets across the components -/
def isDc (op : String) : Bool := op.endsWith "_dc"

def baseClausesOf (dc : Bool) (g : G) : List (String × Bool) :=
  if dc then
    (validSym g).map (fun c => ("input-" ++ c.1, c.2)) ++
      [("input-has-several-components", !(SpecC05.connected g))]
  else baseClauses g

/-- what is demanded of one table cover -/
def tableCoverClauses (dc : Bool) (g cg : G) : List (String × Bool) :=
  if dc then
    coveringClauses g cg ++
      [("cover-is-connected-after-joining-each-sheet-across-the-components", connectedJoined g cg)]
  else connectedCoveringClauses g cg

/-- the hypotheses of the theorems of Props/C05.lean, evaluated on this input
    (`monitors_sound`: true ⇒ the hypothesis holds) -/
def hypBase (s : RawSym) : List (String × Bool) :=
  [("theorem-hypothesis-holds:ValidTables-of-the-input-symbol",
      match s.toSym with
      | .ok y => validTablesB y && decide (1 ≤ y.size) && decide (1 ≤ y.dim)
      | _ => false),
   ("theorem-hypothesis-holds:ValidSym-of-the-input-symbol",
      match s.toSym with
      | .ok y => validSymB y
      | _ => false)]

def hypTables (s : RawSym) (gd : GroupData) : List (String × Bool) :=
  match s.toSym with
  | .ok y =>
    gd.tables.flatMap fun t =>
      [ ("theorem-hypothesis-holds:coset-table-inverse-consistent", invConsistentB t),
        ("theorem-hypothesis-holds:edge-words-inverse-or-mirror-involution", edgeWordsOkB y t gd.e2w),
        ("theorem-hypothesis-holds:every-edge-word-traces-through-the-table", allTracesDefined y t gd.e2w) ]
  | _ => [("theorem-hypothesis-holds:input-symbol-builds", false)]

/-- the fully wired models (fundamental_group → coset_table(s) → cover_for_table) are run when
    the tables the library produced are small enough; beyond, the model is `coverForTable` on the
    transmitted tables (same observable, the table enumeration is then not re-done in Lean) -/
def wiredOK (gd : GroupData) : Bool :=
  gd.tables.length ≤ 400 && (gd.tables.foldl (fun a t => a + t.len) 0) ≤ 1500

def encCovers (o : Outcome (List DSymData)) : String :=
  match o with
  | .ok cs => joinToks (toString cs.length :: cs.map encSym)
  | .err => "MODEL-FUEL"
  | .panic => "PANIC"

/-- ops ending in `_s` are the same calls with the base symbol held as `SimpleDSym` (converted
    from the `PartialDSym`, or an object the library's symbol generator yielded): same model, same Spec -/
def stripS (op : String) : String := if op.endsWith "_s" then (op.dropRight 2) else op

/-! ### comparison up to isomorphism over the base

The property fixes a cover built from a coset table (`subgroup_cover`, `finite_universal_cover`,
the entries of `covers`) only up to isomorphism over the base: the numbering of the sheets is the
numbering of the rows of a coset table, which the property does not mention.  For these ops the
model payload is compared with the implementation's output up to an isomorphism over the base
(`SpecC05.isoOver`: chamber bijection commuting with every operation, preserving the branching
numbers, commuting with the projection; on a base with several components `isoOverJoined`: in
addition inducing one permutation of the sheets).  When they agree the implementation's own tokens
are echoed as the model payload, otherwise the model's payload is printed so that the orchestrator
reports the disagreement with both sides.  `covers` is compared entry by entry, in order (the order
of the list is that of the coset-table enumeration, which the model reproduces).  The comparison
stays exact for `derived::cover` driven with an explicit sheet map and for `oriented_cover`
(numbering determined by the inputs). -/

def symOfPayload (s : String) : Option RawSym :=
  run P.rawSym ((s.splitOn " ").filter (· != "")).toArray

def isoAsCovers (dc : Bool) (g mg cg : G) : Bool :=
  if dc then isoOverJoined g mg cg else isoOver g mg cg

/-- one cover -/
def upToIso (dc : Bool) (g : G) (model : String) (out : Array String) : String :=
  let impl := joinToks out.toList
  if model == impl then model else
  match symOfPayload model, run P.rawSym out with
  | some m, some c => if isoAsCovers dc g (specG m) (specG c) then impl else model
  | _, _ => model

/-- a list of covers, entry by entry in order -/
def upToIsoList (dc : Bool) (g : G) (model : String) (out : Array String) : String :=
  let impl := joinToks out.toList
  if model == impl then model else
  match run P.syms ((model.splitOn " ").filter (· != "")).toArray, run P.syms out with
  | some ms, some cs =>
    if ms.length == cs.length &&
        (ms.zip cs).all (fun (mc : RawSym × RawSym) => isoAsCovers dc g (specG mc.1) (specG mc.2))
    then impl else model
  | _, _ => model

def handler : Handler := fun op0 inp out =>
  let op := stripS op0
  let bad := ("-", fail "driver-cannot-parse-input")
  match op with
  | "cover" | "cover_dc" =>
    let dc := isDc op
    match run (do let s ← P.rawSym; let n ← P.nat; let tab ← P.nats; pure (s, n, tab)) inp with
    | some (s, n, tab) =>
      let g := specG s
      let tabA := tab.toArray
      let sigma := sigmaOf tabA s.size s.dim
      let model := match s.toSym with
        | .ok y => encOut (cover y n sigma)
        | _ => "PANIC"
      let compat := n ≥ 1 && sheetMapCompatible g n sigma
      let hyp := hypBase s ++
        [("theorem-hypothesis:SheetCompat-of-the-model-agrees-with-the-spec",
            match s.toSym with
            | .ok y => sheetCompatB y.dset n sigma == sheetMapCompatible g n sigma
            | _ => false)]
      if !compat then
        (model, check (baseClausesOf dc g ++ hyp ++ [("incompatible-sheet-map-must-be-rejected", isPanic out)]))
      else
        match run P.rawSym out with
        | some c =>
          let cg := specG c
          let divides := orbitLengthsDivideDegrees g cg
          (model, check (baseClausesOf dc g ++ hyp ++
            [ ("cover-has-the-dimension-of-the-base", cg.dim == g.dim),
              ("cover-has-the-requested-number-of-sheets", sheets g cg == some n),
              ("cover-operations-are-involutions-in-range", cg.involutive),
              ("cover-complete", cg.complete),
              ("projection-commutes-with-every-operation", projCommutes g cg),
              ("every-fibre-has-the-same-number-of-chambers", uniformFibres g cg n),
              ("degrees-preserved-when-orbit-lengths-divide",
                  !divides || (isValidSym cg && degreesPreserved g cg)),
              -- cover_preserves_degrees_iff: the stored branching number is ⌊m / r⌋, so the degrees
              -- are preserved exactly when the orbit lengths divide the base degrees (a sheet map
              -- violating that is a caller error, answered with the floor — not a violation)
              ("branching-number-is-floor-of-base-degree-over-orbit-length", branchingIsFloor g cg),
              ("degrees-preserved-iff-orbit-lengths-divide",
                  adjacentPreserved g cg == adjacentDivides g cg) ]))
        | none => (model, fail "compatible-sheet-map-must-give-a-cover")
    | none => bad
  | "oriented" | "oriented_dc" =>
    let dc := isDc op
    match run P.rawSym inp with
    | some s =>
      let g := specG s
      let model := match s.toSym with
        | .ok y => encOut (orientedCover y)
        | _ => "PANIC"
      match run P.rawSym out with
      | some c =>
        let cg := specG c
        (model, check (baseClausesOf dc g ++ hypBase s ++
          (if dc then coveringClauses g cg else connectedCoveringClauses g cg) ++
          [ ("oriented-cover-is-loopless", cg.loopless),
            ("oriented-cover-is-bipartite", cg.bipartite),
            ("one-sheet-iff-base-oriented-else-two",
                sheets g cg == some (if oriented g then 1 else 2)) ]))
      | none => (model, fail "no-cover-returned")
    | none => bad
  | "covers" | "covers_dc" =>
    let dc := isDc op
    match run (do
        let s ← P.rawSym; let k ← P.nat; let cnt ← P.nat
        let known ← (if cnt == 2 then P.nats else pure [])
        let gd ← P.groupData; pure (s, k, cnt, known, gd)) inp with
    | some (s, k, cnt, known, gd) =>
      let g := specG s
      let model := match s.toSym with
        | .ok y =>
          if wiredOK gd then encCovers (Covers.coversAll y k)
          else encCovers (coversOfTables y gd.tables gd.e2w)
        | _ => "PANIC"
      let model := upToIsoList dc g model out
      match run P.syms out with
      | some cs =>
        let cgs := cs.map specG
        (model, check (baseClausesOf dc g ++ hypBase s ++ hypTables s gd ++
          (cgs.flatMap fun cg => tableCoverClauses dc g cg ++
            [("at-most-k-sheets", match sheets g cg with | some j => j ≤ k | none => false)]) ++
          (if dc then
            -- several components: two entries may be isomorphic as coverings of the base (one
            -- sheet permutation per component) although their subgroups of the free product are
            -- not conjugate; what is demanded is non-isomorphism by ONE sheet permutation
            [ ("pairwise-non-isomorphic-as-covers-of-the-joined-base", pairwiseNonIsomorphicJoined g cgs) ]
           else [ ("pairwise-non-isomorphic-as-covers", nonIsomorphicOver g cgs) ]) ++
          (if cnt == 1 && dc then
            [("one-cover-per-conjugacy-class-of-subgroups-of-index-at-most-k-of-the-free-product",
                countsAgreeJoined g k cgs)]
           else if cnt == 1 then
            [("one-cover-per-conjugacy-class-of-subgroups-of-index-at-most-k", countsAgree g k cgs)]
           else if cnt == 2 then
            -- independently known numbers of classes by index (tools/c05_known_counts.py); the
            -- Spec's own oracle confirms them as far as it reaches (5 sheets)
            [("one-cover-per-conjugacy-class-of-subgroups-of-index-at-most-k(oracle-up-to-5)",
                countsAgree g (min k 5) cgs),
             ("one-cover-per-conjugacy-class-of-subgroups-of-index-at-most-k(known-histogram)",
                known.length == k && (List.range k).all fun j0 =>
                  (cgs.filter fun c => sheets g c == some (j0 + 1)).length == known.getD j0 0)]
           else [])))
      | none => (model, fail "no-covers-returned")
    | none => bad
  | "covers_skipped" =>
    -- the library returned more covers than the harness' cap: nothing is claimed for this case
    ("-", ok)
  | "subgroup" | "universal" | "subgroup_dc" | "universal_dc" | "table" | "table_dc" =>
    let dc := isDc op
    match run (do let s ← P.rawSym; let subs ← P.intss; let gd ← P.groupData; pure (s, subs, gd)) inp with
    | some (s, subs, gd) =>
      let g := specG s
      let model := match s.toSym, gd.tables with
        | .ok y, [t] =>
          if wiredOK gd then
            (match Covers.subgroupCover y (subs.map FW.new) with
             | .err => "MODEL-FUEL"
             | o => encOut o)
          else encOut (coverForTable y t gd.e2w)
        | _, _ => "-"
      -- `table` = `cover_for_table` called directly: sheet numbering = row numbering of the given table
      let model := if op == "table" || op == "table_dc" then model else upToIso dc g model out
      match run P.rawSym out with
      | some c =>
        let cg := specG c
        (model, check (baseClausesOf dc g ++ hypBase s ++ hypTables s gd ++ tableCoverClauses dc g cg ++
          (if op == "universal_dc" then
            [ ("universal-cover-has-no-mirrors", cg.loopless),
              ("universal-cover-is-orientable", cg.bipartite) ] ++
            (if g.dim == 2 then
              [ ("curvature-is-multiplicative",
                  match curvature g, curvature cg, sheets g cg with
                  | some kb, some kc, some n => Q.eq kc (kb.mulNat n)
                  | _, _, _ => false) ]
             else
              [ ("universal-cover-3d-has-trivial-branching",
                  (List.range cg.dim).all fun i => cg.chambers.all fun d => cg.v i d == 1) ])
           else if op == "universal" then
            [ ("universal-cover-has-no-mirrors", cg.loopless),
              ("universal-cover-is-orientable", cg.bipartite) ] ++
            (if g.dim == 2 then
              [ ("universal-cover-2d-is-simply-connected", simplyConnected2d cg),
                ("curvature-is-multiplicative",
                  match curvature g, curvature cg, sheets g cg with
                  | some kb, some kc, some n => Q.eq kc (kb.mulNat n)
                  | _, _, _ => false),
                ("sheets-eq-4-over-curvature-when-no-cone-points",
                  match curvature g, sheets g cg with
                  | some kb, some n =>
                    !(conePoints2d cg).isEmpty ||
                      Q.eq (kb.mulNat n) (Q.ofNat 4)
                  | _, _ => false) ]
             else
              [ ("universal-cover-3d-has-trivial-branching",
                  (List.range cg.dim).all fun i => cg.chambers.all fun d => cg.v i d == 1) ])
           else [])))
      | none => (model, fail "no-cover-returned")
    | none => bad
  | "pi1_universal" | "pi1_universal_dc" =>
    match run P.rawSym inp with
    | some s =>
      let g := specG s
      match run (do let gens ← P.nat; let rels ← P.intss; pure (gens, rels)) out with
      | some (gens, rels) =>
        ("-", check (baseClausesOf (isDc op) g ++
          [ ("fundamental-group-of-universal-cover-is-trivial",
              presentationTrivial gens rels == some true) ]))
      | none => ("-", fail "no-group-returned")
    | none => bad
  | "selftest" =>
    match run (do let s ← P.rawSym; let j ← P.nat; pure (s, j)) inp with
    | some (s, j) =>
      let g := specG s
      match out.toList.map String.toNat? with
      | [some expect] =>
        ("-", check (baseClauses g ++ [("count-oracle-reproduces-the-known-value", countCovers g j == expect)]))
      | _ => ("-", fail "no-known-value")
    | none => bad
  | _ => ("-", fail s!"driver-unknown-op-{op}")

end DrvC05

def main : IO Unit := mainWith DrvC05.handler
