import DSymVerif.Driver.Proto
import DSymVerif.Model.Invariants
import DSymVerif.Spec.C14

open DSymVerif DSymVerif.Proto

namespace DrvC14
open DSymVerif.Inv DSymVerif.SpecC14

/-- model payload of one `abelian_invariants` call: `-` when an intermediate leaves ±2^62
    (excluded from the correspondence, DESIGN §5.6) -/
def modelTok (n : Nat) (rels : List (List Int)) : String × Bool :=
  let r := abelianInvariantsB n rels
  if r.2 ≥ safeBound then ("-", true) else
  match r.1 with
  | .ok l => (encNats l, false)
  | .panic => ("PANIC", false)
  | .err => ("DIVERGE", false)

def inDomain (n : Nat) (rels : List (List Int)) : Bool := rels.all (wordInRange n)

def specOne (n : Nat) (rels : List (List Int)) (out : Option (List Nat)) (ovfAllowed : Bool) : String :=
  if !inDomain n rels then
    -- letters outside ±1..±n: not a presentation on n generators; the property says nothing
    ok
  else match out with
    | none => if ovfAllowed then ok else fail "panicked-or-unparsable-inside-the-domain"
    | some o => check (clauses n rels o)

def parseVariants : Nat → P (List (String × List (List Int)))
  | 0 => pure []
  | k + 1 => do
    let t ← P.tok
    let r ← P.intss
    let rest ← parseVariants k
    pure ((t, r) :: rest)

def handler : Handler := fun op inp out =>
  let bad := ("-", fail "driver-cannot-parse-input")
  match op with
  | "ainv" | "ainv_big" =>
    match run (do let n ← P.nat; let r ← P.intss; pure (n, r)) inp with
    | some (n, rels) =>
      let (m, excluded) := modelTok n rels
      let o := if out == #["PANIC"] then none else run P.nats out
      (m, specOne n rels o (op == "ainv_big" && excluded))
    | none => bad
  | "meta" =>
    match run (do
        let n ← P.nat
        let base ← P.intss
        let k ← P.nat
        let vs ← parseVariants k
        pure (n, base, vs)) inp with
    | some (n, base, vs) =>
      let all := base :: vs.map (·.2)
      let ms := all.map (fun r => modelTok n r)
      let m := if ms.any (·.2) then "-" else joinToks (toString all.length :: ms.map (·.1))
      match (if out == #["PANIC"] then none else run P.natss out) with
      | none => (m, fail "panicked-or-unparsable-inside-the-domain")
      | some os =>
        if os.length ≠ all.length then (m, fail "wrong-number-of-results") else
        match os with
        | [] => (m, fail "wrong-number-of-results")
        | o0 :: rest =>
          let baseVerdict := specOne n base (some o0) false
          if baseVerdict != ok then (m, baseVerdict) else
          -- every variant is a presentation of a group with the same abelianisation: same list
          match (vs.zip rest).find? (fun p => p.2 != o0) with
          | some p => (m, fail s!"result-changed-by-{p.1.1}")
          | none =>
            -- rotations and conjugates have literally the same exponent sums
            let rowsOk := vs.all (fun v =>
              !(v.1 == "rotate" || v.1 == "conjugate") || relMatrix n v.2 == relMatrix n base)
            (m, check [("rotate-conjugate-keep-exponent-sums", rowsOk)])
    | none => bad
  | "rav" =>
    match run (do let n ← P.nat; let raw ← P.ints; let red ← P.ints; pure (n, raw, red)) inp with
    | some (n, raw, red) =>
      let m := match relatorAsVector n red with
        | .ok row => encInts row
        | _ => "PANIC"
      if !wordInRange n red then (m, ok) else
      match (if out == #["PANIC"] then none else run P.ints out) with
      | none => (m, fail "panicked-or-unparsable-inside-the-domain")
      | some o =>
        (m, check [
          ("row-is-exponent-sum-vector", o == expVec n red),
          ("free-reduction-keeps-exponent-sums", expVec n raw == expVec n red),
          ("length-is-nr-gens", o.length == n)])
    | none => bad
  | _ => ("-", fail s!"driver-unknown-op-{op}")

end DrvC14

def main : IO Unit := mainWith DrvC14.handler
