import DSymVerif.Driver.Proto
import DSymVerif.Model.Invariants
import DSymVerif.Spec.C14

open DSymVerif DSymVerif.Proto

namespace DrvC14
open DSymVerif.Inv DSymVerif.SpecC14

/-- model payload of one `abelian_invariants` call -/
def modelTok (n : Nat) (rels : List (List Int)) : String :=
  match abelianInvariants n rels with
  | .ok l => encNats l
  | .panic => "PANIC"
  | .err => "DIVERGE"

def inDomain (n : Nat) (rels : List (List Int)) : Bool := rels.all (wordInRange n)

def specOne (n : Nat) (rels : List (List Int)) (out : Option (List Nat)) : String :=
  if !inDomain n rels then
    -- letters outside ±1..±n: not a presentation on n generators; the property says nothing
    ok
  else match out with
    | none => fail "panic-inside-the-domain"
    | some o => check (clauses n rels o)

def parseVariants : Nat → P (List (String × List (List Int)))
  | 0 => pure []
  | k + 1 => do
    let t ← P.tok
    let r ← P.intss
    let rest ← parseVariants k
    pure ((t, r) :: rest)

def handler : Handler := fun op inp out =>
  let bad := ("-", fail "driver-cannot-parse-input")
  match op with
  | "ainv" | "ainv_big" =>
    match run (do let n ← P.nat; let r ← P.intss; pure (n, r)) inp with
    | some (n, rels) =>
      let o := if out == #["PANIC"] then none else run P.nats out
      (modelTok n rels, specOne n rels o)
    | none => bad
  | "meta" =>
    match run (do
        let n ← P.nat
        let base ← P.intss
        let k ← P.nat
        let vs ← parseVariants k
        pure (n, base, vs)) inp with
    | some (n, base, vs) =>
      let all := base :: vs.map (·.2)
      let m := joinToks (toString all.length :: all.map (fun r => modelTok n r))
      let verdict : String :=
        match (if out == #["PANIC"] then none else run P.natss out) with
        | none => fail "panic-inside-the-domain"
        | some os =>
          if os.length ≠ all.length then fail "wrong-number-of-results" else
          match os with
          | [] => fail "wrong-number-of-results"
          | o0 :: rest =>
            let baseVerdict := specOne n base (some o0)
            if baseVerdict != ok then baseVerdict else
            -- every variant presents a group with the same abelianisation: same list
            match (vs.zip rest).find? (fun p => p.2 != o0) with
            | some p => fail s!"result-changed-by-{p.1.1}"
            | none =>
              -- rotations and conjugates have literally the same exponent sums
              let rowsOk := vs.all (fun v =>
                !(v.1 == "rotate" || v.1 == "conjugate") || relMatrix n v.2 == relMatrix n base)
              check [("rotate-conjugate-keep-exponent-sums", rowsOk)]
      (m, verdict)
    | none => bad
  | "rav" =>
    match run (do let n ← P.nat; let raw ← P.ints; let red ← P.ints; pure (n, raw, red)) inp with
    | some (n, raw, red) =>
      let m := match relatorAsVector n red with
        | .ok row => encInts row
        | _ => "PANIC"
      if !wordInRange n red then (m, ok) else
      match (if out == #["PANIC"] then none else run P.ints out) with
      | none => (m, fail "panicked-or-unparsable-inside-the-domain")
      | some o =>
        (m, check [
          ("row-is-exponent-sum-vector", o == expVec n red),
          ("free-reduction-keeps-exponent-sums", expVec n raw == expVec n red),
          ("length-is-nr-gens", o.length == n)])
    | none => bad
  | _ => ("-", fail s!"driver-unknown-op-{op}")

end DrvC14

def main : IO Unit := mainWith DrvC14.handler
