#!/usr/bin/env python3
"""Regenerate /verif/MANIFEST.json from conf/C*.json (one file per claimed property)."""
import json, glob, os, subprocess
ROOT = os.path.dirname(os.path.dirname(os.path.abspath(__file__)))
props = [json.loads(l) for l in open(os.path.join(ROOT, "properties.jsonl"))]
ids = [p["id"] for p in props]
checks, na = [], []
na_reasons = {}
nap = os.path.join(ROOT, "conf", "not_applicable.json")
if os.path.exists(nap):
    na_reasons = json.load(open(nap))
for pid in ids:
    cp = os.path.join(ROOT, "conf", pid + ".json")
    if not os.path.exists(cp):
        na.append({"property_id": pid, "reason": na_reasons.get(pid, "not claimed yet: the model, Spec and harness for this property are not built in this commit (planned, DESIGN.md §8); nothing is asserted about it")})
        continue
    c = json.load(open(cp))
    checks.append({
        "property_id": pid,
        "quick_cmd": f"./check {pid} --tier quick",
        "thorough_cmd": f"./check {pid} --tier thorough",
        "evidence_file": f"/verif/evidence/{pid}.json",
        "replay_cmd_template": f"./check {pid} --replay {{path}}",
        "engine": "lean4-model+correspondence",
        "level_claimed": {"category": c["level"], "text": c.get("level_text", ""), "design_ref": c.get("design_ref", "")},
        "level_note": c.get("level_note", "; ".join(c.get("trusted_base", []))),
        "technique": c.get("technique", ""),
    })
try:
    commits = subprocess.run(["git", "-C", "/repo", "log", "--format=%h %s", "--grep=^hook:"], capture_output=True, text=True).stdout.strip().splitlines()
except Exception:
    commits = []
m = {
    "version": 1,
    "setup_cmd": "cd /verif && ./check --setup",
    "hooks": {
        "guard": "--cfg odf_rust_dsymbols_verif",
        "enable": "RUSTFLAGS=--cfg odf_rust_dsymbols_verif via /verif/harness/.cargo/config.toml (the harness crate depends on /repo by path and is rebuilt from the working tree on every run)",
        "baseline_off_cmd": "cd /repo && cargo test --workspace --no-fail-fast --offline",
        "source_commits": [c.split()[0] for c in commits],
        "add_only": True,
    },
    "engines": [{
        "name": "lean4-model+correspondence",
        "path": "/verif/check",
        "serves_properties": [c["property_id"] for c in checks],
        "kind_free_text": "Lean 4 theorems about hand-written executable models (lake project /verif/lean), tied to /repo by a differential correspondence: Rust harness (/verif/harness) drives the real code in-process, native Lean drivers run the model and evaluate the decidable Spec on the implementation's outputs",
    }],
    "checks": checks,
    "not_applicable": na,
    "notes": "See DESIGN.md. Verdict logic: Spec false on an implementation output = failing input (replay file, VIOLATION); model/implementation disagreement with Spec true everywhere = escalate to thorough universe, else VIOLATION … no-failing-input-found; a proof obligation that stops checking is handled the same way. known_findings.json lists fixed defects (fix: commits in /repo).",
}
json.dump(m, open(os.path.join(ROOT, "MANIFEST.json"), "w"), indent=1, ensure_ascii=False)
print(f"MANIFEST.json: {len(checks)} checks, {len(na)} not claimed")
