#!/bin/bash
# Round-4 helper: bring an agent's scratch worktree to /repo's HEAD, then confirm and file
# its two seeded changes (m8, m9).  Usage: tools/confirm_round4.sh C14   (log: /tmp/r4logs/C14.log)
P=$1; p=$(echo $P | tr 'C' 'c'); WT=/tmp/mut4-$p
mkdir -p /tmp/r4logs
{
git -C $WT checkout -q -- src 2>/dev/null; git -C $WT checkout -q --detach main
for m in m8 m9; do
  [ -f $WT/out/$m/patch.diff ] || { echo "$P-$m: no patch"; continue; }
  echo "== $P-$m"; /verif/tools/confirm_seeded.sh $WT $m $P-$m $P </dev/null 2>&1 | tail -9
done
} > /tmp/r4logs/$P.log 2>&1
