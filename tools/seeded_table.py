#!/usr/bin/env python3
"""Print the seeded-change study (DESIGN.md §12) as a markdown table from seeded/*/meta.json."""
import json, glob, os
ROOT = os.path.dirname(os.path.dirname(os.path.abspath(__file__)))
print("| id | what was changed | needs | quick check | notes |")
print("|----|------------------|-------|-------------|-------|")
for d in sorted(glob.glob(os.path.join(ROOT, "seeded", "*"))):
    if not os.path.exists(os.path.join(d, "meta.json")):
        continue  # seeded/rewrites/ holds the harmless-rewrite study (own table)
    m = json.load(open(os.path.join(d, "meta.json")))
    def cut(s, n):
        s = " ".join((s or "").split())
        return s if len(s) <= n else s[: n - 1] + "…"
    res = m.get("final_result") or ("detected" if m.get("detected_by_quick_check") else "NOT detected")
    notes = cut(m.get("history", ""), 260)
    if m.get("also_detected_by"):
        notes += " Also: " + "; ".join(f"{k}" for k in m["also_detected_by"])
    print(f"| {os.path.basename(d)} | {cut(m.get('summary'), 200)} | {cut(m.get('needs'), 200)} | {res} | {notes} |")
