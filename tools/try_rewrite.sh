#!/bin/bash
# Harmless-rewrite study (DESIGN §12, round 4): apply a behaviour-preserving rewrite written by an
# independent session to its scratch worktree, confirm the suite still passes, run the quick check of
# every property anchored in a touched file against the changed copy, and file the outcome under
# /verif/seeded/rewrites/<id>/.  A VIOLATION here is a FALSE ALARM of the machinery (or the rewrite is
# not harmless -- to be decided by reading the replay).  The deepened pass is off by default here
# (VERIF_NO_DEEPEN=1; set VERIF_NO_DEEPEN= to include it): the question is whether the comparison alarms,
# which the quick universe already answers.  Usage: tools/try_rewrite.sh <worktree> <rk> <id>
WT=$1; R=$2; ID=$3
cd "$WT" || exit 2
git checkout -q -- src; git checkout -q --detach main 2>/dev/null
git apply out/$R/patch.diff || { echo "patch does not apply"; exit 2; }
T=$(cargo test --offline 2>&1 | grep -E "^test result" | head -1)
echo "tests with rewrite: $T"
FILES=$(git diff --name-only | tr '\n' ' ')
PROPS=$(python3 - $FILES <<'PY'
import json,sys
fs=set(sys.argv[1:])
for l in open('/verif/properties.jsonl'):
    p=json.loads(l)
    if fs & set(p['anchors']['files']): print(p['id'])
PY
)
D=/verif/seeded/rewrites/$ID; mkdir -p $D
cp out/$R/patch.diff $D/patch.diff; cp out/$R/note.json $D/note.json 2>/dev/null
: > $D/checks.txt
for P in $PROPS; do
  echo "--- $P" | tee -a $D/checks.txt
  VERIF_NO_DEEPEN=${VERIF_NO_DEEPEN-1} /verif/tools/try_mutant.sh "$WT" "$P" quick 2>&1 | grep -E "^\[C|VIOLATION|KNOWN|error|failure" | head -8 | tee -a $D/checks.txt
done
git checkout -q -- src
python3 - "$D" "$T" "$FILES" <<'PY'
import json,sys
d,t,files=sys.argv[1:4]
txt=open(d+'/checks.txt').read()
try: note=json.load(open(d+'/note.json'))
except Exception: note={}
res={"note":note,"files":files.split(),"tests_with_rewrite":t,"checks":txt.splitlines(),
     "alarm": "VIOLATION" in txt, "ran":["git apply patch.diff","cargo test --offline","tools/try_mutant.sh <worktree> <each property anchored in a touched file> quick"]}
json.dump(res,open(d+'/result.json','w'),indent=1)
print("alarm:",res["alarm"])
PY
