#!/usr/bin/env python3
"""Translator for the literal tables the properties depend on.

Reads /repo/src (current working tree) and writes
/verif/lean/DSymVerif/Generated/Tables.lean (only when the content changed, so lake
does not rebuild needlessly).  Theorems over these tables (Props C07, C15, C17, C18)
are therefore re-checked against what the source says *now*.  If a table can no
longer be located the script exits non-zero and the orchestrator reports the
property as no longer tied to the source.
"""
import re, sys, os

REPO = os.environ.get("VERIF_REPO", "/repo")
OUT = os.path.join(os.environ.get("VERIF_LEAN") or os.path.join(os.path.dirname(os.path.dirname(os.path.abspath(__file__))), "lean"),
                   "DSymVerif", "Generated", "Tables.lean")


def read(rel):
    with open(os.path.join(REPO, rel)) as f:
        text = f.read()
    if rel.endswith(".rs"):
        # drop line comments (none of the tables contains "//" inside a string literal)
        text = re.sub(r"//[^\n]*", "", text)
    return text


def fn_body(src, header_re):
    """text of the brace-matched block following the first match of header_re"""
    m = re.search(header_re, src)
    if not m:
        raise SystemExit(f"extract_tables: cannot locate /{header_re}/")
    i = src.index("{", m.end() - 1) if src[m.end() - 1] != "{" else m.end() - 1
    depth, j = 0, i
    while j < len(src):
        if src[j] == "{":
            depth += 1
        elif src[j] == "}":
            depth -= 1
            if depth == 0:
                return src[i + 1:j]
        j += 1
    raise SystemExit(f"extract_tables: unbalanced braces after /{header_re}/")


def strings_in(text):
    return re.findall(r'"([^"\\]*)"', text)


def lean_str(s):
    return '"' + s.replace("\\", "\\\\").replace('"', '\\"') + '"'


def lean_list(xs):
    return "[" + ", ".join(xs) + "]"


def main():
    gen = read("src/generators/dsym_generators.rs")
    d3 = read("src/delaney3d.rs")
    eu = read("src/euclidicity.rs")
    ms = read("src/geometry/modular_solver.rs")
    cs = read("src/fpgroups/cosets.rs")
    data = read("src/data/euclideanInvariants.data")

    # --- dsym_generators.rs
    m = re.search(r"const\s+CURV_FAC\s*:\s*i64\s*=\s*([0-9_]+)\s*;", gen)
    if not m:
        raise SystemExit("extract_tables: CURV_FAC not found")
    curv_fac = int(m.group(1).replace("_", ""))

    good_body = fn_body(gen, r"fn\s+is_good\s*\([^)]*\)\s*->\s*bool\s*\{")
    lm = re.search(r"\[(.*?)\]\s*\.contains", good_body, re.S)
    if not lm:
        raise SystemExit("extract_tables: good-orbifold list not found in is_good")
    good = strings_in(lm.group(1))
    if len(good) < 10:
        raise SystemExit("extract_tables: good-orbifold list suspiciously short")

    # named integer constants of the file (resolved recursively), so that a literal moved
    # into a `const` is still read
    consts = {}
    raw = dict(re.findall(r"const\s+(\w+)\s*:\s*i64\s*=\s*([^;]+);", gen))
    def cval(expr, depth=0):
        if depth > 8:
            raise SystemExit("extract_tables: cyclic constants")
        e = expr.strip().replace("_", "") if re.fullmatch(r"[-\d_\s]+", expr.strip()) else expr.strip()
        for name in sorted(raw, key=len, reverse=True):
            if re.search(r"\b" + name + r"\b", e):
                e = re.sub(r"\b" + name + r"\b", "(" + str(cval(raw[name], depth + 1)) + ")", e)
        if not re.fullmatch(r"[-+*/()\d\s]+", e):
            raise SystemExit(f"extract_tables: cannot evaluate constant expression {expr!r}")
        return int(eval(e.replace("/", "//")))

    def geom_table(fn):
        body = fn_body(gen, r"fn\s+" + fn + r"\s*\(&self\)\s*->\s*i64\s*\{")
        out = {}
        for g, val in re.findall(r"Geometries::(\w+)\s*=>\s*([^,\n]+),", body):
            val = val.strip()
            if val == "i64::MIN":
                out[g] = None
            else:
                out[g] = cval(val)
        if set(out) != {"Spherical", "Euclidean", "Hyperbolic", "All"}:
            raise SystemExit(f"extract_tables: {fn} table incomplete: {out}")
        return out

    gmin, gmax = geom_table("min_curvature"), geom_table("max_curvature")

    vm_body = fn_body(gen, r"fn\s+compute_vmins\s*\([^)]*\)\s*->\s*Vec<usize>\s*\{")
    vm_rules = [(int(a), int(b)) for a, b in re.findall(r"(\d+)\s*=>\s*(\d+)\s*,", vm_body)]
    dm = re.search(r"_\s*=>\s*(\d+)\s*,", vm_body)
    if not vm_rules or not dm:
        raise SystemExit("extract_tables: compute_vmins rule not found")
    vm_default = int(dm.group(1))

    ch_body = fn_body(gen, r"fn\s+children\s*\(&self,\s*state:\s*&Self::State\)\s*->\s*Vec<Self::State>\s*\{")
    vmx = re.search(r"for\s+v\s+in\s+vmin\s*\.\.=\s*(\d+)", ch_body)
    if not vmx:
        raise SystemExit("extract_tables: branching bound of DSyms::children not found")
    vmax = int(vmx.group(1))

    new_body = fn_body(gen, r"fn\s+new\s*\(dset:\s*&SimpleDSet,\s*geoms:\s*Geometries\)\s*->\s*DSymBackTracking\s*\{")
    cm = re.search(r"base_curvature\s*<\s*0\s*\{\s*base_curvature\s*\}\s*else\s*\{\s*([^}]+?)\s*\}", new_body)
    if not cm:
        raise SystemExit("extract_tables: lower curvature cut-off of DSymBackTracking::new not found")
    min_hyp_cutoff = cval(cm.group(1))
    bm = re.search(r"let\s+mut\s+base_curvature\s*=\s*-CURV_FAC\s*/\s*(\d+)\s*\*\s*dset\.size\(\)", new_body)
    if not bm:
        raise SystemExit("extract_tables: base curvature per chamber not found")
    chamber_div = int(bm.group(1))

    # --- delaney3d.rs
    pg = strings_in(fn_body(d3, r"fn\s+point_groups\s*\(\)\s*->\s*Vec<String>\s*\{"))
    ct_body = fn_body(d3, r"fn\s+core_type_by_size\s*\(n:\s*usize\)\s*->\s*String\s*\{")
    core = [(int(a), b) for a, b in re.findall(r"(\d+)\s*=>\s*\"(\w+)\"", ct_body)]
    if len(pg) < 5 or len(core) < 5:
        raise SystemExit("extract_tables: point-group tables not found")
    cty = fn_body(d3, r"fn\s+core_type\s*\(ct:\s*&CosetTable\)\s*->\s*String\s*\{")
    four = re.search(r"ct\.len\(\)\s*==\s*(\d+)", cty)
    four_names = strings_in(cty)
    if not four or len(four_names) != 2:
        raise SystemExit("extract_tables: core_type special case not found")
    ptc = fn_body(d3, r"pub\s+fn\s+pseudo_toroidal_cover<[^>]*>\s*\([^)]*\)\s*->\s*Option<PartialDSym>\s*\{")
    cr = re.search(r"v\s*<=\s*(\d+)\s*&&\s*v\s*!=\s*(\d+)", ptc)
    idx = re.search(r"coset_tables\(nr_gens,\s*&fg\.relators,\s*(\d+)\)", d3)
    if not cr or not idx:
        raise SystemExit("extract_tables: crystallographic restriction / index bound not found")

    # --- euclidicity.rs
    km = re.search(r'key\.to_string\(\)\s*==\s*"([^"]+)"', eu)
    if not km:
        raise SystemExit("extract_tables: cubic key not found")
    # the skeleton of the cascade: kinds of the exits of `is_euclidean` in source order and the
    # numeric constants of the helper calls (NOT the diagnostic texts: the property speaks of the
    # verdict class only, a rewording must not change this file)
    def nat_list(txt):
        """`0, 0, 0` / `` / `0; 3` -> [0, 0, 0] / [] / [0, 0, 0]"""
        txt = txt.strip()
        if txt == "":
            return []
        rep = re.fullmatch(r"(\d+)\s*;\s*(\d+)", txt)
        if rep:
            return [int(rep.group(1))] * int(rep.group(2))
        parts = [x.strip() for x in txt.split(",") if x.strip() != ""]
        if not all(re.fullmatch(r"\d+", x) for x in parts):
            raise SystemExit(f"extract_tables: cannot read the integer list [{txt}] in euclidicity.rs")
        return [int(x) for x in parts]

    ie = fn_body(eu, r"pub\s+fn\s+is_euclidean\s*<[^>]*>\s*\([^)]*\)\s*->\s*Euclidean\s*\{")
    kinds = [("yes" if m.group(1) else "fail" if m.group(2) else "give_up")
             for m in re.finditer(r"(Euclidean::Yes\b)|(\bfail\s*\()|(\bgive_up\s*\()", ie)]
    if kinds.count("yes") < 1 or len(kinds) < 3:
        raise SystemExit("extract_tables: exits of is_euclidean not found")
    cnt = re.findall(r"bad_subgroup_count\s*\(\s*&fg\s*,\s*(\d+)\s*,\s*(\d+)\s*\)", ie)
    sub = re.findall(r"bad_subgroup_invariants\s*\(\s*&fg\s*,\s*(\d+)\s*,\s*vec!\[([^\]]*)\]\s*\)", ie)
    hom = re.findall(r"invars\s*!=\s*\[([^\]]*)\]", ie)
    if len(cnt) != 1 or len(sub) != 1 or len(hom) != 1:
        raise SystemExit("extract_tables: the subgroup tests / homology test of is_euclidean not found "
                         f"(bad_subgroup_count x{len(cnt)}, bad_subgroup_invariants x{len(sub)}, invars != [..] x{len(hom)})")
    casc_count = (int(cnt[0][0]), int(cnt[0][1]))
    casc_sub = (int(sub[0][0]), nat_list(sub[0][1]))
    casc_hom = nat_list(hom[0])
    bcc = fn_body(eu, r"fn\s+bad_connected_components\s*\([^)]*\)\s*->\s*bool\s*\{")
    comp_eq = re.findall(r"invars\s*==\s*\[([^\]]*)\]", bcc)
    comp_sub = re.findall(r"bad_subgroup_invariants\s*\(\s*&fg\s*,\s*(\d+)\s*,\s*vec!\[([^\]]*)\]\s*\)", bcc)
    if len(comp_eq) != 2 or len(comp_sub) != 2:
        raise SystemExit("extract_tables: the component tests of bad_connected_components not found "
                         f"(invars == [..] x{len(comp_eq)}, bad_subgroup_invariants x{len(comp_sub)})")
    comp_tests = [(nat_list(e), int(i), nat_list(x)) for e, (i, x) in zip(comp_eq, comp_sub)]
    # the invariant table exactly as the Rust Lazy parses it
    inv = [t for t in data.split() if len(t) > 0 and not t.startswith("#")]
    if len(inv) < 200:
        raise SystemExit("extract_tables: euclideanInvariants.data suspiciously short")

    # --- modular_solver.rs / cosets.rs
    pm = re.search(r"^const\s+PRIME\s*:\s*i64\s*=\s*([0-9_]+)\s*;", ms, re.M)
    lim = re.search(r"assert!\(n\s*<\s*([0-9_]+)", cs)
    if not pm or not lim:
        raise SystemExit("extract_tables: PRIME / coset-table limit not found")

    def opt(v):
        return "none" if v is None else f"some ({v})"

    order = ["Spherical", "Euclidean", "Hyperbolic", "All"]
    L = []
    L.append("/-")
    L.append("GENERATED by /verif/tools/extract_tables.py from /repo/src on every run — do not edit.")
    L.append("Literal tables and constants of the implementation, as Lean data.")
    L.append("-/")
    L.append("namespace DSymVerif.Tables")
    L.append("")
    L.append("/-- `CURV_FAC` (dsym_generators.rs) -/")
    L.append(f"def curvFac : Int := {curv_fac}")
    L.append("/-- the list inside `DSymBackTracking::is_good` -/")
    L.append("def goodSphericalOrbifolds : List String := " + lean_list([lean_str(s) for s in good]))
    L.append("/-- `Geometries::{min,max}_curvature` in the order S, E, H, All; `none` = i64::MIN -/")
    L.append("def geomMinCurvature : List (Option Int) := " + lean_list([opt(gmin[g]) for g in order]))
    L.append("def geomMaxCurvature : List (Option Int) := " + lean_list([opt(gmax[g]) for g in order]))
    L.append("/-- `compute_vmins`: (orbit length r, minimal v) pairs and the default -/")
    L.append("def vminRules : List (Nat × Nat) := " + lean_list([f"({a}, {b})" for a, b in vm_rules]))
    L.append(f"def vminDefault : Nat := {vm_default}")
    L.append("/-- lower curvature cut-off used when the base curvature is non-negative (`new`) -/")
    L.append(f"def minHypCutoff : Int := {min_hyp_cutoff}")
    L.append("/-- base curvature is `-CURV_FAC / N * size`: the N -/")
    L.append(f"def chamberDivisor : Int := {chamber_div}")
    L.append("/-- upper end of `for v in vmin..=N` in `children` -/")
    L.append(f"def genVMax : Nat := {vmax}")
    L.append("")
    L.append("/-- `point_groups()` (delaney3d.rs) -/")
    L.append("def pointGroups : List String := " + lean_list([lean_str(s) for s in pg]))
    L.append("/-- `core_type_by_size` -/")
    L.append("def coreTypeBySize : List (Nat × String) := " + lean_list([f"({a}, {lean_str(b)})" for a, b in core]))
    L.append("/-- `core_type`: size handled before the table, (fully involutive, otherwise) names -/")
    L.append(f"def coreTypeSpecialSize : Nat := {four.group(1)}")
    L.append("def coreTypeSpecialNames : String × String := (" + lean_str(four_names[0]) + ", " + lean_str(four_names[1]) + ")")
    L.append("/-- crystallographic restriction asserted by `pseudo_toroidal_cover`: v ≤ a ∧ v ≠ b -/")
    L.append(f"def crystMax : Nat := {cr.group(1)}")
    L.append(f"def crystExcluded : Nat := {cr.group(2)}")
    L.append("/-- index bound of the low-index enumeration in `construct_candidates` -/")
    L.append(f"def candidateIndexBound : Nat := {idx.group(1)}")
    L.append("")
    L.append("/-- canonical key of the cubic tiling compared in `is_euclidean` -/")
    L.append("def cubicKey : String := " + lean_str(km.group(1)))
    def nl(xs):
        return lean_list([str(x) for x in xs])
    L.append("/-- kinds of the exits of `is_euclidean` in source order (`fail(..)` / `give_up(..)` / `Euclidean::Yes`);")
    L.append("    the diagnostic texts are deliberately not extracted -/")
    L.append("def cascadeKinds : List String := " + lean_list([lean_str(k) for k in kinds]))
    L.append("/-- `bad_subgroup_count(&fg, index, expected)` in `is_euclidean` -/")
    L.append(f"def cascadeCountArgs : Nat × Nat := ({casc_count[0]}, {casc_count[1]})")
    L.append("/-- `bad_subgroup_invariants(&fg, index, expected)` in `is_euclidean` -/")
    L.append(f"def cascadeSubgroupArgs : Nat × List Nat := ({casc_sub[0]}, {nl(casc_sub[1])})")
    L.append("/-- `invars != [..]` in `is_euclidean` (the handle test) -/")
    L.append("def cascadeHomology : List Nat := " + nl(casc_hom))
    L.append("/-- `bad_connected_components`: (`invars == [..]`, index, expected of the `bad_subgroup_invariants` call) in source order -/")
    L.append("def componentTests : List (List Nat × Nat × List Nat) := " +
             lean_list([f"({nl(e)}, {i}, {nl(x)})" for e, i, x in comp_tests]))
    L.append("/-- `INVARIANTS` exactly as the Rust `Lazy` parses src/data/euclideanInvariants.data -/")
    L.append("def euclideanInvariants : List String := [")
    for k in range(0, len(inv), 4):
        L.append("  " + ", ".join(lean_str(s) for s in inv[k:k + 4]) + ("," if k + 4 < len(inv) else ""))
    L.append("]")
    L.append("")
    L.append("/-- `PRIME` (modular_solver.rs) and the coset-table row limit (cosets.rs) -/")
    L.append(f"def modularPrime : Int := {int(pm.group(1).replace('_', ''))}")
    L.append(f"def cosetTableLimit : Nat := {int(lim.group(1).replace('_', ''))}")
    L.append("")
    L.append("end DSymVerif.Tables")
    text = "\n".join(L) + "\n"
    os.makedirs(os.path.dirname(OUT), exist_ok=True)
    old = open(OUT).read() if os.path.exists(OUT) else None
    if old != text:
        with open(OUT, "w") as f:
            f.write(text)
        print("extract_tables: Tables.lean updated")
    else:
        print("extract_tables: Tables.lean unchanged")


if __name__ == "__main__":
    main()
