#!/bin/bash
# Confirm a seeded change produced by an independent agent and file it under /verif/seeded/.
# Usage: tools/confirm_seeded.sh <worktree> <m1|m2> <seed-id> <Cnn>
# Confirms in the scratch worktree: (1) existing suite passes with the change,
# (2) demo fails with the change, (3) demo passes without it.  Then runs the property's
# check against the changed copy (tools/try_mutant.sh) and records everything in meta.json.
WT=$1; M=$2; ID=$3; PID=$4
cd "$WT" || exit 2
git checkout -q -- src
cp out/$M/demo.rs examples/demo_$M.rs 2>/dev/null
git apply out/$M/patch.diff || { echo "patch does not apply"; exit 2; }
T=$(cargo test --offline 2>&1 | grep -E "^test result" | head -1)
cargo run -q --offline --example demo_$M >/tmp/demo_with.txt 2>&1; RC_WITH=$?
CHK=$(/verif/tools/try_mutant.sh "$WT" "$PID" quick 2>&1 | grep -E "^\[C|VIOLATION|KNOWN" | head -6)
git checkout -q -- src
cargo run -q --offline --example demo_$M >/tmp/demo_without.txt 2>&1; RC_WITHOUT=$?
echo "tests with change: $T"; echo "demo with change rc=$RC_WITH; without rc=$RC_WITHOUT"; echo "$CHK"
OK=1
echo "$T" | grep -q "168 passed; 0 failed" || OK=0
[ $RC_WITH -ne 0 ] || OK=0
[ $RC_WITHOUT -eq 0 ] || OK=0
if [ $OK -eq 1 ]; then
  D=/verif/seeded/$ID; mkdir -p $D
  cp out/$M/patch.diff $D/patch.diff; cp out/$M/demo.rs $D/demo.rs
  python3 - "$D" "$WT/out/$M/meta.json" "$PID" "$T" "$RC_WITH" "$RC_WITHOUT" "$CHK" <<'PY'
import json,sys
d,mp,pid,t,rw,rwo,chk=sys.argv[1:8]
try: m=json.load(open(mp))
except Exception: m={}
m.update({"property":pid,"confirmed_by_lead":{"ran":["git apply patch.diff","cargo test --offline","cargo run --offline --example demo (with change)","git checkout -- src","cargo run --offline --example demo (without change)","/verif/tools/try_mutant.sh <worktree> "+pid+" quick (with change)"],"tests_with_change":t,"demo_rc_with_change":int(rw),"demo_rc_without_change":int(rwo)},
 "check_result_quick":chk.splitlines(),"detected_by_quick_check":("VIOLATION" in chk)})
json.dump(m,open(d+"/meta.json","w"),indent=1)
PY
  echo "filed under $D"
else
  echo "NOT CONFIRMED"
fi
