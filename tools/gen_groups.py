#!/usr/bin/env python3
"""One-off generator of /verif/corpus/groups.txt (corpus of finite groups for C11-C13).

Every line:  name tier order nr_gens degree | relator ; relator ; ... | perm ; perm ; ...
(tier q = quick and thorough, t = thorough only; words over letters +-1..+-nr_gens;
 perm k = images of 0..degree-1 under generator k).
The permutation images are built here from concrete models of the groups (cycles,
signed permutations, reflections, matrices, multiplication tables) - never from the
presentation - and every line is verified before it is written:
  * the images satisfy the relators,
  * they generate a group of the stated (literature) order,
  * an independent textbook HLT coset enumeration of the presentation over the trivial
    subgroup also gives that order (so the representation is faithful).
Not run by ./check; the corpus file is the committed artefact."""
import itertools, sys, os
from fractions import Fraction

def pmul(p, q):            # first p then q
    return tuple(q[i] for i in p)
def pinv(p):
    r = [0] * len(p)
    for i, x in enumerate(p): r[x] = i
    return tuple(r)
def pid(d): return tuple(range(d))
def closure(gens, d, limit=50000):
    e = pid(d); seen = {e}; todo = [e]
    while todo:
        p = todo.pop()
        for g in gens:
            q = pmul(p, g)
            if q not in seen:
                seen.add(q); todo.append(q)
                if len(seen) > limit: return None
    return seen
def evalw(w, gens, d):
    p = pid(d)
    for x in w:
        p = pmul(p, gens[x - 1] if x > 0 else pinv(gens[-x - 1]))
    return p
def porder(p):
    e = pid(len(p)); q = p; k = 1
    while q != e: q = pmul(q, p); k += 1
    return k
def cyc(d, *cycles):
    p = list(range(d))
    for c in cycles:
        for i in range(len(c)): p[c[i]] = c[(i + 1) % len(c)]
    return tuple(p)

def todd_coxeter(ng, rels, limit=200000):
    """plain HLT with immediate coincidence processing; returns number of cosets of 1"""
    cols = 2 * ng
    def ci(x): return x - 1 if x > 0 else ng - x - 1
    def cinv(j): return j + ng if j < ng else j - ng
    table = [[None] * cols]; parent = [0]
    def find(a):
        while parent[a] != a:
            parent[a] = parent[parent[a]]; a = parent[a]
        return a
    def merge(a, b):
        q = [(a, b)]
        while q:
            a, b = q.pop(); a, b = find(a), find(b)
            if a == b: continue
            if a > b: a, b = b, a
            parent[b] = a
            for j in range(cols):
                v = table[b][j]
                if v is None: continue
                table[b][j] = None
                v = find(v)
                if table[v][cinv(j)] is not None and find(table[v][cinv(j)]) == b: table[v][cinv(j)] = None
                u = table[a][j]
                if u is None:
                    table[a][j] = v
                    if table[v][cinv(j)] is None: table[v][cinv(j)] = a
                    else: q.append((table[v][cinv(j)], a))
                else: q.append((u, v))
    def define(a, j):
        n = len(table); assert n < limit
        table.append([None] * cols); parent.append(n)
        table[a][j] = n; table[n][cinv(j)] = a
    def scan_fill(a, w):
        f = a; i = 0; b = a; k = len(w)
        while True:
            f = find(f); b = find(b)
            while i < k and table[f][ci(w[i])] is not None: f = find(table[f][ci(w[i])]); i += 1
            if i == k:
                if f != b: merge(f, b)
                return
            while k > i and table[b][cinv(ci(w[k - 1]))] is not None: b = find(table[b][cinv(ci(w[k - 1]))]); k -= 1
            if k == i:
                if f != b: merge(f, b)
                return
            if k == i + 1:
                j = ci(w[i]); table[f][j] = b
                if table[b][cinv(j)] is None: table[b][cinv(j)] = f
                else: merge(table[b][cinv(j)], f)
                return
            define(f, ci(w[i]))
    a = 0
    while a < len(table):
        if find(a) == a:
            for w in rels:
                if w: scan_fill(a, w)
                if find(a) != a: break
            if find(a) == a:
                for j in range(cols):
                    if table[a][j] is None: define(a, j)
        a += 1
    return sum(1 for a in range(len(table)) if find(a) == a)

LINES = []
def add(name, tier, order, ng, rels, perms):
    d = len(perms[0]) if perms else 1
    perms = [tuple(p) for p in perms]
    assert len(perms) == ng, name
    for p in perms: assert sorted(p) == list(range(d)), name
    for r in rels: assert evalw(r, perms, d) == pid(d), (name, r)
    cl = closure(perms, d)
    assert cl is not None and len(cl) == order, (name, len(cl) if cl else None, order)
    tc = todd_coxeter(ng, rels)
    assert tc == order, (name, "todd-coxeter", tc, order)
    LINES.append("%s %s %d %d %d | %s | %s" % (name, tier, order, ng, d,
        " ; ".join(" ".join(map(str, r)) for r in rels), " ; ".join(" ".join(map(str, p)) for p in perms)))

def pw(w, k): return list(w) * k
def comm(a, b): return [a, b, -a, -b]

# --- cyclic
add("Z1", "q", 1, 1, [[1]], [pid(1)])
for n in range(2, 13):
    add("Z%d" % n, "q" if n <= 8 else "t", n, 1, [pw([1], n)], [cyc(n, list(range(n)))])
add("Z6ab", "q", 6, 2, [pw([1], 2), pw([2], 3), comm(1, 2)], [cyc(5, [0, 1]), cyc(5, [2, 3, 4])])
add("Z1ab", "q", 1, 2, [[1, 2, -1, -2, -2], [2, 1, -2, -1, -1]], [pid(1), pid(1)])
add("Z1abc", "q", 1, 3, [[-1, 2, 1, -2, -2], [-2, 3, 2, -3, -3], [-3, 1, 3, -1, -1]], [pid(1)] * 3)
# Fibonacci group F(2,5) = Z11: a_i a_{i+1} = a_{i+2}; a_i -> translation by 4^i (4^2 = 4 + 1 mod 11)
add("Fib25", "q", 11, 5, [[1, 2, -3], [2, 3, -4], [3, 4, -5], [4, 5, -1], [5, 1, -2]],
    [tuple((x + pow(4, i, 11)) % 11 for x in range(11)) for i in range(1, 6)])
# --- abelian products
def prod_cyc(ms):
    d = sum(ms); perms = []; off = 0
    for m in ms:
        perms.append(cyc(d, list(range(off, off + m)))); off += m
    rels = [pw([i + 1], m) for i, m in enumerate(ms)]
    for i in range(len(ms)):
        for j in range(i + 1, len(ms)): rels.append(comm(i + 1, j + 1))
    o = 1
    for m in ms: o *= m
    return o, len(ms), rels, perms
for ms, tier in [((2, 2), "q"), ((2, 4), "q"), ((3, 3), "q"), ((2, 2, 2), "q"), ((4, 4), "q"), ((2, 6), "q"),
                 ((3, 5), "t"), ((2, 3, 4), "t"), ((6, 15), "t")]:
    o, ng, rels, perms = prod_cyc(ms)
    add("Z" + "xZ".join(map(str, ms)), tier, o, ng, rels, perms)
# --- dihedral: rotation/reflection form and Coxeter form
for n in range(3, 9):
    r = cyc(n, list(range(n))); s = tuple((-i) % n for i in range(n)); s2 = tuple((1 - i) % n for i in range(n))
    add("D%d" % n, "q", 2 * n, 2, [pw([1], n), pw([2], 2), [2, 1, 2, 1]], [r, s])
    add("I2_%d" % n, "q", 2 * n, 2, [pw([1], 2), pw([2], 2), pw([1, 2], n)], [s, s2])
add("D12", "t", 24, 2, [pw([1], 12), pw([2], 2), [2, 1, 2, 1]], [cyc(12, list(range(12))), tuple((-i) % 12 for i in range(12))])
# --- groups from a multiplication model: right regular representation
def regular(elems, mul, gens):
    idx = {e: i for i, e in enumerate(elems)}
    return [tuple(idx[mul(e, g)] for e in elems) for g in gens]
def qmul(a, b):
    a0, a1, a2, a3 = a; b0, b1, b2, b3 = b
    return (a0*b0 - a1*b1 - a2*b2 - a3*b3, a0*b1 + a1*b0 + a2*b3 - a3*b2, a0*b2 - a1*b3 + a2*b0 + a3*b1, a0*b3 + a1*b2 - a2*b1 + a3*b0)
qi, qj = (0, 1, 0, 0), (0, 0, 1, 0)
def gen_closure(gens, mul, e):
    seen = [e]; s = {e}; k = 0
    while k < len(seen):
        for g in gens:
            x = mul(seen[k], g)
            if x not in s: s.add(x); seen.append(x)
        k += 1
    return seen
Q8 = gen_closure([qi, qj], qmul, (1, 0, 0, 0))
add("Q8", "q", 8, 2, [pw([1], 4), [1, 1, -2, -2], [-2, 1, 2, 1]], regular(Q8, qmul, [qi, qj]))
# dicyclic Dic_n = <a,b | a^2n, a^n b^-2, b^-1 a b a>, elements a^k b^e with b a = a^-1 b
def dic(n):
    def mul(x, y):
        (k, e), (l, f) = x, y
        if e == 0: return ((k + l) % (2 * n), f)
        # a^k b a^l b^f = a^(k-l) b^(1+f); b^2 = a^n
        if f == 0: return ((k - l) % (2 * n), 1)
        return ((k - l + n) % (2 * n), 0)
    els = gen_closure([(1, 0), (0, 1)], mul, (0, 0))
    return els, mul
for n, tier in [(3, "q"), (4, "q"), (5, "t")]:
    els, mul = dic(n)
    add("Dic%d" % n, tier, 4 * n, 2, [pw([1], 2 * n), pw([1], n) + [-2, -2], [-2, 1, 2, 1]], regular(els, mul, [(1, 0), (0, 1)]))
# Heisenberg group mod 3: upper unitriangular 3x3 over F3; x=(a,b,c) ~ [[1,a,c],[0,1,b],[0,0,1]]
def hmul(x, y):
    return ((x[0] + y[0]) % 3, (x[1] + y[1]) % 3, (x[2] + y[2] + x[0] * y[1]) % 3)
H3els = gen_closure([(1, 0, 0), (0, 1, 0)], hmul, (0, 0, 0))
add("Heis3", "q", 27, 2, [pw([1], 3), pw([2], 3), comm(1, 2) + [1] + [2, 1, -2, -1] + [-1], comm(1, 2) + [2] + [2, 1, -2, -1] + [-2]],
    regular(H3els, hmul, [(1, 0, 0), (0, 1, 0)]))
# --- symmetric / alternating via Coxeter and triangle presentations
def coxeter_rels(n, m):
    rels = [[i, i] for i in range(1, n + 1)]
    for i in range(1, n + 1):
        for j in range(i + 1, n + 1):
            rels.append(pw([i, j], m.get((i, j), 2)))
    return rels
def transp(d, i): return cyc(d, [i, i + 1])
add("S3", "q", 6, 2, coxeter_rels(2, {(1, 2): 3}), [transp(3, 0), transp(3, 1)])
add("S4cox", "q", 24, 3, coxeter_rels(3, {(1, 2): 3, (2, 3): 3}), [transp(4, i) for i in range(3)])
add("S5cox", "q", 120, 4, coxeter_rels(4, {(1, 2): 3, (2, 3): 3, (3, 4): 3}), [transp(5, i) for i in range(4)])
add("S6cox", "t", 720, 5, coxeter_rels(5, {(i, i + 1): 3 for i in range(1, 5)}), [transp(6, i) for i in range(5)])
add("Z2^3cox", "q", 8, 3, coxeter_rels(3, {}), [cyc(6, [0, 1]), cyc(6, [2, 3]), cyc(6, [4, 5])])
# signed permutations on +-1..+-n as points 2i (for +e_i), 2i+1 (for -e_i)
def sgn_flip(n, i): return cyc(2 * n, [2 * i, 2 * i + 1])
def sgn_swap(n, i): return cyc(2 * n, [2 * i, 2 * i + 2], [2 * i + 1, 2 * i + 3])
add("B2", "q", 8, 2, coxeter_rels(2, {(1, 2): 4}), [sgn_flip(2, 0), sgn_swap(2, 0)])
add("B3", "q", 48, 3, coxeter_rels(3, {(1, 2): 4, (2, 3): 3}), [sgn_flip(3, 0), sgn_swap(3, 0), sgn_swap(3, 1)])
add("B4", "q", 384, 4, coxeter_rels(4, {(1, 2): 4, (2, 3): 3, (3, 4): 3}),
    [sgn_flip(4, 0), sgn_swap(4, 0), sgn_swap(4, 1), sgn_swap(4, 2)])
# D4 Coxeter group: even signed permutations; s1 = swap with sign change of e1,e2
def sgn_swapneg(n, i): return cyc(2 * n, [2 * i, 2 * i + 3], [2 * i + 1, 2 * i + 2])
add("D4cox", "t", 192, 4, coxeter_rels(4, {(1, 3): 3, (2, 3): 3, (3, 4): 3}),
    [sgn_swapneg(4, 0), sgn_swap(4, 0), sgn_swap(4, 1), sgn_swap(4, 2)])
# H3 = A5 x Z2: s_i = (double transposition in A5, swap of two extra points)
def find_h3():
    dts = [p for p in itertools.permutations(range(5)) if porder(p) == 2 and sum(1 for i in range(5) if p[i] != i) == 4]
    for a in dts:
        for b in dts:
            if porder(pmul(a, b)) != 5: continue
            for c in dts:
                if porder(pmul(b, c)) == 3 and porder(pmul(a, c)) == 2:
                    return [tuple(list(x) + [6, 5]) for x in (a, b, c)]
add("H3", "q", 120, 3, coxeter_rels(3, {(1, 2): 5, (2, 3): 3}), find_h3())
# F4 on its 24 long roots +-e_i+-e_j (exact rational reflections)
def f4():
    long_roots = []
    for i in range(4):
        for j in range(i + 1, 4):
            for si in (1, -1):
                for sj in (1, -1):
                    v = [Fraction(0)] * 4; v[i] = Fraction(si); v[j] = Fraction(sj); long_roots.append(tuple(v))
    def refl(a):
        aa = sum(x * x for x in a)
        def f(v):
            c = 2 * sum(x * y for x, y in zip(v, a)) / aa
            return tuple(x - c * y for x, y in zip(v, a))
        return f
    H = Fraction(1, 2)
    simple = [(0, 1, -1, 0), (0, 0, 1, -1), (0, 0, 0, 1), (H, -H, -H, -H)]
    simple = [tuple(Fraction(x) for x in a) for a in simple]
    idx = {v: i for i, v in enumerate(long_roots)}
    return [tuple(idx[refl(a)(v)] for v in long_roots) for a in simple]
add("F4", "t", 1152, 4, coxeter_rels(4, {(1, 2): 3, (2, 3): 4, (3, 4): 3}), f4())
# triangle (polyhedral) groups <a,b | a^l, b^m, (ab)^n> by search in a symmetric group
def find_pair(d, oa, ob, oab, order, extra=None):
    perms = list(itertools.permutations(range(d)))
    A = [p for p in perms if porder(p) == oa]; B = [p for p in perms if porder(p) == ob]
    for a in A:
        for b in B:
            if porder(pmul(a, b)) != oab: continue
            if extra and not extra(a, b): continue
            cl = closure([a, b], d, order)
            if cl is not None and len(cl) == order: return [a, b]
    raise Exception("no pair")
add("T232", "q", 6, 2, [pw([1], 2), pw([2], 3), pw([1, 2], 2)], find_pair(3, 2, 3, 2, 6))
add("T233", "q", 12, 2, [pw([1], 2), pw([2], 3), pw([1, 2], 3)], find_pair(4, 2, 3, 3, 12))
add("T234", "q", 24, 2, [pw([1], 2), pw([2], 3), pw([1, 2], 4)], find_pair(4, 2, 3, 4, 24))
add("T235", "q", 60, 2, [pw([1], 2), pw([2], 3), pw([1, 2], 5)], find_pair(5, 2, 3, 5, 60))
add("A4_332", "q", 12, 2, [pw([1], 3), pw([2], 3), pw([1, 2], 2)], find_pair(4, 3, 3, 2, 12))
add("A5_253", "q", 60, 2, [pw([1], 2), pw([2], 5), pw([1, 2], 3)], find_pair(5, 2, 5, 3, 60))
add("S5_254", "q", 120, 2, [pw([1], 2), pw([2], 5), pw([1, 2], 4), pw([1, 2, 1, -2], 3)],
    find_pair(5, 2, 5, 4, 120, lambda a, b: porder(pmul(pmul(a, b), pmul(a, pinv(b)))) == 3))
add("PSL27", "q", 168, 2, [pw([1], 2), pw([2], 3), pw([1, 2], 7), pw(comm(1, 2), 4)],
    find_pair(7, 2, 3, 7, 168, lambda a, b: porder(pmul(pmul(a, b), pmul(pinv(a), pinv(b)))) == 4))
# binary tetrahedral SL(2,3) = <s,t | s^3 = t^3 = (st)^2> on the 8 non-zero vectors of F3^2
def sl23():
    vecs = [(x, y) for x in range(3) for y in range(3) if (x, y) != (0, 0)]
    idx = {v: i for i, v in enumerate(vecs)}
    mats = [m for m in itertools.product(range(3), repeat=4) if (m[0] * m[3] - m[1] * m[2]) % 3 == 1]
    def act(m): return tuple(idx[((v[0] * m[0] + v[1] * m[2]) % 3, (v[0] * m[1] + v[1] * m[3]) % 3)] for v in vecs)
    ps = [act(m) for m in mats]
    for s in ps:
        for t in ps:
            s3 = pmul(pmul(s, s), s); t3 = pmul(pmul(t, t), t); st = pmul(s, t)
            if s3 == t3 == pmul(st, st) and s3 != pid(8) and len(closure([s, t], 8)) == 24: return [s, t]
add("SL23", "q", 24, 2, [[1, 2, 1, 2, -1, -1, -1], [1, 1, 1, -2, -2, -2]], sl23())

out = os.path.join(os.path.dirname(os.path.abspath(__file__)), "..", "corpus", "groups.txt")
with open(out, "w") as f:
    f.write("# finite groups with faithful permutation representations (tools/gen_groups.py; every line verified there)\n")
    f.write("# name tier order nr_gens degree | relators | generator images on 0..degree-1\n")
    for l in LINES: f.write(l + "\n")
print(len(LINES), "groups written")
