# independent check: conjugacy classes of subgroups by index, for finite Coxeter groups given as
# permutation groups generated from reflections (Todd-Coxeter-free: build the group by closure
# of explicit permutation generators obtained from a faithful action on cosets computed by hand)
import itertools, sys
def compose(p,q): return tuple(p[i] for i in q)   # p after q
def inverse(p):
    r=[0]*len(p)
    for i,x in enumerate(p): r[x]=i
    return tuple(r)
def closure(gens,n):
    e=tuple(range(n)); G={e}; frontier=[e]
    while frontier:
        new=[]
        for g in frontier:
            for s in gens:
                h=compose(s,g)
                if h not in G: G.add(h); new.append(h)
        frontier=new
    return G
def subgroup_classes(G,n,maxgen=3):
    G=list(G); e=tuple(range(n))
    subs=set()
    subs.add(frozenset([e]))
    for k in range(1,maxgen+1):
        for gens in itertools.combinations(G,k):
            subs.add(frozenset(closure(gens,n)))
    # conjugacy classes
    classes={}
    seen=set()
    out={}
    for H in subs:
        if H in seen: continue
        orbit=set()
        for g in G:
            gi=inverse(g)
            orbit.add(frozenset(compose(compose(g,h),gi) for h in H))
        seen|=orbit
        idx=len(G)//len(H)
        out[idx]=out.get(idx,0)+1
    return dict(sorted(out.items()))
# S4 x C2 on 6 points
def perm(cycles,n):
    p=list(range(n))
    for c in cycles:
        for a,b in zip(c,c[1:]+c[:1]): p[a]=b
    return tuple(p)
n=6
gens=[perm([(0,1)],n),perm([(0,1,2,3)],n),perm([(4,5)],n)]
G=closure(gens,n); print(len(G))
print("S4xC2",subgroup_classes(G,n,3))
n=4
G=closure([perm([(0,1)],n),perm([(0,1,2,3)],n)],n); print(len(G))
print("S4",subgroup_classes(G,n,2))
