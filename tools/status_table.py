#!/usr/bin/env python3
"""Print the per-property status (DESIGN.md §13) from conf/, Props/ and evidence/."""
import json, glob, os, re
ROOT = os.path.dirname(os.path.dirname(os.path.abspath(__file__)))
print("| prop | level | theorems | quick cases | open obligations | key theorems |")
print("|------|-------|----------|-------------|------------------|--------------|")
for cp in sorted(glob.glob(os.path.join(ROOT, "conf", "C*.json"))):
    c = json.load(open(cp)); pid = c["id"]
    pp = os.path.join(ROOT, "lean", "DSymVerif", "Props", pid + ".lean")
    names = re.findall(r"^\s*theorem\s+([^\s:({\[]+)", open(pp).read(), re.M) if os.path.exists(pp) else []
    ep = os.path.join(ROOT, "evidence", pid + ".json")
    cases = json.load(open(ep))["coverage"].get("evaluations") if os.path.exists(ep) else "?"
    key = c.get("key_theorems") or names[:8]
    print(f"| {pid} | {c['level']} | {len(names)} | {cases} | {len(c.get('open_obligations', []))} | {', '.join('`'+k+'`' for k in key[:8])}{' …' if len(names) > 8 else ''} |")
