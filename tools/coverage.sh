#!/bin/bash
# Measure which lines of /repo/src the correspondence harness of a property executes.
#
#   tools/coverage.sh <Cnn|all> [quick|thorough]        e.g.  tools/coverage.sh C07   |   tools/coverage.sh "C03 C04" thorough
#
# What it does (nothing under /verif/harness, /verif/lean, /verif/conf or /repo is touched):
#   1. snapshot /verif/harness (without target/) to $WORK/harness, link /verif/corpus next to it
#      (d3gen.rs / groups.rs / c18.rs reach the corpus through CARGO_MANIFEST_DIR/../corpus);
#   2. cargo +nightly build --release --offline -j$JOBS with
#        RUSTFLAGS="-C instrument-coverage --cfg odf_rust_dsymbols_verif"     (the cfg is what harness/.cargo/config.toml sets;
#        RUSTFLAGS replaces build.rustflags, so it is repeated here; profile.release keeps overflow-checks / debug-assertions)
#      into the separate target dir $TARGET (default /tmp/cov-target);
#   3. run the binary exactly like ./check does for the tier:  --tier T --seed S --shard i/N  for i in 0..N-1
#      (N = conf.shards[T] or 16, S = 1 unless SEED is set), stdout discarded (no Lean driver needed), at most $PAR shards at a time,
#      one LLVM_PROFILE_FILE per shard;
#   4. llvm-profdata merge, llvm-cov export (lcov + json) restricted to /repo/src, using the nightly toolchain's llvm-tools;
#   5. tools/coverage_report.py writes notes/coverage/<id>.txt (<id>.thorough.txt for the thorough tier),
#      notes/coverage/lcov/<id>-<tier>.lcov, notes/coverage/data/<id>-<tier>.json and refreshes the table in notes/coverage/SUMMARY.md.
#
# Environment: KEEP=1 keep $WORK and $TARGET; JOBS (8) cargo jobs; PAR (8) concurrent shards; SEED (1); TIMEOUT seconds per shard
# (default 1800 quick / 10800 thorough; a shard that is killed leaves no profile and is reported); TOOLCHAIN (+nightly).
# Measurement only: not registered in MANIFEST, produces no evidence.
set -u
VERIF=$(cd "$(dirname "$0")/.." && pwd)
WHAT=${1:?usage: coverage.sh <Cnn|all> [quick|thorough]}
TIER=${2:-quick}
WORK=${WORK:-/tmp/cov-work}
TARGET=${TARGET:-/tmp/cov-target}
JOBS=${JOBS:-8}
PAR=${PAR:-8}
SEED=${SEED:-1}
TOOLCHAIN=${TOOLCHAIN:-+nightly}
if [ "$TIER" = thorough ]; then TIMEOUT=${TIMEOUT:-10800}; else TIMEOUT=${TIMEOUT:-1800}; fi
OUT=$VERIF/notes/coverage

SYSROOT=$(rustc $TOOLCHAIN --print sysroot) || { echo "toolchain $TOOLCHAIN not available"; exit 1; }
HOST=$(rustc $TOOLCHAIN -vV | sed -n 's/^host: //p')
LLVMBIN=$SYSROOT/lib/rustlib/$HOST/bin
PROFDATA=$LLVMBIN/llvm-profdata; COV=$LLVMBIN/llvm-cov
[ -x "$PROFDATA" ] && [ -x "$COV" ] || { echo "llvm-tools missing in $LLVMBIN"; exit 1; }

if [ "$WHAT" = all ]; then
  IDS=$(cd "$VERIF/conf" && ls C??.json | sed 's/\.json//')
else
  IDS=$(echo "$WHAT" | tr 'c,' 'C ')
fi

mkdir -p "$WORK" "$OUT/lcov" "$OUT/data"
rsync -a --delete --exclude target "$VERIF/harness/" "$WORK/harness/"
ln -sfn "$VERIF/corpus" "$WORK/corpus"

BINS=""; for id in $IDS; do
  b=$(python3 -c "import json;print(json.load(open('$VERIF/conf/$id.json'))['bin'])") || exit 1
  BINS="$BINS --bin $b"
done
echo "== building$BINS (instrumented, $TOOLCHAIN, -j$JOBS) into $TARGET"
# build scripts and proc-macros are instrumented too and would drop default_*.profraw into the package directories
# (/repo, ~/.cargo/registry/src/...) they run in: send those profiles to the scratch directory instead.
mkdir -p "$WORK/build-profiles"
( cd "$WORK/harness" && CARGO_TARGET_DIR="$TARGET" CARGO_NET_OFFLINE=true LLVM_PROFILE_FILE="$WORK/build-profiles/%m_%p.profraw" \
    RUSTFLAGS="-C instrument-coverage --cfg odf_rust_dsymbols_verif" \
    cargo $TOOLCHAIN build --release --offline -j"$JOBS" $BINS 2>&1 | grep -E '^error|^ +Finished|could not compile' | tail -15 )

for id in $IDS; do
  read -r BIN N <<<"$(python3 - "$VERIF/conf/$id.json" "$TIER" <<'EOF'
import json, sys, os
c = json.load(open(sys.argv[1])); t = sys.argv[2]
n = c.get("shards", {}).get(t) if isinstance(c.get("shards"), dict) else None
print(c["bin"], n or min(os.cpu_count() or 4, 16))
EOF
)"
  EXE=$TARGET/release/$BIN
  [ -x "$EXE" ] || { echo "[$id] build failed: $EXE missing"; continue; }
  P=$WORK/prof/$id-$TIER; rm -rf "$P"; mkdir -p "$P"
  echo "== [$id] $BIN --tier $TIER --seed $SEED --shard i/$N  ($PAR at a time, timeout ${TIMEOUT}s per shard)"
  t0=$(date +%s)
  seq 0 $((N-1)) | xargs -P "$PAR" -I{} bash -c \
    "LLVM_PROFILE_FILE='$P/s{}.profraw' RUST_BACKTRACE=0 CARGO_NET_OFFLINE=true timeout $TIMEOUT '$EXE' --tier $TIER --seed $SEED --shard {}/$N >/dev/null 2>'$P/err{}.txt'; echo \$? > '$P/rc{}.txt'"
  t1=$(date +%s)
  BAD=""; for i in $(seq 0 $((N-1))); do r=$(cat "$P/rc$i.txt" 2>/dev/null || echo '?'); [ "$r" = 0 ] || BAD="$BAD $i:$r"; done
  [ -z "$BAD" ] || echo "[$id] WARNING shards with non-zero exit (shard:rc)$BAD — their profiles may be missing"
  NPROF=$(ls "$P"/*.profraw 2>/dev/null | wc -l)
  [ "$NPROF" -gt 0 ] || { echo "[$id] no profiles written"; continue; }
  "$PROFDATA" merge -sparse "$P"/*.profraw -o "$P/merged.profdata" || continue
  "$COV" export -format=lcov -instr-profile="$P/merged.profdata" "$EXE" /repo/src > "$OUT/lcov/$id-$TIER.lcov" 2>"$P/cov.err"
  "$COV" export -format=text -skip-expansions -instr-profile="$P/merged.profdata" "$EXE" /repo/src > "$P/cov.json" 2>>"$P/cov.err"
  python3 "$VERIF/tools/coverage_report.py" report "$id" "$TIER" "$OUT/lcov/$id-$TIER.lcov" "$P/cov.json" \
     --meta seed=$SEED shards=$N profiles=$NPROF wall_s=$((t1-t0)) ${BAD:+bad_shards="$(echo $BAD | tr ' ' ',')"}
  rm -f "$P"/*.profraw
done
python3 "$VERIF/tools/coverage_report.py" table >/dev/null
if [ "${KEEP:-0}" != 1 ]; then rm -rf "$TARGET" "$WORK"; fi
echo "reports in $OUT"
