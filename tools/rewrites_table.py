#!/usr/bin/env python3
"""Print the harmless-rewrite study (DESIGN.md §12, round 4) as a markdown table from
seeded/rewrites/*/result.json (written by tools/try_rewrite.sh)."""
import json, glob, os, re
ROOT = os.path.dirname(os.path.dirname(os.path.abspath(__file__)))
def cut(s, n):
    s = " ".join((s or "").split())
    return s if len(s) <= n else s[: n - 1] + "…"
print("| id | kind | rewrite | observable change | checks run (quick, against the rewritten copy) | alarm |")
print("|----|------|---------|-------------------|-----------------------------------------------|-------|")
for d in sorted(glob.glob(os.path.join(ROOT, "seeded", "rewrites", "*"))):
    p = os.path.join(d, "result.json")
    if not os.path.exists(p):
        continue
    r = json.load(open(p)); n = r.get("note", {})
    runs = []
    cur = None
    for l in r.get("checks", []):
        m = re.match(r"--- (C\d\d)", l)
        if m:
            cur = m.group(1); continue
        m = re.search(r"spec_failures=(\d+) model_disagreements=(\d+)", l)
        if m and cur:
            runs.append(f"{cur}: S={m.group(1)} M={m.group(2)}")
        if "VIOLATION" in l and cur:
            runs.append(f"{cur}: " + ("VIOLATION no-failing-input-found" if "no-failing" in l else "VIOLATION"))
    verdict = r.get("verdict") or ("ALARM" if r.get("alarm") else "silent")
    print(f"| {os.path.basename(d)} | {n.get('kind','')} | {cut(n.get('summary'), 220)} ({', '.join(r.get('files', []))}) | {cut(n.get('observable_change'), 160)} | {'; '.join(runs)} | {verdict} |")
