#!/bin/bash
# Repeat one (rewrite, property) run of the harmless-rewrite study on a quiescent tree and replace
# that property's lines in seeded/rewrites/<id>/{checks.txt,result.json} (the first run is kept under
# "superseded").  Usage: tools/rewrite_rerun.sh <worktree> <id> <Cnn> [reason]
WT=$1; ID=$2; P=$3; WHY=${4:-"first run coincided with concurrent edits of the Lean tree"}
D=/verif/seeded/rewrites/$ID
mkdir -p $D
cd $WT && git checkout -q -- src && git apply $D/patch.diff || exit 2
OUT=$(VERIF_NO_DEEPEN=1 /verif/tools/try_mutant.sh "$WT" "$P" quick 2>&1 | grep -E "^\[C|VIOLATION|KNOWN" | head -6)
git checkout -q -- src
python3 - "$D" "$P" "$OUT" "$WHY" <<'PY'
import json,sys,os,re
d,p,out,why=sys.argv[1:5]
rp=d+'/result.json'
r=json.load(open(rp)) if os.path.exists(rp) else {"note":json.load(open(d+'/note.json')) if os.path.exists(d+'/note.json') else {}, "files":[l[6:].strip() for l in open(d+'/patch.diff') if l.startswith('+++ b/')], "checks":[]}
old,new,keep=[],[],True
for l in r.get("checks",[]):
    if l.startswith('--- '): keep = (l.strip()!='--- '+p)
    (new if keep else old).append(l)
new += ['--- '+p] + out.splitlines()
r["checks"]=new
if old: r.setdefault("superseded",[]).append({"property":p,"why":why,"lines":old})
r["alarm"]=any("VIOLATION" in l for l in new)
json.dump(r,open(rp,'w'),indent=1)
open(d+'/checks.txt','w').write("\n".join(new)+"\n")
print(os.path.basename(d),p,"->","ALARM" if any("VIOLATION" in l for l in out.splitlines()) else "silent"); print(out)
PY
