#!/bin/bash
# Final pass of the seeded-change study: re-apply every filed patch to a scratch worktree of
# /repo's CURRENT HEAD and re-run the property's quick check against it (tools/try_mutant.sh).
# VERIF_RERUN_FILTER=<regex> restricts the pass to matching ids (e.g. 'C0[48]|C1[678]').
# Records the outcome as "final_result" in seeded/<id>/meta.json.  Usage: tools/rerun_seeded.sh [jobs]
JOBS=${1:-4}
cd /verif
one() {
  ID=$1; D=/verif/seeded/$ID; PID=$(python3 -c "import json;print(json.load(open('$D/meta.json'))['property'])")
  WT=/tmp/rs-$ID
  git -C /repo worktree add -q --detach $WT HEAD 2>/dev/null || { echo "$ID worktree failed"; return; }
  cd $WT
  if git apply $D/patch.diff 2>/dev/null; then
    if [ "$ID" = "C07-m2" ]; then export VERIF_MUTANT_TABLES=1; else unset VERIF_MUTANT_TABLES; fi
    OUT=$(/verif/tools/try_mutant.sh $WT $PID quick 2>&1 </dev/null | grep -E "^\[C|VIOLATION|KNOWN")
    if echo "$OUT" | grep -q "VIOLATION" ; then
      if echo "$OUT" | grep "VIOLATION" | grep -qv "no-failing-input-found"; then RES="detected (failing input)"; else RES="detected (no-failing-input-found)"; fi
      if echo "$OUT" | grep -q "anchored source differs"; then RES="$RES, by the deepened pass"; fi
    else RES="NOT detected by $PID quick"; fi
  else
    RES="patch no longer applies to HEAD"; OUT=""
  fi
  python3 - "$D/meta.json" "$RES" "$OUT" "$(git -C /repo rev-parse --short HEAD)" <<'PY'
import json,sys
p,res,out,head=sys.argv[1:5]
m=json.load(open(p)); m['final_result']=res; m['final_run']={'repo_head':head,'check_output':out.splitlines()[:4]}
json.dump(m,open(p,'w'),indent=1)
PY
  cd /verif; git -C /repo worktree remove --force $WT; rm -rf /tmp/mw_tmp_rs-$ID
  echo "$ID: $RES"
}
export -f one
ls /verif/seeded | grep -v '^rewrites$' | grep -E "${VERIF_RERUN_FILTER:-.}" | xargs -P $JOBS -I{} bash -c 'one {}'
git -C /repo worktree prune
