#!/usr/bin/env python3
"""Regenerate the generated blocks of DESIGN.md: §12 table (seeded changes) and §13 (status per property)."""
import json, glob, os, re, subprocess
ROOT = os.path.dirname(os.path.dirname(os.path.abspath(__file__)))
D = os.path.join(ROOT, "DESIGN.md")

def cut(s, n):
    s = " ".join((s or "").split())
    return s if len(s) <= n else s[: n - 1] + "…"

def seeded():
    L = ["| id | what was changed | needs | result on the final tree | notes |", "|----|------------------|-------|--------------------------|-------|"]
    stats = {}
    for d in sorted(glob.glob(os.path.join(ROOT, "seeded", "*"))):
        if not os.path.exists(os.path.join(d, "meta.json")):
            continue
        m = json.load(open(os.path.join(d, "meta.json")))
        res = m.get("final_result") or ("detected" if m.get("detected_by_quick_check") else "NOT detected")
        stats[res] = stats.get(res, 0) + 1
        notes = cut(m.get("history", ""), 300)
        if m.get("also_detected_by"):
            notes += " Also caught by: " + ", ".join(m["also_detected_by"].keys()) + "."
        L.append(f"| {os.path.basename(d)} | {cut(m.get('summary'), 220)} | {cut(m.get('needs'), 200)} | {res} | {notes} |")
    head = "Totals: " + "; ".join(f"{v} × {k}" for k, v in sorted(stats.items())) + f" (of {sum(stats.values())})."
    return head + "\n\n" + "\n".join(L)

def status():
    out = []
    out.append("| prop | level | theorems | cases (last run) | open obligations |")
    out.append("|------|-------|----------|------------------|------------------|")
    total = 0
    details = []
    for cp in sorted(glob.glob(os.path.join(ROOT, "conf", "C*.json"))):
        c = json.load(open(cp)); pid = c["id"]
        pp = os.path.join(ROOT, "lean", "DSymVerif", "Props", pid + ".lean")
        names = re.findall(r"^\s*theorem\s+([^\s:({\[]+)", open(pp).read(), re.M) if os.path.exists(pp) else []
        total += len(names)
        ep = os.path.join(ROOT, "evidence", pid + ".json")
        ev = json.load(open(ep)) if os.path.exists(ep) else None
        cases = f"{ev['coverage'].get('evaluations')} ({ev['tier']})" if ev else "?"
        oo = c.get("open_obligations", [])
        out.append(f"| {pid} | {c['level']} | {len(names)} | {cases} | {len(oo)} |")
        details.append(f"**{pid} — {c['level']}.** {c.get('level_text','').strip()}\n\n" +
                       ("Open (each is a Spec clause evaluated on every explored case, or a stated hypothesis):\n" + "\n".join(f"* {cut(o if isinstance(o, str) else json.dumps(o), 600)}" for o in oo) if oo else "Open: nothing.") +
                       f"\n\nTheorems ({len(names)}): " + ", ".join(f"`{n}`" for n in names) + ".\n")
    out.append(f"\nTotal property theorems: {total}.\n")
    return "\n".join(out) + "\n" + "\n".join(details)

def replace_block(text, tag, body):
    b, e = f"<!-- BEGIN GENERATED {tag} -->", f"<!-- END GENERATED {tag} -->"
    if b not in text:
        return text + f"\n{b}\n{body}\n{e}\n"
    i, j = text.index(b) + len(b), text.index(e)
    return text[:i] + "\n" + body + "\n" + text[j:]

s = open(D).read()
s = replace_block(s, "SEEDED", seeded())
s = replace_block(s, "STATUS", status())
if "<!-- BEGIN GENERATED REWRITES -->" in s:
    rw = subprocess.run(["python3", os.path.join(ROOT, "tools", "rewrites_table.py")], capture_output=True, text=True).stdout
    s = replace_block(s, "REWRITES", rw.strip())
open(D, "w").write(s)
print("DESIGN.md generated blocks updated")
