#!/usr/bin/env python3
"""Helper of tools/coverage.sh: turn one llvm-cov export of a property's harness run into
notes/coverage/<id>.txt, and (re)generate the table of notes/coverage/SUMMARY.md.

  coverage_report.py report <Cnn> <tier> <lcov> [<llvm-cov json>] [--meta k=v ...]
  coverage_report.py table                 # rebuild the table block of SUMMARY.md from notes/coverage/data/*.json

Line data comes from the lcov export (DA:line,count = what `llvm-cov show` prints in the
count column; a line counts as executed if ANY region starting/continuing on it ran, in ANY
instantiation of a generic function).  The optional JSON export is used to find regions with
count 0 that sit on executed lines (`?` error arms, short-circuited `&&`/`||` operands,
one-line `if .. { return .. }`, closure bodies): listed as "partially executed lines".

Not part of any registered check; measurement only.
"""
import sys, os, re, json, collections, datetime, subprocess

ROOT = os.path.dirname(os.path.dirname(os.path.abspath(__file__)))
REPO = "/repo"
OUT = os.path.join(ROOT, "notes", "coverage")


def load_props():
    props = {}
    with open(os.path.join(ROOT, "properties.jsonl")) as f:
        for l in f:
            if l.strip():
                p = json.loads(l)
                props[p["id"]] = p
    return props


def parse_where(w):
    """'src/a.rs:10-20,30-40' -> ('src/a.rs', [(10,20),(30,40)])"""
    path, _, rngs = w.partition(":")
    out = []
    for r in rngs.split(","):
        r = r.strip()
        if not r:
            continue
        a, _, b = r.partition("-")
        out.append((int(a), int(b or a)))
    return path, out


_hunks_cache = {}


def anchor_base():
    """commit the anchors' line numbers refer to: the pinned snapshot = root commit of /repo (override: ANCHOR_BASE)."""
    b = os.environ.get("ANCHOR_BASE")
    if b:
        return b
    try:
        return subprocess.run(["git", "-C", REPO, "rev-list", "--max-parents=0", "HEAD"], capture_output=True, text=True,
                              check=True).stdout.split()[0]
    except Exception:
        return None


def hunks(path):
    """[(old_start, old_len, new_start, new_len)] of `git diff -U0 <base> -- path` (base snapshot vs working tree)."""
    if path in _hunks_cache:
        return _hunks_cache[path]
    hs = []
    base = anchor_base()
    if base:
        try:
            out = subprocess.run(["git", "-C", REPO, "diff", "-U0", base, "--", path], capture_output=True, text=True).stdout
            for m in re.finditer(r"^@@ -(\d+)(?:,(\d+))? \+(\d+)(?:,(\d+))? @@", out, re.M):
                os_, ol, ns, nl = int(m.group(1)), m.group(2), int(m.group(3)), m.group(4)
                hs.append((os_, 1 if ol is None else int(ol), ns, 1 if nl is None else int(nl)))
        except Exception:
            pass
    _hunks_cache[path] = hs
    return hs


def remap(path, a, b):
    """map the line range a-b of the pinned snapshot to the working tree (the fixes of DESIGN §11 shifted the code)."""
    def one(x, end):
        delta = 0
        for (os_, ol, ns, nl) in hunks(path):
            if ol == 0:                      # pure insertion after old line os_
                if x > os_:
                    delta = (ns + nl - 1) - os_
                continue
            if x < os_:
                break
            if x <= os_ + ol - 1:            # inside a replaced block: snap to the new block
                if nl == 0:
                    return ns + (0 if end else 1)
                return (ns + nl - 1) if end else ns
            delta = (ns + nl - 1) - (os_ + ol - 1) if nl else ns - (os_ + ol - 1)
        return x + delta
    na, nb = one(a, False), one(b, True)
    # an insertion directly inside the range start..end is covered automatically (end shifts, start does not)
    return na, max(na, nb)


def parse_lcov(path):
    files = {}
    cur = None
    with open(path) as f:
        for l in f:
            l = l.strip()
            if l.startswith("SF:"):
                cur = files.setdefault(l[3:], {})
            elif l.startswith("DA:") and cur is not None:
                a, b = l[3:].split(",")[:2]
                ln = int(a)
                cur[ln] = max(cur.get(ln, 0), int(b))
            elif l == "end_of_record":
                cur = None
    return files


def zero_regions(jpath):
    """(file -> list of (l1,c1,l2,c2)) code regions whose count is 0 in every instantiation."""
    if not jpath or not os.path.exists(jpath):
        return {}
    D = json.load(open(jpath))["data"][0]
    agg = collections.defaultdict(int)
    for fn in D["functions"]:
        names = fn["filenames"]
        for r in fn["regions"]:
            l1, c1, l2, c2, cnt, fid, efid, kind = r[:8]
            if kind != 0:
                continue
            agg[(names[fid], l1, c1, l2, c2)] += cnt
    out = collections.defaultdict(list)
    for (fnm, l1, c1, l2, c2), cnt in agg.items():
        if cnt == 0:
            out[fnm].append((l1, c1, l2, c2))
    for v in out.values():
        v.sort()
    return out


_item = re.compile(r"^\s*(?:pub(?:\([^)]*\))?\s+)?(?:default\s+)?(?:const\s+)?(?:async\s+)?(?:unsafe\s+)?(?:extern\s+\"[^\"]*\"\s+)?"
                   r"(fn|impl|trait|mod)\b\s*(.*)")


def strip_code(line, st):
    """remove comments / string and char literals (roughly) so that braces can be counted."""
    out = []
    i = 0
    n = len(line)
    while i < n:
        c = line[i]
        if st["block"]:
            if line.startswith("*/", i):
                st["block"] -= 1
                i += 2
            elif line.startswith("/*", i):
                st["block"] += 1
                i += 2
            else:
                i += 1
            continue
        if st["str"]:
            if c == "\\":
                i += 2
                continue
            if c == '"':
                st["str"] = False
            i += 1
            continue
        if line.startswith("//", i):
            break
        if line.startswith("/*", i):
            st["block"] += 1
            i += 2
            continue
        if c == '"':
            st["str"] = True
            i += 1
            continue
        if c == "'":
            m = re.match(r"'(\\.[^']*|[^\\'])'", line[i:])
            if m:
                i += m.end()
                continue
        out.append(c)
        i += 1
    return "".join(out)


def function_map(src_lines):
    """line number -> 'impl X for Y :: fn name' (innermost fn with its enclosing impl/trait/mod)."""
    res = {}
    stack = []      # (kind, label, depth_at_open)
    depth = 0
    pending = None  # item header seen, waiting for its '{'
    st = {"block": 0, "str": False}
    for no, raw in enumerate(src_lines, 1):
        code = strip_code(raw.rstrip("\n"), st)
        m = _item.match(code)
        if m and not (m.group(1) == "mod" and code.rstrip().endswith(";")):
            kind = m.group(1)
            rest = m.group(2)
            if kind == "fn":
                label = "fn " + re.match(r"[A-Za-z0-9_]*", rest).group(0)
            else:
                label = kind + " " + re.split(r"\s*(\{|where\b)", rest)[0].strip()
            pending = (kind, label)
        # attribute the header line itself to the pending item
        fn_ctx = [s for s in stack]
        if pending:
            fn_ctx = fn_ctx + [(pending[0], pending[1], depth)]
        res[no] = " :: ".join(lbl for (_, lbl, _) in fn_ctx if lbl) or "(top level)"
        for ch in code:
            if ch == "{":
                if pending:
                    stack.append((pending[0], pending[1], depth))
                    pending = None
                depth += 1
            elif ch == "}":
                depth -= 1
                while stack and stack[-1][2] >= depth:
                    stack.pop()
            elif ch == ";" and pending and pending[0] == "fn":
                pending = None      # trait method declaration without body
    return res


def group_runs(lines):
    runs = []
    for ln in sorted(lines):
        if runs and ln == runs[-1][1] + 1:
            runs[-1][1] = ln
        else:
            runs.append([ln, ln])
    return runs


def report(pid, tier, lcov_path, json_path, meta):
    props = load_props()
    p = props[pid]
    cov = parse_lcov(lcov_path)
    zr = zero_regions(json_path)
    os.makedirs(os.path.join(OUT, "data"), exist_ok=True)
    anchors = p["anchors"]
    mech = collections.defaultdict(list)      # file -> [(a,b,name)]
    for m in anchors["mechanism"]:
        path, rngs = parse_where(m["where"])
        for (a, b) in rngs:
            na, nb = remap(path, a, b)
            mech[path].append((na, nb, m["name"] + (f"  [anchor says {a}-{b}; shifted by the fixes since the pinned snapshot]" if (na, nb) != (a, b) else "")))
    files = list(anchors["files"])
    for path in mech:
        if path not in files:
            files.append(path)

    out = []
    W = out.append
    W(f"{pid}  {p['title']}")
    W(f"coverage of /repo/src by harness binary {pid.lower()}  tier={tier}  " + "  ".join(f"{k}={v}" for k, v in meta.items()))
    W(f"generated {datetime.datetime.now().strftime('%Y-%m-%d %H:%M')} by tools/coverage.sh (llvm source-based coverage, -C instrument-coverage, "
      "opt-level 2, overflow-checks + debug-assertions on)")
    W("")
    tot_exec = tot_hit = 0
    mech_rows = []
    per_file = {}
    for path in files:
        full = os.path.join(REPO, path)
        fc = cov.get(full)
        per_file[path] = fc
        for (a, b, name) in mech.get(path, []):
            if fc is None:
                mech_rows.append((path, a, b, name, None, None))
                continue
            ex = [ln for ln in fc if a <= ln <= b]
            hit = [ln for ln in ex if fc[ln] > 0]
            mech_rows.append((path, a, b, name, len(ex), len(hit)))
    # summary over the union of anchored ranges (a line in two ranges counts once)
    seen = set()
    for path in files:
        fc = per_file[path]
        if fc is None:
            continue
        for (a, b, _) in mech.get(path, []):
            for ln in fc:
                if a <= ln <= b and (path, ln) not in seen:
                    seen.add((path, ln))
                    tot_exec += 1
                    tot_hit += fc[ln] > 0
    pct = (100.0 * tot_hit / tot_exec) if tot_exec else 0.0
    W(f"SUMMARY anchored ranges (mechanism.where): executed {tot_hit} / executable {tot_exec} lines = {pct:.1f}%")
    W("")
    W("per mechanism range:")
    for (path, a, b, name, ex, hit) in mech_rows:
        if ex is None:
            W(f"  {path}:{a}-{b}  (no coverage records: not Rust code or never compiled)  | {name}")
        else:
            W(f"  {path}:{a}-{b}  {hit}/{ex}" + (f" = {100.0*hit/ex:.0f}%" if ex else "") + f"  | {name}")
    W("")
    W("per anchor file (whole file, non-test code):")
    file_tot = {}
    for path in files:
        fc = per_file[path]
        if fc is None:
            W(f"  {path}: no coverage records")
            continue
        ex = len(fc)
        hit = sum(1 for v in fc.values() if v > 0)
        file_tot[path] = (ex, hit)
        W(f"  {path}: {hit}/{ex} = {100.0*hit/ex:.0f}%")
    W("")
    W("Legend: '*' = line lies inside one of this property's mechanism.where ranges; count 0 = llvm-cov marks the line executable and no")
    W("shard executed it.  Lines executed only by the harness's own generator code (e.g. building inputs through the crate) count as executed.")
    W("")

    regions_digest = []
    for path in files:
        fc = per_file[path]
        if fc is None:
            continue
        full = os.path.join(REPO, path)
        try:
            src = open(full, encoding="utf-8", errors="replace").read().split("\n")
        except OSError:
            continue
        fmap = function_map(src)
        rngs = mech.get(path, [])
        inm = lambda ln: any(a <= ln <= b for (a, b, _) in rngs)
        zero = sorted(ln for ln, c in fc.items() if c == 0)
        W("=" * 100)
        W(f"{path}: {len(zero)} executable lines never executed ({sum(1 for l in zero if inm(l))} inside anchored ranges)")
        W("=" * 100)
        byfn = collections.OrderedDict()
        for ln in zero:
            byfn.setdefault(fmap.get(ln, "?"), []).append(ln)
        # never-entered functions: every executable line of the function is 0
        fn_lines = collections.defaultdict(list)
        for ln in fc:
            fn_lines[fmap.get(ln, "?")].append(ln)
        for fn, lns in byfn.items():
            allz = all(fc[l] == 0 for l in fn_lines[fn])
            nin = sum(1 for l in lns if inm(l))
            W("")
            W(f"-- {fn}   [{len(lns)} of {len(fn_lines[fn])} executable lines not executed"
              + ("; FUNCTION NEVER ENTERED" if allz else "") + (f"; {nin} in anchored range" if nin else "") + "]")
            for (a, b) in group_runs(lns):
                for ln in range(a, b + 1):
                    W(f"  {'*' if inm(ln) else ' '} {ln:5d}: {src[ln-1].rstrip()}")
                if nin and any(inm(l) for l in range(a, b + 1)):
                    regions_digest.append({"file": path, "from": a, "to": b, "fn": fn,
                                           "anchored_lines": sum(1 for l in range(a, b + 1) if inm(l)),
                                           "never_entered": allz})
        # partially executed lines
        part = []
        for (l1, c1, l2, c2) in zr.get(full, []):
            if fc.get(l1, 0) > 0:
                part.append((l1, c1, l2, c2))
        if part:
            W("")
            W(f"-- partially executed lines in {path} (line count > 0, but this sub-region has count 0 in every instantiation)")
            for (l1, c1, l2, c2) in part:
                text = src[l1 - 1].rstrip()
                seg = text[c1 - 1:(c2 - 1 if l2 == l1 else None)].strip()
                W(f"  {'*' if inm(l1) else ' '} {l1:5d}:{c1}-{l2}:{c2}  {fmap.get(l1,'?').split(' :: ')[-1]}   never ran: `{seg[:90]}`")
                W(f"          {text.strip()[:140]}")
        W("")

    with open(os.path.join(OUT, f"{pid}.txt" if tier == "quick" else f"{pid}.{tier}.txt"), "w") as f:
        f.write("\n".join(out) + "\n")
    regions_digest.sort(key=lambda r: -r["anchored_lines"])
    data = {"id": pid, "tier": tier, "meta": meta, "anchored_executable": tot_exec, "anchored_executed": tot_hit,
            "mechanisms": [{"where": f"{path}:{a}-{b}", "name": name, "executable": ex, "executed": hit}
                           for (path, a, b, name, ex, hit) in mech_rows],
            "files": {k: {"executable": v[0], "executed": v[1]} for k, v in file_tot.items()},
            "uncovered_regions_in_anchors": regions_digest}
    with open(os.path.join(OUT, "data", f"{pid}-{tier}.json"), "w") as f:
        json.dump(data, f, indent=1)
    print(f"[{pid}] {tier}: anchored {tot_hit}/{tot_exec} = {pct:.1f}%")


HEADER = """# Harness coverage of /repo/src per property

What this measures: which source lines of /repo/src the correspondence harness `harness/src/bin/cNN.rs` executes when it
is run exactly as `./check CNN --tier T` runs it (`--tier T --seed 1 --shard i/16`, all 16 shards), built with
`-C instrument-coverage` (nightly toolchain, LLVM source-based coverage; opt-level 2, overflow-checks and debug-assertions
on as in the normal profile).  Tool: `tools/coverage.sh <Cnn|all> [quick|thorough]` + `tools/coverage_report.py`.
Per property: `<id>.txt` (quick) / `<id>.thorough.txt`: every executable line of every anchor file that no shard executed,
grouped by function, `*` = inside the property's `anchors.mechanism[].where`; plus "partially executed lines" = regions
with count 0 on an executed line (`?` error arms, the implicit else of an `if let`, short-circuited operands).
Raw data: `lcov/<id>-<tier>.lcov`, `data/<id>-<tier>.json`.

Reading notes
* Anchor line numbers in properties.jsonl are those of the pinned snapshot (root commit of /repo).  Later fixes shifted the
  code; every range is mapped through `git diff -U0 <root> -- file` to the working tree and the per-mechanism list of each
  report says so (e.g. cosets.rs:355-386 -> 386-417, dsets.rs:249-278 -> 253-282).
* A line counts as executed if any region on it ran in any monomorphisation.  Code that the harness's own *generator* runs
  (covers built with derived::cover, tables obtained from coset_tables, ...) counts as executed although no Spec of that
  property looks at it.
* #[cfg(test)] code is not compiled and does not appear.  Functions never called still appear (count 0), so
  "FUNCTION NEVER ENTERED" is reliable.  A closing brace with count 0 is the implicit else of an if / if let.
* Line coverage says nothing about values: 100 % means every statement ran at least once, not that the generator is adequate.

"""

BEGIN, END = "<!-- TABLE BEGIN (generated by tools/coverage_report.py table) -->", "<!-- TABLE END -->"


def table():
    rows = []
    props = load_props()
    have = {}
    for fn in sorted(os.listdir(os.path.join(OUT, "data"))):
        if fn.endswith(".json"):
            d = json.load(open(os.path.join(OUT, "data", fn)))
            have[(d["id"], d["tier"])] = d
    tiers = sorted({t for (_, t) in have})
    lines = ["| property | tier | anchored lines executable | executed | % | harness wall (instrumented) | lowest mechanism range |",
             "|---|---|---:|---:|---:|---:|---|"]
    for pid in sorted(props):
        for t in tiers:
            d = have.get((pid, t))
            if not d:
                continue
            ex, hit = d["anchored_executable"], d["anchored_executed"]
            ms = [m for m in d["mechanisms"] if m["executable"]]
            low = min(ms, key=lambda m: m["executed"] / m["executable"]) if ms else None
            lowtxt = f"{low['where']} {low['executed']}/{low['executable']}" if low else ""
            lines.append(f"| {pid} | {t} | {ex} | {hit} | {100.0*hit/ex if ex else 0:.1f} | {d['meta'].get('wall_s','?')} s | {lowtxt} |")
    block = BEGIN + "\n" + "\n".join(lines) + "\n" + END
    sp = os.path.join(OUT, "SUMMARY.md")
    if os.path.exists(sp):
        txt = open(sp).read()
        if BEGIN in txt and END in txt:
            txt = txt[:txt.index(BEGIN)] + block + txt[txt.index(END) + len(END):]
        else:
            txt = txt.rstrip("\n") + "\n\n" + block + "\n"
    else:
        txt = HEADER + block + "\n"
    open(sp, "w").write(txt)
    print("\n".join(lines))


if __name__ == "__main__":
    if len(sys.argv) >= 2 and sys.argv[1] == "table":
        table()
    elif len(sys.argv) >= 5 and sys.argv[1] == "report":
        pid, tier, lcov = sys.argv[2:5]
        rest = sys.argv[5:]
        jpath = None
        meta = collections.OrderedDict()
        i = 0
        while i < len(rest):
            if rest[i] == "--meta":
                i += 1
                while i < len(rest):
                    k, _, v = rest[i].partition("=")
                    meta[k] = v
                    i += 1
            else:
                jpath = rest[i]
                i += 1
        report(pid, tier, lcov, jpath, meta)
    else:
        sys.stderr.write(__doc__)
        sys.exit(2)
