#!/usr/bin/env python3
"""Snapshot of the anchored source files (DESIGN.md §10.6).

  tools/fingerprints.py --update   write /verif/fingerprints.json from /repo's working tree
  tools/fingerprints.py            list anchored files that differ from the snapshot

The snapshot is taken by hand after the thorough tier of every property has been verified green
on the tree; it is committed and never written by a check.  A quick check that finds an anchored
file of its property changed against the snapshot additionally explores the thorough universe
(time-capped) — it never fails a run by itself.
"""
import sys, os, json, hashlib, glob, subprocess, time
ROOT = os.path.dirname(os.path.dirname(os.path.abspath(__file__)))
REPO = os.environ.get("VERIF_REPO", "/repo")

sys.path.insert(0, os.path.dirname(os.path.abspath(__file__)))
from fphash import file_sha as sha  # hook items (cfg(odf_rust_dsymbols_verif)) are not part of the hash

files = set()
for line in open(os.path.join(ROOT, "properties.jsonl")):
    if line.strip():
        files |= set(json.loads(line).get("anchors", {}).get("files", []))
for c in glob.glob(os.path.join(ROOT, "conf", "C*.json")):
    files |= set(json.load(open(c)).get("also_depends_on", []))
# every source file: a property's set is its anchors plus the modules they use (computed by ./check)
for dp, _, fs in os.walk(os.path.join(REPO, "src")):
    for f in fs:
        files.add(os.path.relpath(os.path.join(dp, f), REPO))
cur = {f: sha(os.path.join(REPO, f)) for f in sorted(files)}
fp = os.path.join(ROOT, "fingerprints.json")
if "--update" in sys.argv:
    head = subprocess.run(["git", "-C", REPO, "rev-parse", "--short", "HEAD"], capture_output=True, text=True).stdout.strip()
    json.dump({"repo_head": head, "taken": time.strftime("%Y-%m-%d %H:%M"), "files": cur}, open(fp, "w"), indent=1)
    print(f"fingerprints.json: {len(cur)} files at {head}")
else:
    snap = json.load(open(fp)).get("files", {}) if os.path.exists(fp) else {}
    for f in cur:
        if snap.get(f) != cur[f]:
            print("changed:", f)
