"""Content hash of a source file for fingerprints.json (DESIGN.md §10.6).

Rust files are hashed with every item guarded by `#[cfg(odf_rust_dsymbols_verif)]` removed
(together with the `//` comment lines directly above the attribute), so that adding or
changing a verification hook -- code that is not compiled without the guard and is
add-only by MANIFEST.hooks -- never counts as a change of the modelled code.  Everything
else is hashed byte for byte."""
import hashlib, re

GUARD = re.compile(r"^[ \t]*#\[cfg\(odf_rust_dsymbols_verif\)\][ \t]*\n", re.M)


def strip_hooks(text):
    out, pos = [], 0
    while True:
        m = GUARD.search(text, pos)
        if not m:
            out.append(text[pos:])
            return "".join(out)
        head = text[pos:m.start()]
        # drop the // comment lines (and blank lines between them) directly above the attribute
        lines = head.split("\n")
        # head ends with "\n" -> last element is ""
        k = len(lines) - 1
        while k > 0 and lines[k - 1].lstrip().startswith("//"):
            k -= 1
        if k < len(lines) - 1:
            while k > 0 and lines[k - 1].strip() == "":
                k -= 1
            head = "\n".join(lines[:k]) + "\n"
        out.append(head)
        # skip the guarded item: up to the matching closing brace, or the first ';' before any '{'
        i, n, depth, seen_brace = m.end(), len(text), 0, False
        while i < n:
            c = text[i]
            if text.startswith("//", i):
                while i < n and text[i] != "\n":
                    i += 1
                continue
            if c == '"':
                i += 1
                while i < n and text[i] != '"':
                    i += 2 if text[i] == "\\" else 1
            elif c == "{":
                depth += 1
                seen_brace = True
            elif c == "}":
                depth -= 1
                if seen_brace and depth == 0:
                    i += 1
                    break
            elif c == ";" and not seen_brace:
                i += 1
                break
            i += 1
        while i < n and text[i] in " \t":
            i += 1
        if i < n and text[i] == "\n":
            i += 1
        pos = i


def file_sha(path):
    try:
        with open(path, "rb") as f:
            data = f.read()
    except OSError:
        return "missing"
    if path.endswith(".rs") and b"odf_rust_dsymbols_verif" in data:
        try:
            data = strip_hooks(data.decode("utf-8")).encode("utf-8")
        except UnicodeDecodeError:
            pass
    return hashlib.sha256(data).hexdigest()
