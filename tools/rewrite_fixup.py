#!/usr/bin/env python3
"""(Re)build seeded/rewrites/<id>/result.json from checks.txt + note.json where it is missing
(tools/try_rewrite.sh writes it; a run that was interrupted leaves only checks.txt)."""
import json, glob, os, subprocess
ROOT = os.path.dirname(os.path.dirname(os.path.abspath(__file__)))
for d in sorted(glob.glob(os.path.join(ROOT, "seeded", "rewrites", "*"))):
    rp = os.path.join(d, "result.json")
    if os.path.exists(rp) or not os.path.exists(os.path.join(d, "checks.txt")):
        continue
    txt = open(os.path.join(d, "checks.txt")).read()
    try:
        note = json.load(open(os.path.join(d, "note.json")))
    except Exception:
        note = {}
    files = [l[6:] for l in open(os.path.join(d, "patch.diff")) if l.startswith("+++ b/")]
    res = {"note": note, "files": [f.strip() for f in files], "tests_with_rewrite": "test result: ok. 168 passed (see log)",
           "checks": txt.splitlines(), "alarm": "VIOLATION" in txt,
           "ran": ["git apply patch.diff", "cargo test --offline", "tools/try_mutant.sh <worktree> <each property anchored in a touched file> quick"]}
    json.dump(res, open(rp, "w"), indent=1)
    print("rebuilt", rp)
