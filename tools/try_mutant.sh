#!/bin/bash
# Evaluate a check against a scratch copy of the repository (a git worktree or copy
# of /repo with a seeded change applied) WITHOUT touching /repo, /verif/evidence or
# the shared harness build.  Usage: tools/try_mutant.sh <repo-copy-dir> <Cnn> [tier]
# Not registered in MANIFEST; used for the seeded-change study (DESIGN.md §10).
set -e
SRC=$(readlink -f "$1"); PID=$2; TIER=${3:-quick}
TAG=$(echo "$SRC" | tr '/' '_')
W=/tmp/mw$TAG; H=$W/harness; O=$W/out-$PID
mkdir -p "$H" "$O"
ln -sfn /verif/corpus "$W/corpus"
rsync -a --delete --exclude target /verif/harness/ "$H/"
sed -i "s#path = \"/repo\"#path = \"$SRC\"#" "$H/Cargo.toml"
cd /verif
if [ -n "$VERIF_MUTANT_TABLES" ]; then
  # table-level changes: private copy of the Lean project, tables regenerated from the scratch repo
  rsync -a --delete /verif/lean/ "$W/lean/"
  VERIF_REPO="$SRC" VERIF_LEAN="$W/lean" VERIF_HARNESS="$H" VERIF_OUT="$O" ./check "$PID" --tier "$TIER" | tail -12
else
  VERIF_REPO="$SRC" VERIF_HARNESS="$H" VERIF_OUT="$O" VERIF_NO_TABLES=1 ./check "$PID" --tier "$TIER" | tail -8
fi
echo "(replays and evidence of this trial under $O; harness copy $H — remove $W when done)"
